//! C18 — input is consumed line by line, no further than the running command needs.
//!
//! Case line: `<feed> <hex data> <hex unit> <hex unit> …`; the script is the concatenation of the
//! units, every unit a self-contained group of whole lines (command lines plus the data lines its
//! commands consume).  Feeds: `str` (`sh -c script`, standard input = data), `file` (`sh -s`, the
//! script is the regular file /dev/stdin), `pipe:<pause>:<n1>,<n2>,…` (`sh -s`, standard input is a
//! pipe into which a writer process writes the script in chunks of n1, n2, … bytes (cyclic), sleeping
//! `pause` virtual milliseconds before each chunk so that the shell blocks in the middle of lines).
//!
//! Observation: `trace=<item|…> status=<n> err=<0/1> echo=<hex>`: the items are the lines of
//! standard output (`<$?>:<hex fields>@<offset of standard input>` for the probe built-in, `L<hex>`
//! otherwise), the final exit status, whether a syntax error was reported, and what `set -v` echoed.
//!
//! Oracle (no model involved): same observation as the `file` feed whatever the chunking (and for
//! `str` when nothing reads standard input); for every unit boundary the run of the prefix is a
//! prefix of the run of the whole (earlier lines take effect whatever follows, including a syntax
//! error); `read` received exactly the next line; every offset a command sees is a line start.
use std::cell::{Cell, RefCell};
use std::ops::ControlFlow::{Break, Continue};
use std::io::SeekFrom;
use std::rc::Rc;
use std::time::{Duration, Instant};
use yash_env::system::concurrency::Sleep as _;
use yash_env::builtin::{Builtin, Type};
use yash_env::io::Fd;
use yash_env::job::Pid;
use yash_env::semantics::{ExitStatus, Field};
use yash_env::system::concurrency::WriteAll as _;
use yash_env::system::r#virtual::{FileBody, Process, SystemState, VirtualSystem};
use yash_env::system::{Close as _, Concurrent, Fcntl as _, GetPid as _, Pipe as _};
use yverif::proto::{Opts, dec_bytes, emit, enc_bytes, enc_str, guarded, quiet_panics};
use yverif::rng::Rng;
use yash_cli::startup::args::{InitFile, Run, Source, Work};
use yash_cli::startup::configure_environment;
use yash_env::Env;
use yash_env::parser::Mode;
use yash_env::semantics::Divert;
use yash_semantics::read_eval_loop;
use yash_semantics::trap::run_exit_trap;
use yash_syntax::parser::Parser;
use yash_syntax::parser::lex::Lexer;
use yverif::shell::{BuiltinFuture, Config, Outcome, SourceKind, VEnv, probe_builtins, read_file, run_with};

/// the files the scripts may read with the `.` built-in (the same in lean/YashModel/Input/Model.lean
/// `dotFile`)
const DOT_FILES: [(&str, &str); 11] = [
    // what an asynchronous command's standard input is redirected to (`nullify_stdin`)
    ("/dev/null", ""),
    ("/d1", "probe D1\nread vd\nprobe D1b \"$vd\"\n"),
    ("/d2", "alias a3='probe fromdot'\nset -o portable\n"),
    ("/d3", "probe D3a\nfi\nprobe D3b\n"),
    ("/d4", "probe D4 'multi\nline'\ncat <<E\nh dot é\nE\n"),
    ("/d5", ""),
    ("/d6", "st 3"),
    // no command at all / a command followed by lines without commands
    ("/d7", "# only a comment\n\n   \n\t# and blanks\n"),
    ("/d8", "\n# c\nst 4\n\n# trailing comment"),
    // data files for `<path` (the second one looks like commands: a shell that came to read its
    // commands from it would run them)
    ("/r1", "r1 one\nr1 two é\n"),
    ("/r2", "probe FROMR2 a\nprobe FROMR2 b\n"),
];

#[derive(Clone, Debug)]
enum Feed {
    /// `sh -c script`, stdin = data
    Str,
    /// `sh -s` with /dev/stdin = script (a regular file)
    File,
    /// `sh /script.sh`: the script is read from its own descriptor, stdin = data
    Script,
    /// `sh -s` with stdin a pipe written in chunks of the given sizes (cyclic), with that many
    /// executor yields between chunks
    /// (the flag: the pipe is inherited with O_NONBLOCK set on its open file description)
    Pipe(Vec<usize>, usize, bool),
    /// the real binary (this executable re-run as `yash`) reading the script from a real pipe,
    /// inherited in non-blocking mode or not; the units are written one at a time, the next one only
    /// when every process of the shell's tree is blocked
    Real(bool),
}

thread_local! {
    /// bytes of the pipe-fed script not yet written by the writer task
    static UNWRITTEN: Cell<usize> = const { Cell::new(0) };
    static TOTAL: Cell<usize> = const { Cell::new(0) };
    static STATE: RefCell<Option<Rc<RefCell<SystemState>>>> = const { RefCell::new(None) };
    /// probe calls in the current run (a shell that re-executes its input for ever is cut off)
    static PROBES: Cell<usize> = const { Cell::new(0) };
    /// the final state of the last `run_feed` (see `final_state`)
    static FINAL: RefCell<Option<String>> = const { RefCell::new(None) };
}

/// Number of bytes consumed so far from the shell's standard input.
fn stdin_offset(env: &VEnv) -> usize {
    let state = STATE.with(|s| s.borrow().clone()).unwrap();
    let st = state.borrow();
    // the process the command runs in (a subshell has its own descriptor table: a redirection made
    // inside it is not visible in the parent's)
    let Some(p) = st.processes.get(&env.system.getpid()) else { return usize::MAX };
    // a closed descriptor has no offset (`closein`): shown as 0, as in the model's `shownPos`
    let Some(body) = p.get_fd(Fd::STDIN) else { return 0 };
    let mut ofd = body.open_file_description.borrow_mut();
    let fifo_len = match &ofd.inode().borrow().body {
        FileBody::Fifo { content, .. } => Some(content.len()),
        _ => None,
    };
    match fifo_len {
        Some(n) => TOTAL.get() - UNWRITTEN.get() - n,
        None => ofd.seek(SeekFrom::Current(0)).unwrap_or(usize::MAX),
    }
}

/// `!nb` if the open file description of standard input is in non-blocking mode right now (a command
/// is running: no read of the shell is in progress), else nothing
fn stdin_mode(env: &VEnv) -> &'static str {
    let state = STATE.with(|s| s.borrow().clone()).unwrap();
    let st = state.borrow();
    let Some(p) = st.processes.get(&env.system.getpid()) else { return "" };
    let Some(body) = p.get_fd(Fd::STDIN) else { return "" };
    if body.open_file_description.borrow().is_nonblocking() { "!nb" } else { "" }
}

/// `probe args…` : `<$?>:<hex fields>@<stdin offset>[!nb]`; preserves `$?`.
fn probe_main(env: &mut VEnv, args: Vec<Field>) -> BuiltinFuture<'_> {
    let fields: Vec<String> = args.iter().map(|f| enc_str(&f.value)).collect();
    let st = env.exit_status.0;
    let off = stdin_offset(env);
    let mode = stdin_mode(env);
    PROBES.set(PROBES.get() + 1);
    if PROBES.get() > 5000 {
        panic!("runaway: more than 5000 probe calls in one run");
    }
    Box::pin(async move {
        let text = format!("{}:{}@{}{}\n", st, fields.join(","), off, mode);
        match env.system.write_all(Fd::STDOUT, text.as_bytes()).await {
            Ok(_) => ExitStatus(st).into(),
            Err(_) => ExitStatus::FAILURE.into(),
        }
    })
}

/// `closein`: closes descriptor 0 of the process the command runs in (what `exec <&-` does): every later
/// read of standard input — by the shell's own reader when the script comes from there — fails (EBADF)
fn closein_main(env: &mut VEnv, _args: Vec<Field>) -> BuiltinFuture<'_> {
    let _ = env.system.close(Fd::STDIN);
    Box::pin(async move { ExitStatus::SUCCESS.into() })
}

fn run_feed(script: &[u8], data: &[u8], feed: &Feed) -> Outcome {
    let text = String::from_utf8_lossy(script).into_owned();
    let mut cfg = match feed {
        Feed::Str => Config::new(&text),
        Feed::File => {
            // the bytes are stored into /dev/stdin by `setup` (they need not be valid UTF-8)
            let mut c = Config::new("");
            c.source = SourceKind::Stdin;
            c
        }
        Feed::Pipe(..) => {
            let mut c = Config::new("");
            c.source = SourceKind::Stdin;
            c
        }
        Feed::Real(_) => unreachable!("the real-binary leg does not run on the virtual system"),
        Feed::Script => {
            // the bytes are stored into the file by `setup`
            let mut c = Config::new("");
            c.source = SourceKind::File("/script.sh".into());
            c
        }
    };
    cfg.max_rounds = 100_000;
    let feed = feed.clone();
    let script = script.to_vec();
    let data = data.to_vec();
    let (o, fin) = run_with(
        cfg,
        move |env, state| {
            STATE.with(|s| *s.borrow_mut() = Some(Rc::clone(state)));
            PROBES.set(0);
            env.builtins.insert("probe", Builtin::new(Type::Mandatory, probe_main));
            env.builtins.insert("closein", Builtin::new(Type::Mandatory, closein_main));
            env.builtins.insert("a1", Builtin::new(Type::Mandatory, a1_main));
            env.builtins.insert("a2", Builtin::new(Type::Mandatory, a2_main));
            env.builtins.insert("a3", Builtin::new(Type::Mandatory, a3_main));
            for (path, content) in DOT_FILES {
                yverif::shell::write_file(state, path, content.as_bytes());
            }
            match feed {
                Feed::Script => {
                    yverif::shell::write_file(state, "/script.sh", &script);
                    let inode = state.borrow().file_system.get("/dev/stdin").unwrap();
                    if let FileBody::Regular { content, .. } = &mut inode.borrow_mut().body {
                        *content = data.clone();
                    }
                }
                Feed::Str => {
                    // standard input of a `-c` shell: a regular file holding `data`
                    let inode = state.borrow().file_system.get("/dev/stdin").unwrap();
                    if let FileBody::Regular { content, .. } = &mut inode.borrow_mut().body {
                        *content = data.clone();
                    }
                }
                Feed::File => {
                    let inode = state.borrow().file_system.get("/dev/stdin").unwrap();
                    if let FileBody::Regular { content, .. } = &mut inode.borrow_mut().body {
                        *content = script.clone();
                    }
                }
                Feed::Real(_) => unreachable!(),
                Feed::Pipe(sizes, yields, nonblock) => {
                    let wpid = Pid(1000);
                    let wsys = VirtualSystem { state: Rc::clone(state), process_id: wpid };
                    state
                        .borrow_mut()
                        .processes
                        .insert(wpid, Process::with_parent_and_group(Pid(1), Pid(1)));
                    let (r, w) = wsys.pipe().unwrap();
                    if nonblock {
                        // a careless parent left the pipe in non-blocking mode
                        wsys.get_and_set_nonblocking(r, true).unwrap();
                    }
                    // hand the read end to the shell process as its standard input
                    {
                        let mut st = state.borrow_mut();
                        let body = st.processes.get_mut(&wpid).unwrap().close_fd(r).unwrap();
                        let shell = st.processes.get_mut(&env.main_pid).unwrap();
                        let _old = shell.set_fd(Fd::STDIN, body);
                    }
                    if state.borrow().now.is_none() {
                        state.borrow_mut().now = Some(Instant::now());
                    }
                    TOTAL.set(script.len());
                    UNWRITTEN.set(script.len());
                    let conc = Rc::new(Concurrent::new(wsys));
                    let conc2 = Rc::clone(&conc);
                    let task = async move {
                        let mut pos = 0;
                        let mut k = 0;
                        while pos < script.len() {
                            let n = sizes[k % sizes.len()].clamp(1, 512).min(script.len() - pos);
                            k += 1;
                            if yields > 0 {
                                conc2.sleep(Duration::from_millis(yields as u64)).await;
                            }
                            if conc2.write_all(w, &script[pos..pos + n]).await.is_err() {
                                break;
                            }
                            pos += n;
                            UNWRITTEN.set(script.len() - pos);
                        }
                        if yields > 0 {
                            conc2.sleep(Duration::from_millis(yields as u64)).await;
                        }
                        conc2.close(w).ok();
                    };
                    let runner = async move { conc.run_virtual(task).await };
                    let ex = state.borrow().executor.clone().unwrap();
                    ex.spawn(Box::pin(runner)).unwrap();
                }
            }
        },
        |env, _| final_state(env),
    );
    STATE.with(|s| *s.borrow_mut() = None);
    FINAL.with(|f| *f.borrow_mut() = fin);
    o
}

/// The state the script leaves behind, beyond what its probes printed: the variables the scripts
/// assign with `read`, the alias table entries the scripts define, the two options they toggle.
/// `<v1>,<v2>,<v3>,<vd>;<a1>,<a2>,<a3>,<n1>,<n2>,<n3>;<verbose><portable>` (hex values; `-` empty or
/// unset variable; `~` no such alias).
fn final_state(env: &mut VEnv) -> String {
    use yash_env::option::{Option as ShellOption, State};
    use yash_env::variable::Value;
    let vars: Vec<String> = ["v1", "v2", "v3", "vd"]
        .iter()
        .map(|n| match env.variables.get(*n).and_then(|v| v.value.clone()) {
            Some(Value::Scalar(s)) => enc_str(&s),
            Some(Value::Array(a)) => format!("[{}]", a.iter().map(|x| enc_str(x)).collect::<Vec<_>>().join("+")),
            None => "-".to_string(),
        })
        .collect();
    let aliases: Vec<String> = ["a1", "a2", "a3", "n1", "n2", "n3"]
        .iter()
        .map(|n| match env.aliases.iter().find(|e| e.0.name == *n) {
            Some(e) => enc_str(&e.0.replacement),
            None => "~".to_string(),
        })
        .collect();
    let on = |o: ShellOption| (env.options.get(o) == State::On) as u8;
    format!("{};{};{}{}", vars.join(","), aliases.join(","), on(ShellOption::Verbose), on(ShellOption::Portable))
}

/// built-ins named like the aliases the scripts define: `a1` behaves as `probe @a1`
fn alias_name_main(name: &'static str) -> impl Fn(&mut VEnv, Vec<Field>) -> BuiltinFuture<'_> {
    move |env, _args| {
        let st = env.exit_status.0;
        let off = stdin_offset(env);
        let mode = stdin_mode(env);
        PROBES.set(PROBES.get() + 1);
        if PROBES.get() > 5000 {
            panic!("runaway: more than 5000 probe calls in one run");
        }
        Box::pin(async move {
            let text = format!("{}:{}@{}{}\n", st, enc_str(&format!("@{name}")), off, mode);
            match env.system.write_all(Fd::STDOUT, text.as_bytes()).await {
                Ok(_) => ExitStatus(st).into(),
                Err(_) => ExitStatus::FAILURE.into(),
            }
        })
    }
}
fn a1_main(env: &mut VEnv, args: Vec<Field>) -> BuiltinFuture<'_> {
    alias_name_main("a1")(env, args)
}
fn a2_main(env: &mut VEnv, args: Vec<Field>) -> BuiltinFuture<'_> {
    alias_name_main("a2")(env, args)
}
fn a3_main(env: &mut VEnv, args: Vec<Field>) -> BuiltinFuture<'_> {
    alias_name_main("a3")(env, args)
}

/// Does `code` parse to its end with the parser configured from the environment as it is *now*
/// (options → mode, aliases)?  Nothing is executed.  `Some(n)`: yes, `n` command lines (possibly empty
/// ones); `None`: syntax error.
async fn parses(env: &mut VEnv, code: &str) -> Option<usize> {
    let mode = Mode::from(&env.options);
    let ref_env = RefCell::new(env);
    let mut lexer = Lexer::with_code(code);
    let mut count = 0;
    loop {
        if !lexer.pending() {
            lexer.flush();
        }
        lexer.set_mode(mode);
        let r = Parser::config()
            .aliases(&ref_env)
            .declaration_utilities(&ref_env)
            .input(&mut lexer)
            .command_line()
            .await;
        match r {
            // a line without commands (blank, comment) does not count as an executed command
            Ok(Some(list)) => {
                if !list.0.is_empty() {
                    count += 1
                }
            }
            Ok(None) => return Some(count),
            Err(_) => return None,
        }
    }
}

/// The `sh -c` run done piecewise: the lines are fed **one at a time through separate
/// `read_eval_loop` calls on the same environment** (a line that does not parse on its own under the
/// environment of that moment is joined with the following ones first).  Every call configures its
/// parser afresh from the environment, so a later unit necessarily sees what the earlier ones did
/// (option changes, alias definitions): whatever state the single run keeps across lines, this run
/// cannot keep it.
fn run_sequential(units: &[Vec<u8>], data: &[u8]) -> Outcome {
    let system = VirtualSystem::new();
    let state = Rc::clone(&system.state);
    let executor = yash_executor::Executor::new();
    state.borrow_mut().executor = Some(Rc::new(executor.spawner()));
    let env = Env::with_system(Rc::new(Concurrent::new(system)));
    let concurrent = Rc::clone(&env.system);
    let result: Rc<Cell<Option<i32>>> = Rc::new(Cell::new(None));
    let result2 = Rc::clone(&result);
    let state2 = Rc::clone(&state);
    // the pieces are the *lines* of the script (a piece that is not complete on its own under the
    // environment of that moment — multi-line construct, here-document, open alias, … — is joined
    // with the following lines by the dry parse below)
    let whole = String::from_utf8_lossy(&units.concat()).into_owned();
    let texts: Vec<String> = whole.split_inclusive('\n').map(|l| l.to_string()).collect();
    let data = data.to_vec();
    let main = async move {
        let mut env = env;
        let run = Run {
            work: Work {
                source: Source::String(String::new()),
                profile: InitFile::None,
                rcfile: InitFile::None,
            },
            options: vec![],
            arg0: "yash".into(),
            positional_params: vec![],
        };
        let _work = configure_environment(&mut env, run).await;
        env.builtins.extend(probe_builtins());
        STATE.with(|s| *s.borrow_mut() = Some(Rc::clone(&state2)));
        PROBES.set(0);
        env.builtins.insert("probe", Builtin::new(Type::Mandatory, probe_main));
        env.builtins.insert("closein", Builtin::new(Type::Mandatory, closein_main));
        env.builtins.insert("a1", Builtin::new(Type::Mandatory, a1_main));
        env.builtins.insert("a2", Builtin::new(Type::Mandatory, a2_main));
        env.builtins.insert("a3", Builtin::new(Type::Mandatory, a3_main));
        for (path, content) in DOT_FILES {
            yverif::shell::write_file(&state2, path, content.as_bytes());
        }
        {
            let inode = state2.borrow().file_system.get("/dev/stdin").unwrap();
            if let FileBody::Regular { content, .. } = &mut inode.borrow_mut().body {
                *content = data.clone();
            }
        }
        let mut final_result = Continue(());
        let mut i = 0;
        while i < texts.len() {
            let mut chunk = texts[i].clone();
            let mut j = i + 1;
            // a unit is fed on its own only if it is a complete piece of input: it parses, and it
            // does not end with a backslash-newline that would join it to the next line
            while j < texts.len()
                && (chunk.ends_with("\\\n") || parses(&mut env, &chunk).await.is_none())
            {
                chunk.push_str(&texts[j]);
                j += 1;
            }
            i = j;
            if parses(&mut env, &chunk).await == Some(0) {
                // nothing to run (blank and comment lines only): a read-eval loop that finds no
                // command at all resets `$?`, which the single run does not do in the middle of its input
                continue;
            }
            let ref_env = RefCell::new(&mut env);
            let mut lexer = Lexer::with_code(&chunk);
            let r = read_eval_loop(&ref_env, &mut lexer).await;
            if let Break(_) = r {
                final_result = r;
                break;
            }
        }
        env.apply_result(final_result);
        match final_result {
            Break(Divert::Abort(_)) => (),
            _ => run_exit_trap(&mut env).await,
        }
        result2.set(Some(env.exit_status.0));
    };
    let runner = async move { concurrent.run_virtual(main).await };
    // SAFETY: single-threaded, as in yverif::shell::run_with
    unsafe { executor.spawn_pinned(Box::pin(runner)) };
    let mut rounds = 0usize;
    let mut stuck = false;
    let mut status = -1;
    loop {
        executor.run_until_stalled();
        if let Some(r) = result.take() {
            status = r;
            break;
        }
        rounds += 1;
        let mut st = state.borrow_mut();
        if let Some(next) = st.scheduled_wakers.next_wake_time() {
            st.advance_time(next);
        }
        drop(st);
        if executor.wake_count() == 0 || rounds > 100_000 {
            stuck = true;
            break;
        }
    }
    STATE.with(|s| *s.borrow_mut() = None);
    Outcome {
        stdout: read_file(&state, "/dev/stdout").unwrap_or_default(),
        stderr: read_file(&state, "/dev/stderr").unwrap_or_default(),
        exit_status: status,
        stuck,
    }
}

// ---------------------------------------------------------------------------------------------
// cases

#[derive(Clone, Debug)]
struct Case {
    feed: Feed,
    feed_text: String,
    data: Vec<u8>,
    units: Vec<Vec<u8>>,
}

fn parse_feed(t: &str) -> Option<Feed> {
    match t {
        "str" => Some(Feed::Str),
        "file" => Some(Feed::File),
        "script" => Some(Feed::Script),
        _ => {
            if t == "real:nb" {
                return Some(Feed::Real(true));
            }
            if t == "real:bl" {
                return Some(Feed::Real(false));
            }
            let mut it = t.split(':');
            let nonblock = match it.next()? {
                "pipe" => false,
                "nbpipe" => true,
                _ => return None,
            };
            let pause: usize = it.next()?.parse().ok()?;
            let sizes: Option<Vec<usize>> = it.next()?.split(',').map(|x| x.parse().ok()).collect();
            let sizes = sizes?;
            if sizes.is_empty() || sizes.iter().any(|&n| n == 0) {
                return None;
            }
            Some(Feed::Pipe(sizes, pause, nonblock))
        }
    }
}

fn parse_case(line: &str) -> Option<Case> {
    let mut it = line.split(' ').filter(|t| !t.is_empty());
    let feed_text = it.next()?.to_string();
    let feed = parse_feed(&feed_text)?;
    let data = dec_bytes(it.next()?)?;
    let units: Option<Vec<Vec<u8>>> = it.map(dec_bytes).collect();
    Some(Case { feed, feed_text, data, units: units? })
}

fn case_text(feed: &str, data: &[u8], units: &[Vec<u8>]) -> String {
    let mut s = format!("{feed} {}", enc_bytes(data));
    for u in units {
        s.push(' ');
        s.push_str(&enc_bytes(u));
    }
    s
}

#[derive(Clone, Debug, PartialEq)]
struct Obs {
    items: Vec<String>,
    status: i32,
    err: bool,
    echo: Vec<u8>,
    stuck: bool,
    /// the state left behind (`final_state`); `None` for runs that do not go through `run_feed`
    fin: Option<String>,
}

fn is_probe_line(l: &str) -> bool {
    let l = l.strip_suffix("!nb").unwrap_or(l);
    let Some((st, rest)) = l.split_once(':') else { return false };
    let Some((fields, off)) = rest.rsplit_once('@') else { return false };
    !st.is_empty()
        && st.bytes().all(|b| b.is_ascii_digit())
        && !off.is_empty()
        && off.bytes().all(|b| b.is_ascii_digit())
        && fields.bytes().all(|b| b.is_ascii_hexdigit() || b == b',' || b == b'-')
}

fn observe(script: &[u8], data: &[u8], feed: &Feed) -> Obs {
    let mut o = obs_of(run_feed(script, data, feed));
    o.fin = FINAL.with(|f| f.borrow_mut().take());
    o
}

// ---------------------------------------------------------------------------------------------
// the real binary

/// (state, parent pid) of every process, from /proc
fn proc_table() -> Vec<(i32, char, i32)> {
    let mut v = vec![];
    let Ok(rd) = std::fs::read_dir("/proc") else { return v };
    for e in rd.flatten() {
        let name = e.file_name();
        let Some(pid) = name.to_str().and_then(|n| n.parse::<i32>().ok()) else { continue };
        let Ok(stat) = std::fs::read_to_string(format!("/proc/{pid}/stat")) else { continue };
        // pid (comm) state ppid …; comm may contain anything, so cut at the last `)`
        let Some(close) = stat.rfind(')') else { continue };
        let mut it = stat[close + 1..].split_whitespace();
        let (Some(state), Some(ppid)) = (it.next(), it.next()) else { continue };
        v.push((pid, state.chars().next().unwrap_or('?'), ppid.parse().unwrap_or(0)));
    }
    v
}

/// every process of the tree rooted at `root` is asleep (waiting for input, for a child, …) or a zombie
fn tree_is_blocked(root: i32) -> bool {
    let table = proc_table();
    let mut tree = vec![root];
    let mut i = 0;
    while i < tree.len() {
        let p = tree[i];
        for (pid, _, ppid) in &table {
            if *ppid == p && !tree.contains(pid) {
                tree.push(*pid);
            }
        }
        i += 1;
    }
    tree.iter().all(|p| match table.iter().find(|(pid, _, _)| pid == p) {
        Some((_, st, _)) => *st == 'S' || *st == 'Z' || *st == 'X',
        None => true,
    })
}

/// Runs this executable as the shell (`yash_cli::main` on the real system) with the script arriving
/// through a real pipe, inherited with O_NONBLOCK or not.  The units are written one at a time; the
/// next one is written only when the pipe has been drained and every process of the shell's tree is
/// blocked — so a reader of the shared standard input is really waiting in a gap between two chunks,
/// without any dependence on timing.
fn run_real(units: &[Vec<u8>], nonblock: bool) -> Outcome {
    use std::io::{Read as _, Write as _};
    use std::os::fd::{AsRawFd as _, FromRawFd as _, OwnedFd};
    use std::os::unix::process::CommandExt as _;
    let mut fds = [0i32; 2];
    // SAFETY: plain system calls on fresh descriptors
    unsafe {
        if libc::pipe2(fds.as_mut_ptr(), libc::O_CLOEXEC) != 0 {
            panic!("pipe2");
        }
        if nonblock {
            libc::fcntl(fds[0], libc::F_SETFL, libc::O_NONBLOCK);
        }
    }
    // SAFETY: the descriptors were just created and are owned here
    let (reader, writer) = unsafe { (OwnedFd::from_raw_fd(fds[0]), OwnedFd::from_raw_fd(fds[1])) };
    let exe = std::env::current_exe().expect("current_exe");
    let mut child = std::process::Command::new(exe)
        .arg0("yash")
        .env("C18_AS_YASH", "1")
        .env("LANG", "C")
        .stdin(std::process::Stdio::from(reader))
        .stdout(std::process::Stdio::piped())
        .stderr(std::process::Stdio::piped())
        .spawn()
        .expect("spawn");
    let pid = child.id() as i32;
    let mut writer = std::fs::File::from(writer);
    let mut stuck = false;
    for (i, u) in units.iter().enumerate() {
        if writer.write_all(u).is_err() {
            break;
        }
        if i + 1 == units.len() {
            break;
        }
        // wait for the gap: nothing left in the pipe and nobody running, three times in a row
        let t0 = Instant::now();
        let mut calm = 0;
        while calm < 3 {
            let mut pending: libc::c_int = 0;
            // SAFETY: FIONREAD on an open pipe descriptor
            unsafe { libc::ioctl(writer.as_raw_fd(), libc::FIONREAD, &mut pending) };
            if pending == 0 && tree_is_blocked(pid) {
                calm += 1;
            } else {
                calm = 0;
            }
            std::thread::sleep(Duration::from_millis(2));
            if t0.elapsed() > Duration::from_secs(10) {
                stuck = true;
                break;
            }
        }
    }
    drop(writer);
    let mut stdout = vec![];
    let mut stderr = vec![];
    child.stdout.take().unwrap().read_to_end(&mut stdout).ok();
    child.stderr.take().unwrap().read_to_end(&mut stderr).ok();
    let status = child.wait().map(|s| s.code().unwrap_or(-1)).unwrap_or(-1);
    Outcome { stdout, stderr, exit_status: status, stuck }
}

fn obs_of(o: Outcome) -> Obs {
    let out = o.stdout.clone();
    let mut items = vec![];
    let mut lines: Vec<&[u8]> = out.split(|&b| b == b'\n').collect();
    if lines.last().map(|l| l.is_empty()).unwrap_or(false) {
        lines.pop();
    }
    for l in lines {
        let text = String::from_utf8_lossy(l);
        if is_probe_line(&text) {
            items.push(text.into_owned());
        } else {
            items.push(format!("L{}", enc_bytes(l)));
        }
    }
    // standard error = what `set -v` echoed, interleaved with error reports (a syntax error ends the
    // run; a command that is not found — a data line run under `sh -c` — and the two failures of
    // `read`, invalid UTF-8 and a NUL byte, do not).  A report starts at `error:` (script lines never
    // contain that text; the last echoed line may lack its newline) and continues over the
    // following lines of the forms ` --> …`, `  |`, `12 | …`, `...`, `  = note…`.
    let err_text = o.stderr.clone();
    fn report_line(l: &[u8]) -> bool {
        let t: Vec<u8> = l.iter().copied().skip_while(|&b| b == b' ').collect();
        if t.starts_with(b"-->") || t.starts_with(b"|") || t.starts_with(b"= ") || t.starts_with(b"...") || t.starts_with(b":::") {
            return true;
        }
        let digits = t.iter().take_while(|b| b.is_ascii_digit()).count();
        // (` 9 | …`, and `10| …` when the line number fills the gutter of a two-line span)
        digits > 0 && t[digits..].iter().copied().skip_while(|&b| b == b' ').next() == Some(b'|')
    }
    let mut echo = vec![];
    let mut err = false;
    let mut pos = 0;
    while pos < err_text.len() {
        if err_text[pos..].starts_with(b"error:") {
            let t = &err_text[pos..];
            if !t.starts_with(b"error: cannot execute")
                && !t.starts_with(b"error: error reading from the standard input")
                && !t.starts_with(b"error: input contains a nul byte")
                && !t.starts_with(b"error: cannot open the file")
                && !t.starts_with(b"error: cannot read commands")
            {
                err = true;
            }
            // skip the rest of this line and the continuation lines of the report
            loop {
                match err_text[pos..].iter().position(|&b| b == b'\n') {
                    Some(p) => pos += p + 1,
                    None => {
                        pos = err_text.len();
                        break;
                    }
                }
                let end = err_text[pos..]
                    .iter()
                    .position(|&b| b == b'\n')
                    .map(|p| pos + p)
                    .unwrap_or(err_text.len());
                if pos >= err_text.len() || !report_line(&err_text[pos..end]) {
                    break;
                }
            }
        } else {
            echo.push(err_text[pos]);
            pos += 1;
        }
    }
    Obs { items, status: o.exit_status, err, echo, stuck: o.stuck, fin: None }
}

fn show(o: &Obs) -> String {
    if o.stuck {
        return "TIMEOUT".into();
    }
    format!(
        "trace={} status={} err={} echo={} fin={}",
        o.items.join("|"),
        o.status,
        o.err as u8,
        enc_bytes(&o.echo),
        o.fin.as_deref().unwrap_or("-")
    )
}

fn strip_offset(item: &str) -> String {
    if is_probe_line(item) {
        item.rsplit_once('@').unwrap().0.to_string()
    } else {
        item.to_string()
    }
}

/// does anything in the script read standard input (other than a here-document)?
fn reads_stdin(script: &[u8]) -> bool {
    let text = String::from_utf8_lossy(script);
    for line in text.lines() {
        let toks: Vec<&str> = line
            .split(|c: char| c == ' ' || c == ';' || c == '(' || c == ')' || c == '\t')
            .filter(|t| !t.is_empty())
            .collect();
        for (i, t) in toks.iter().enumerate() {
            if t.contains("read") || *t == "/d1" || *t == "closein" {
                return true;
            }
            if *t == "cat" && !toks.get(i + 1).map(|n| n.starts_with("<<")).unwrap_or(false) {
                return true;
            }
        }
    }
    false
}

fn line_start(script: &[u8], o: usize) -> bool {
    o == 0 || o == script.len() || (o <= script.len() && script[o - 1] == b'\n')
}

fn offset_of(item: &str) -> Option<usize> {
    let item = item.strip_suffix("!nb").unwrap_or(item);
    if is_probe_line(item) { item.rsplit_once('@')?.1.parse().ok() } else { None }
}

fn is_prefix<T: PartialEq>(a: &[T], b: &[T]) -> bool {
    a.len() <= b.len() && a == &b[..a.len()]
}

/// The logical line of `read` stated on the bytes alone (POSIX: an unescaped backslash preserves the
/// next character, backslash-newline is a line continuation; none of this with `-r`): the shortest
/// prefix that ends with a newline preceded by an **even** number of backslashes.  Length of that
/// prefix, newline included.
fn logical_len(input: &[u8], raw: bool) -> Option<usize> {
    for i in 0..input.len() {
        if input[i] == b'\n' {
            let k = input[..i].iter().rev().take_while(|&&b| b == b'\\').count();
            if raw || k % 2 == 0 {
                return Some(i + 1);
            }
        }
    }
    None
}

/// The value `read v` assigns for the logical line `line` (final newline not included): continuations
/// removed, every other backslash dropped with the character after it kept literally, IFS white space
/// that is not backslash-quoted trimmed at both ends.
fn read_value(line: &[u8], raw: bool) -> String {
    let text = String::from_utf8_lossy(line).into_owned();
    let mut cs: Vec<(char, bool)> = vec![];
    let mut it = text.chars();
    while let Some(c) = it.next() {
        if c == '\\' && !raw {
            match it.next() {
                Some('\n') | None => {}
                Some(n) => cs.push((n, true)),
            }
        } else {
            cs.push((c, false));
        }
    }
    let ws = |p: &(char, bool)| !p.1 && (p.0 == ' ' || p.0 == '\t' || p.0 == '\n');
    while cs.last().map(ws).unwrap_or(false) {
        cs.pop();
    }
    let start = cs.iter().position(|p| !ws(p)).unwrap_or(cs.len());
    cs[start..].iter().map(|p| p.0).collect()
}

/// `read NAME` / `read -r NAME`: (raw, NAME)
fn plain_read(line: &[u8]) -> Option<(bool, String)> {
    let t = std::str::from_utf8(line).ok()?;
    let t = t.strip_prefix("read ")?;
    let (raw, name) = match t.strip_prefix("-r ") {
        Some(n) => (true, n),
        None => (false, t),
    };
    if name.is_empty() || !name.bytes().all(|b| b.is_ascii_lowercase() || b.is_ascii_digit()) {
        return None;
    }
    Some((raw, name.to_string()))
}

/// the fields of the probe lines of the trace whose first field is `marker`
fn probe_fields<'a>(obs: &'a Obs, marker: &str) -> Vec<Vec<&'a str>> {
    let m = enc_str(marker);
    let mut out = vec![];
    for it in &obs.items {
        let it = it.strip_suffix("!nb").unwrap_or(it);
        if !is_probe_line(it) {
            continue;
        }
        let fields = it.split_once(':').unwrap().1.rsplit_once('@').unwrap().0;
        let fs: Vec<&str> = fields.split(',').collect();
        if fs.first() == Some(&m.as_str()) {
            out.push(fs);
        }
    }
    out
}

/// The property evaluated on the real code for one case.
fn oracle(c: &Case, script: &[u8], obs: &Obs) -> String {
    if obs.stuck {
        return "FAIL:stuck".into();
    }
    let shared = !matches!(c.feed, Feed::Str | Feed::Script);
    // (6) standard input is in blocking mode whenever a command runs, whatever mode it was inherited in
    if obs.items.iter().any(|i| i.ends_with("!nb")) {
        return "FAIL:stdin-nonblocking-while-command-runs".into();
    }
    if let Feed::Real(nb) = c.feed {
        // the real binary: an external reader of the shared standard input must get the lines that
        // follow it whatever the inherited mode of the pipe and the timing of the chunks
        if !obs.echo.is_empty() {
            return format!("FAIL:real-run-wrote-to-stderr {}", enc_bytes(&obs.echo));
        }
        if nb {
            let other = obs_of(run_real(&c.units, false));
            if other.items != obs.items || other.status != obs.status {
                return format!("FAIL:inherited-nonblocking-mode-changes-run blocking={}", show(&other));
            }
        }
        return "ok".into();
    }
    // (1) the feed does not matter
    let reference = observe(script, &c.data, &Feed::File);
    match c.feed {
        Feed::Pipe(..) => {
            if *obs != reference {
                return format!("FAIL:chunking-changes-run file={}", show(&reference));
            }
        }
        Feed::Str => {
            // (5) later lines see what earlier lines did: the same units fed one at a time through
            // separate read-eval loops on the same environment give the same observation
            {
                let seq = obs_of(run_sequential(&c.units, &c.data));
                if seq.stuck {
                    return "FAIL:stuck-in-piecewise-run".into();
                }
                if seq.items != obs.items || seq.status != obs.status || seq.err != obs.err {
                    return format!("FAIL:later-line-did-not-see-earlier-line piecewise={}", show(&seq));
                }
            }
            if !reads_stdin(script) {
                let a: Vec<String> = obs.items.iter().map(|i| strip_offset(i)).collect();
                let b: Vec<String> = reference.items.iter().map(|i| strip_offset(i)).collect();
                if a != b || obs.status != reference.status || obs.err != reference.err {
                    return format!("FAIL:string-feed-differs file={}", show(&reference));
                }
            }
        }
        Feed::Script => {
            // a script file and the same script on standard input: same commands, same echo
            if !reads_stdin(script) {
                let a: Vec<String> = obs.items.iter().map(|i| strip_offset(i)).collect();
                let b: Vec<String> = reference.items.iter().map(|i| strip_offset(i)).collect();
                if a != b || obs.status != reference.status || obs.err != reference.err
                    || obs.echo != reference.echo
                {
                    return format!("FAIL:script-file-feed-differs file={}", show(&reference));
                }
            }
        }
        Feed::File | Feed::Real(_) => {}
    }
    // (8) standard input separate from the script (`sh -c`, `sh file`): `read [-r] v1`, then
    // `read -r v2`, then `probe BD "$v1" "$v2"`: the first `read` took exactly the first logical line
    // of the data, so the second one gets the physical line that follows it
    if matches!(c.feed, Feed::Str | Feed::Script) && c.units.len() >= 3 {
        let first = c.units[0].strip_suffix(b"\n").and_then(plain_read);
        if let Some((raw, v1)) = first {
            if v1 == "v1"
                && c.units[1] == b"read -r v2\n"
                && c.units[2].starts_with(b"probe BD \"$v1\" \"$v2\"")
                && std::str::from_utf8(&c.data).is_ok()
            {
                let n = logical_len(&c.data, raw).unwrap_or(c.data.len());
                let line1 = c.data[..n].strip_suffix(b"\n").unwrap_or(&c.data[..n]);
                let rest = &c.data[n..];
                let m = logical_len(rest, true).unwrap_or(rest.len());
                let line2 = rest[..m].strip_suffix(b"\n").unwrap_or(&rest[..m]);
                let want = vec![enc_str("BD"), enc_str(&read_value(line1, raw)), enc_str(&read_value(line2, true))];
                let got = probe_fields(obs, "BD");
                if got.len() != 1 || got[0] != want.iter().map(|x| x.as_str()).collect::<Vec<_>>() {
                    return format!("FAIL:read-took-more-or-less-than-its-logical-line want={}", want.join(","));
                }
            }
        }
    }
    // (9) the contents of a here-document or of a file a command's standard input was redirected to are
    // data of that command only: the shell never reads its commands from them (descriptor 0 refers
    // to the script again when the command is over)
    for marker in ["FROMR2"] {
        if !probe_fields(obs, marker).is_empty() {
            return format!("FAIL:redirected-input-was-read-as-commands {marker}");
        }
    }
    for it in &obs.items {
        let it = it.strip_suffix("!nb").unwrap_or(it);
        if is_probe_line(it) && it.split_once(':').unwrap().1.starts_with("4844") {
            return "FAIL:redirected-input-was-read-as-commands HD".into();
        }
    }
    // (11) a read error of the command reader (descriptor 0 closed by `closein`, script on standard
    // input): nothing after the closing command line was read, and the shell ends with status 128
    if shared && !obs.err && script.windows(7).any(|w| w == b"closein") {
        let after = enc_str("after");
        for it in &obs.items {
            let it = it.strip_suffix("!nb").unwrap_or(it);
            if !is_probe_line(it) {
                continue;
            }
            let fields = it.split_once(':').unwrap().1.rsplit_once('@').unwrap().0;
            let fs: Vec<&str> = fields.split(',').collect();
            if fs.first() == Some(&enc_str("never").as_str()) || fs.contains(&after.as_str()) {
                return "FAIL:command-read-after-read-error".into();
            }
        }
        if obs.status != 128 {
            return format!("FAIL:read-error-not-in-exit-status {}", obs.status);
        }
    }
    // a reported error (other than a command that was not found) is a syntax error: status 2 —
    // unless it was met by an `eval` inside a subshell (only the subshell ends)
    let in_subshell = script
        .split(|&b| b == b'\n')
        .any(|l| l.starts_with(b"(") && l.windows(9).any(|w| w == b"eval 'fi'"));
    if obs.err && obs.status != 2 && !in_subshell {
        return "FAIL:error-reported-without-syntax-error-status".into();
    }
    if shared {
        // (2) every offset a command sees is the start of a line (for valid UTF-8 input: `read`
        // stops in the middle of a line when it meets an invalid byte)
        let valid = std::str::from_utf8(script).is_ok()
            && !script.windows(3).any(|w| w == b"-d ");
        for it in obs.items.iter().filter(|_| valid) {
            // a probe marked `I…` runs with standard input redirected: its offset is not one of the script
            let inside = it.split_once(':').map(|x| x.1.starts_with("49")).unwrap_or(false);
            if let Some(o) = offset_of(it) {
                if !inside && !line_start(script, o) {
                    return format!("FAIL:offset-inside-line {o}");
                }
            }
        }
    }
    // (3) and (4) need the runs of the unit prefixes: file feed only (the pipe feeds are compared with
    // the file feed by (1))
    if matches!(c.feed, Feed::File) {
        // complete[k]: the first k units are a complete script of their own (no syntax error, e.g.
        // no construct left open that a later unit could close)
        let mut complete = vec![true];
        for k in 1..c.units.len() {
            let prefix: Vec<u8> = c.units[..k].concat();
            if !prefix.ends_with(b"\n") {
                complete.push(false);
                continue;
            }
            let p = observe(&prefix, &c.data, &Feed::File);
            let ok = !p.stuck && !p.err;
            complete.push(ok);
            // (4) the run of a complete unit prefix is a prefix of the run
            if ok && (!is_prefix(&p.items, &obs.items) || !is_prefix(&p.echo, &obs.echo)) {
                return format!("FAIL:later-lines-change-earlier-commands k={k} prefix={}", show(&p));
            }
        }
        // (3) `read -r v` / data / `probe R<k> "$v"` at the top level of a unit that follows a
        // complete prefix: the variable holds exactly the data line
        for (j, unit) in c.units.iter().enumerate() {
            if !complete[j] {
                continue;
            }
            let text = String::from_utf8_lossy(unit).into_owned();
            let lines: Vec<&str> = text.split('\n').collect();
            if lines.len() < 3 {
                continue;
            }
            let w = &lines[..3];
            let (Some(var), Some(p)) = (w[0].strip_prefix("read -r "), w[2].strip_prefix("probe R"))
            else {
                continue;
            };
            let Some((k, arg)) = p.split_once(' ') else { continue };
            if arg != format!("\"${var}\"") || var.contains(' ') {
                continue;
            }
            let marker = enc_str(&format!("R{k}"));
            let want = w[1].trim_matches(|c| c == ' ' || c == '\t');
            for it in &obs.items {
                if !is_probe_line(it) {
                    continue;
                }
                let fields = it.split_once(':').unwrap().1.rsplit_once('@').unwrap().0;
                let fs: Vec<&str> = fields.split(',').collect();
                if fs.len() == 2 && fs[0] == marker && fs[1] != enc_str(want) {
                    return format!("FAIL:read-got-other-line R{k}");
                }
            }
        }
        // (10) a command line `probe X<k> …` follows a command whose standard input was redirected (and
        // the contents of its here-documents): it was still there to be read and ran exactly once
        for (j, unit) in c.units.iter().enumerate() {
            if !complete[j] {
                continue;
            }
            let after_ok = if j + 1 < c.units.len() { complete[j + 1] } else { !obs.err && unit.ends_with(b"\n") };
            if !after_ok {
                continue;
            }
            let text = String::from_utf8_lossy(unit).into_owned();
            for line in text.split('\n') {
                let Some(p) = line.strip_prefix("probe X") else { continue };
                let k: String = p.chars().take_while(|c| c.is_ascii_digit()).collect();
                if k.is_empty() {
                    continue;
                }
                let got = probe_fields(obs, &format!("X{k}"));
                if got.len() != 1 {
                    return format!("FAIL:command-after-a-redirected-command-ran-{}-times X{k}", got.len());
                }
            }
        }
        // (7) `read [-r] v` / the lines of one logical line / `probe B<k> "$v"` at the top level of a
        // unit, all unit prefixes up to and including this unit being complete scripts: the command
        // line that follows the logical line was still there to be executed (what follows the
        // current command remains available), and the variable holds that logical line
        for (j, unit) in c.units.iter().enumerate() {
            if !complete[j] || std::str::from_utf8(unit).is_err() {
                continue;
            }
            let after_ok = if j + 1 < c.units.len() { complete[j + 1] } else { !obs.err && unit.ends_with(b"\n") };
            if !after_ok {
                continue;
            }
            let Some(nl) = unit.iter().position(|&b| b == b'\n') else { continue };
            let Some((raw, var)) = plain_read(&unit[..nl]) else { continue };
            let body = &unit[nl + 1..];
            let Some(n) = logical_len(body, raw) else { continue };
            let next = &body[n..];
            let next_line = &next[..next.iter().position(|&b| b == b'\n').unwrap_or(next.len())];
            let Ok(next_text) = std::str::from_utf8(next_line) else { continue };
            let Some(p) = next_text.strip_prefix("probe B") else { continue };
            let Some((k, arg)) = p.split_once(' ') else { continue };
            if arg != format!("\"${var}\"") || !k.bytes().all(|b| b.is_ascii_digit()) {
                continue;
            }
            let marker = format!("B{k}");
            let want = vec![enc_str(&marker), enc_str(&read_value(&body[..n - 1], raw))];
            let got = probe_fields(obs, &marker);
            if got.is_empty() {
                return format!("FAIL:command-after-the-data-of-read-was-not-run {marker}");
            }
            if got.iter().any(|g| *g != want.iter().map(|x| x.as_str()).collect::<Vec<_>>()) {
                return format!("FAIL:read-got-other-logical-line {marker} want={}", want[1]);
            }
        }
    }
    "ok".into()
}

/// the case being run and when it started: a watchdog thread reports a hang of the real code (a
/// loop that never yields cannot be interrupted from inside) as the observation `TIMEOUT` and ends
/// the process
static CURRENT: std::sync::Mutex<Option<(Instant, String)>> = std::sync::Mutex::new(None);

fn start_watchdog() {
    std::thread::spawn(|| {
        loop {
            std::thread::sleep(Duration::from_millis(500));
            let cur = CURRENT.lock().unwrap().clone();
            if let Some((t0, case)) = cur {
                if t0.elapsed() > Duration::from_secs(30) {
                    println!("{case}\tTIMEOUT\tFAIL:hang");
                    std::process::exit(0);
                }
            }
        }
    });
}

fn run_case(line: &str) -> (String, String) {
    let Some(c) = parse_case(line) else { return ("bad-case".into(), "-".into()) };
    *CURRENT.lock().unwrap() = Some((Instant::now(), line.to_string()));
    let script: Vec<u8> = c.units.concat();
    let c2 = c.clone();
    let s2 = script.clone();
    let mut oracle_text = String::from("-");
    let obs = guarded(|| {
        let o = match c2.feed {
            // (everything the real run writes to standard error is kept in `echo`: nothing is
            // expected there, scripts of this leg do not use `set -v`)
            Feed::Real(nb) => {
                let out = run_real(&c2.units, nb);
                let err = out.stderr.clone();
                let mut o = obs_of(out);
                o.echo = err;
                o.err = false;
                o
            }
            _ => observe(&s2, &c2.data, &c2.feed),
        };
        let shown = show(&o);
        oracle_text = guarded(|| oracle(&c2, &s2, &o));
        shown
    });
    if oracle_text.starts_with("PANIC") {
        oracle_text = format!("FAIL:{oracle_text}");
    }
    let _ = &c.feed_text;
    *CURRENT.lock().unwrap() = None;
    (obs, oracle_text)
}

// ---------------------------------------------------------------------------------------------
// generator

struct Gen {
    rng: Rng,
    marker: u32,
    rmarker: u32,
    bmarker: u32,
    xmarker: u32,
    here: u32,
    aliases: Vec<usize>,
    portable: bool,
    thorough: bool,
    /// a unit contains a line that is only a closing keyword (it could close a construct that a
    /// planted error left open)
    has_closers: bool,
}

impl Gen {
    fn m(&mut self) -> String {
        self.marker += 1;
        format!("m{}", self.marker)
    }
    fn var(&mut self) -> String {
        format!("v{}", 1 + self.rng.below(3))
    }
    fn word(&mut self) -> String {
        let pool = ["ab", "c", "x1", "foo", "b-r", "z.z", "Q", "7"];
        // words with 2-, 3- and 4-byte UTF-8 characters (a chunk boundary may fall inside them)
        let wide = ["é", "€", "あ", "😀", "a€b", "éあ", "😀x", "naïve", "€€", "あ😀é"];
        if self.rng.chance(1, 3) {
            (*self.rng.pick(&wide)).to_string()
        } else {
            (*self.rng.pick(&pool)).to_string()
        }
    }
    fn data_line(&mut self) -> String {
        let n = 1 + self.rng.below(3);
        let ws: Vec<String> = (0..n).map(|_| self.word()).collect();
        ws.join(" ")
    }
    /// a simple command that does not touch standard input
    fn simple(&mut self) -> String {
        match self.rng.below(12) {
            0 | 1 | 2 => format!("probe {}", self.m()),
            3 => format!("probe {} $?", self.m()),
            4 => format!("st {}", self.rng.below(4)),
            5 => ":".into(),
            6 => format!("probe {} \"${}\"", self.m(), self.var()),
            7 => format!("probe {} ${}", self.m(), self.var()),
            8 => format!("a{}", 1 + self.rng.below(3)),
            9 => format!("probe {} '{} {}'", self.m(), self.word(), self.word()),
            10 => format!("probe {} \\{} \"{}\"", self.m(), self.word(), self.word()),
            _ => format!("probe {} {}", self.m(), self.word()),
        }
    }
    fn sep(&mut self) -> &'static str {
        *self.rng.pick(&["; ", ";", " ; ", " && ", " || ", "; "])
    }
    fn line(&mut self) -> String {
        let n = 1 + self.rng.below(3);
        let mut s = String::new();
        if self.rng.chance(1, 8) {
            s.push_str(*self.rng.pick(&[" ", "\t", "  "]));
        }
        for i in 0..n {
            if i > 0 {
                s.push_str(self.sep());
            }
            s.push_str(&self.simple());
        }
        match self.rng.below(10) {
            0 => s.push_str(" # trailing; comment"),
            3 => s.push_str(" # é € あ 😀 fi"),
            1 => s.push(';'),
            2 => s.push(' '),
            _ => {}
        }
        s
    }
    /// a multi-line compound command built from lines without standard-input readers
    fn compound(&mut self, depth: u32) -> String {
        let body = |g: &mut Gen| -> String {
            let n = 1 + g.rng.below(2);
            let mut v = vec![];
            for _ in 0..n {
                if depth < 2 && g.rng.chance(1, 4) {
                    v.push(g.compound(depth + 1));
                } else {
                    v.push(g.line());
                }
            }
            v.join("\n")
        };
        match self.rng.below(9) {
            0 | 1 => {
                let c = format!("st {}", self.rng.below(2));
                let mut s = format!("if {c}; then\n{}\n", body(self));
                if self.rng.chance(1, 3) {
                    s.push_str(&format!("elif st {}\nthen {}\n", self.rng.below(2), self.line()));
                }
                if self.rng.chance(1, 2) {
                    s.push_str(&format!("else\n{}\n", body(self)));
                }
                s.push_str("fi");
                s
            }
            2 => format!("while st 1\ndo\n{}\ndone", body(self)),
            3 => format!("until st 0; do {}; done", self.simple()),
            4 => format!("{{\n{}\n}}", body(self)),
            5 => format!("(\n{}\n)", body(self)),
            6 => format!("( {}\n{} )", self.line(), self.simple()),
            7 => format!("st {} &&\n{}", self.rng.below(2), self.simple()),
            _ => format!("if st 0\nthen {}; fi; {}", self.simple(), self.simple()),
        }
    }
    fn heredoc(&mut self) -> String {
        self.here += 1;
        let d = format!("E{}", self.here);
        let n = self.rng.below(3);
        let mut body = String::new();
        for _ in 0..n {
            body.push_str(&format!("h {}\n", self.data_line()));
        }
        match self.rng.below(6) {
            0 => format!("cat <<{d}; probe {}\n{body}{d}", self.m()),
            1 => {
                self.here += 1;
                let d2 = format!("E{}", self.here);
                format!("cat <<{d}; cat << {d2}\n{body}{d}\nh second\n{d2}")
            }
            2 => format!("if st 0; then\ncat <<{d}\n{body}{d}\nprobe {}\nfi", self.m()),
            3 => {
                // a here-document and then a `read` on the same line: the data follows the contents
                let v = self.var();
                let dl = self.data_line();
                format!("cat <<{d}; read {v}\n{body}{d}\n{dl}\nprobe {} \"${v}\"", self.m())
            }
            4 => format!("{{ cat <<{d}\n{body}{d}\n}}"),
            _ => format!("cat <<{d}\n{body}{d}"),
        }
    }
    fn read_unit(&mut self) -> String {
        let v = self.var();
        match self.rng.below(11) {
            0 | 1 | 2 => {
                self.rmarker += 1;
                let pad = *self.rng.pick(&["", "", " ", "  "]);
                format!("read -r {v}\n{pad}{}\nprobe R{} \"${v}\"", self.data_line(), self.rmarker)
            }
            3 => {
                let w = self.var();
                format!("read {v} {w}\n{}\nprobe {} \"${v}\" \"${w}\"", self.data_line(), self.m())
            }
            4 => format!("read {v}; probe {} ${v}\n{}", self.m(), self.data_line()),
            5 => format!(
                "read {v}\n{}\\\n{}\nprobe {} \"${v}\"",
                self.word(),
                self.data_line(),
                self.m()
            ),
            6 => format!(
                "read -r {v}\n{}\\\nprobe {} \"${v}\"",
                self.word(),
                self.m()
            ),
            7 => format!(
                "if st 0; then\nread {v}\nprobe {}\nfi\n{}\nprobe {} \"${v}\"",
                self.m(),
                self.data_line(),
                self.m()
            ),
            8 => format!(
                "(read {v}; probe {} \"${v}\")\n{}\nprobe {} \"[${v}]\"",
                self.m(),
                self.data_line(),
                self.m()
            ),
            9 => {
                let w = self.var();
                format!(
                    "{{ read {v}; read {w}; }}\n{}\n{}\nprobe {} \"${v}\" \"${w}\"",
                    self.data_line(),
                    self.data_line(),
                    self.m()
                )
            }
            _ => format!("st 1 && read {v}\nprobe {} not-data", self.m()),
        }
    }
    /// a fresh here-document: (delimiter, contents) — the contents are lines that would fail loudly
    /// (`h: not found`) or be seen (`probe HD…`) if a shell came to read them as commands
    fn hd(&mut self) -> (String, String) {
        self.here += 1;
        let d = format!("E{}", self.here);
        let n = 1 + self.rng.below(2);
        let mut body = String::new();
        for i in 0..n {
            if i == 0 && self.rng.chance(1, 3) {
                body.push_str(&format!("probe HD{} leaked\n", self.here));
            } else {
                let dl = self.data_line();
                body.push_str(&format!("h{} {dl}\n", self.here));
            }
        }
        (d, body)
    }
    /// a probe that runs while standard input is redirected (marker `I…`: its offset is an offset
    /// into the here-document or file, not into the script)
    fn im(&mut self) -> String {
        self.marker += 1;
        format!("I{}", self.marker)
    }
    /// commands whose standard input is redirected — once, twice or three times on the same command
    /// (here-documents, `<file`, mixed), on simple and on compound commands, nested — followed by a
    /// command line (marker `X…`) that must still be read from the script and run, sometimes by a
    /// `read` that must get the line of the script / of the data that follows
    fn redir_unit(&mut self) -> String {
        let v = self.var();
        let w = self.var();
        let (d1, b1) = self.hd();
        let (d2, b2) = self.hd();
        self.xmarker += 1;
        let x = format!("X{}", self.xmarker);
        let tail = match self.rng.below(4) {
            0 => format!("read {w}\n{}\nprobe {x} \"${w}\" \"${v}\"", self.data_line()),
            1 => format!("probe {x} $?; read {w}; probe {} \"${w}\"\n{}", self.m(), self.data_line()),
            _ => format!("probe {x} \"${v}\" $?"),
        };
        let i1 = self.im();
        let i2 = self.im();
        let head = match self.rng.below(18) {
            // a syntax error met by `eval` inside a twice-redirected group inside a subshell: the
            // subshell ends there (its redirections are undone on the way out), the shell goes on
            16 => format!("( {{ read {v}; eval 'fi'; probe {i1}; }} <<{d1} <<{d2}; probe {i2} )\n{b1}{d1}\n{b2}{d2}"),
            // a redirection error on a special built-in ends the subshell
            17 => format!("( : </nonexistent <<{d1}; probe {i1} )\n{b1}{d1}"),
            0 => format!("cat <<{d1} <<{d2}\n{b1}{d1}\n{b2}{d2}"),
            1 => format!("read {v} <<{d1} <<{d2}\n{b1}{d1}\n{b2}{d2}"),
            2 => format!("{{ read {v}; probe {i1} \"${v}\"; read {w}; probe {i2} \"${w}\" $?; }} <<{d1} <<{d2}\n{b1}{d1}\n{b2}{d2}"),
            3 => "cat </r1 </r2".to_string(),
            4 => format!("read {v} </r2 <<{d1}\n{b1}{d1}"),
            5 => format!("read -r {v} <<{d1} </r1\n{b1}{d1}"),
            6 => format!("while read {v}; do probe {i1} \"${v}\"; done <<{d1}\n{b1}{d1}"),
            7 => format!("if read {v}; then probe {i1} \"${v}\"; cat; fi </r1"),
            8 => format!("( read {v}; probe {i1} \"${v}\" ) <<{d1} <<{d2}\n{b1}{d1}\n{b2}{d2}"),
            9 => format!("{{ cat <<{d1}; read {v}; probe {i1} \"${v}\"; }} <<{d2}\n{b1}{d1}\n{b2}{d2}"),
            10 => format!("cat <<{d1} </r1 <<{d2}\n{b1}{d1}\n{b2}{d2}"),
            11 => format!("{{ read {v} </r1; read {w}; probe {i1} \"${v}\" \"${w}\"; }} <<{d1} <<{d2}\n{b1}{d1}\n{b2}{d2}"),
            12 => format!("cat </nonexistent; probe {} $?\n{{ probe {i1}; }} <<{d1} </nonexistent\n{b1}{d1}", self.m()),
            13 => format!("{{ {{ read {v}; probe {i1} \"${v}\"; }} <<{d1}; read {w}; probe {i2} \"${w}\"; }} <<{d2}\n{b1}{d1}\n{b2}{d2}"),
            14 => format!("until read {v} <<{d1} <<{d2}\n{b1}{d1}\n{b2}{d2}\ndo probe {i1}; done"),
            _ => format!("<<{d1} <<{d2} read {v} {w}\n{b1}{d1}\n{b2}{d2}"),
        };
        format!("{head}\n{tail}")
    }
    /// asynchronous commands that read standard input (`cat &`, `read v &`, `{ cat; read v; } &`): at the top
    /// level with `monitor` off, and inside `( … )` with `set -m` on (job control is not in effect in a
    /// subshell) — their standard input is /dev/null, so the following lines of the script are still
    /// there: the next command line (`probe X…`) runs exactly once, a following `read` gets its line
    fn async_unit(&mut self) -> String {
        let v = self.var();
        let w = self.var();
        self.xmarker += 1;
        let x = format!("X{}", self.xmarker);
        let reader = match self.rng.below(5) {
            0 | 1 => "cat".to_string(),
            2 => format!("read {v}"),
            3 => format!("{{ cat; read {v}; }}"),
            _ => format!("read -r {v} {w}"),
        };
        let tail = match self.rng.below(3) {
            0 => format!("read {w}\n{}\nprobe {x} \"${w}\" \"${v}\"", self.data_line()),
            _ => format!("probe {x} $? \"${v}\""),
        };
        match self.rng.below(6) {
            0 => format!("{reader} &\n{tail}"),
            1 => format!("{reader} & st 3\n{tail}"),
            2 => format!("set -m\n( {reader} & )\n{tail}\nset +m"),
            3 => format!("set -m; ( {reader} & st 4 ); probe {} $?\n{tail}\nset +m", self.m()),
            4 => format!("set -m\n( ( {reader} & ) )\n{tail}\nset +m; {reader} &\nprobe {}", self.m()),
            _ => format!("( {reader} & )\n{tail}"),
        }
    }
    fn alias_unit(&mut self) -> String {
        let k = 1 + self.rng.below(3);
        match self.rng.below(7) {
            0 | 1 => {
                if !self.aliases.contains(&k) {
                    self.aliases.push(k);
                }
                format!("alias a{k}='probe A{}'", self.marker + 100)
            }
            2 => {
                if !self.aliases.contains(&k) {
                    self.aliases.push(k);
                }
                // defined and used on the same line: not yet an alias when the line was parsed
                format!("alias a{k}='st {}'; a{k}; probe {} $?", 3 + self.rng.below(3), self.m())
            }
            3 => {
                if let Some(pos) = self.aliases.iter().position(|&x| x == k) {
                    self.aliases.remove(pos);
                    format!("unalias a{k}")
                } else {
                    format!("a{k}")
                }
            }
            4 => {
                if !self.aliases.contains(&k) {
                    self.aliases.push(k);
                }
                format!("if st 0; then\nalias a{k}='probe inner'\na{k}\nfi\na{k}")
            }
            5 => {
                // an alias whose value is another alias name
                let j = 1 + (k % 3);
                if !self.aliases.contains(&k) {
                    self.aliases.push(k);
                }
                format!("alias a{k}='a{j} '\na{k}")
            }
            _ => format!("a{k}; a{}", 1 + self.rng.below(3)),
        }
    }
    fn option_unit(&mut self) -> String {
        match self.rng.below(8) {
            0 | 1 => "set -v".into(),
            2 => "set +v".into(),
            3 => "set -o verbose".into(),
            4 => {
                self.portable = true;
                format!("set -o portable; ((st 0); probe {})", self.m())
            }
            5 => {
                self.portable = false;
                "set +o portable".into()
            }
            6 => {
                if self.portable && !self.rng.chance(1, 4) {
                    format!("( (st 0); probe {})", self.m())
                } else {
                    format!("((st 0); probe {})", self.m())
                }
            }
            _ => format!("set -v; probe {}", self.m()),
        }
    }
    /// a construct whose acceptance depends on the `portable` option (the parser's `Mode`); `safe` =
    /// the spelling that is accepted either way
    fn dependent(&mut self, safe: bool) -> String {
        let m = self.m();
        match (self.rng.below(7), safe) {
            (0, true) => format!("( (st 0); probe {m})"),
            (0, false) => format!("((st 0); probe {m})"),
            (1, true) => format!("probe {m} arr"),
            (1, false) => format!("arr=(1 2); probe {m} $?"),
            (2, true) => format!("! (st 1); probe {m} $?"),
            (2, false) => format!("!(st 1); probe {m} $?"),
            (3, true) => format!("f_x() {{ probe {m}; }}; probe {m} $?"),
            (3, false) => format!("f.x() {{ probe {m}; }}; probe {m} $?"),
            (4, true) => format!(": x; probe {m} $?"),
            (4, false) => format!("foo: x; probe {m} $?"),
            (5, true) => format!("{{ (st 0)\n}}; probe {m}"),
            (5, false) => format!("{{ (st 0) }}; probe {m} $?"),
            (_, true) => format!("! st 0; probe {m} $?"),
            (_, false) => format!("arr=(a\nb c\n); probe {m}"),
        }
    }
    /// the `portable` option toggled mid-input (also inside a multi-line compound command) and
    /// constructs that depend on it
    fn mode_unit(&mut self) -> String {
        match self.rng.below(9) {
            0 | 1 => {
                self.portable = true;
                "set -o portable".into()
            }
            2 => {
                self.portable = false;
                "set +o portable".into()
            }
            3 => {
                // the dependent construct belongs to the command line that sets the option: it was
                // parsed before the option changed
                let on = self.portable;
                self.portable = true;
                let d = self.dependent(on);
                format!("if st 0; then\nset -o portable\n{d}\nfi")
            }
            4 => {
                let was = self.portable;
                self.portable = false;
                let d1 = self.dependent(was);
                let d2 = self.dependent(false);
                format!("{{ set +o portable\n{d1}\n}}\n{d2}")
            }
            5 => {
                self.portable = true;
                let d = self.dependent(true);
                format!("while st 1; do :; done; set -o portable\n{d}")
            }
            _ => {
                // mostly the spelling that the current mode accepts; sometimes (portable on) the
                // other one: a syntax error that only exists because an earlier line set the option
                let safe = self.portable && !self.rng.chance(1, 6);
                self.dependent(safe)
            }
        }
    }
    /// commands read by a nested read-eval loop: `eval` (a string, line by line) and `.` (a file)
    fn nested_unit(&mut self) -> String {
        let v = self.var();
        let k = 1 + self.rng.below(3);
        match self.rng.below(12) {
            0 => format!("eval 'probe {}; probe {}'", self.m(), self.m()),
            1 => {
                if !self.aliases.contains(&k) {
                    self.aliases.push(k);
                }
                // the alias defined on the first line of the string is an alias on its second line
                format!("eval 'alias a{k}=\"probe E{}\"; a{k}\na{k}'", self.marker)
            }
            2 => format!("eval 'read {v}'\n{}\nprobe {} \"${v}\"", self.data_line(), self.m()),
            3 => {
                if self.rng.chance(1, 2) {
                    format!("st 3; eval ''; probe {} $?", self.m())
                } else {
                    format!("st 3; eval; probe {} $?", self.m())
                }
            }
            4 => format!("eval probe {} \"{} {}\"", self.m(), self.word(), self.word()),
            5 => format!("eval 'if st 0; then\nprobe {}\nfi\n'; probe {} $?", self.m(), self.m()),
            6 => format!(". /d1\n{}\nprobe {}", self.data_line(), self.m()),
            7 => {
                self.portable = true;
                if !self.aliases.contains(&3) {
                    self.aliases.push(3);
                }
                ". /d2\na3".into()
            }
            8 => ". /d4".into(),
            9 => format!("st 2; . /d5; probe {} $?", self.m()),
            10 => match self.rng.below(5) {
                0 => format!(". /d6; probe {} $?", self.m()),
                1 => format!("st 3; . /d7; probe {} $?", self.m()),
                2 => format!("st 3; . /d8; probe {} $?", self.m()),
                3 => format!("st 3; eval ' \n# c\n\n'; probe {} $?", self.m()),
                _ => format!("st 3; eval '# c\nst 5\n\n# d'; probe {} $?\nst 3; eval '\n' '#x'; probe {} $?", self.m(), self.m()),
            },
            _ => format!("( eval 'probe {}\nst 4' ); probe {} $?", self.m(), self.m()),
        }
    }
    /// `read -d`, backslashes that are not line continuations
    fn read_opt_unit(&mut self) -> String {
        let v = self.var();
        let w = self.var();
        match self.rng.below(7) {
            0 => format!("read -d : {v}\n{}:probe {} \"${v}\"", self.data_line(), self.m()),
            1 => format!("read -r -d , {v}\n{}\\\n{},probe {} \"${v}\"", self.word(), self.word(), self.m()),
            2 => format!("read -d '' {v}\n{}\u{E000}probe {} \"${v}\"", self.data_line(), self.m()),
            3 => format!("read -d x {v}\nl1 \n l2xprobe {} \"${v}\"", self.m()),
            4 => format!("read {v} {w}\na\\ b c\\\\d\\e\nprobe {} \"${v}\" \"${w}\"", self.m()),
            5 => format!("read -r {v} {w}\na\\ b c\nprobe {} \"${v}\" \"${w}\"", self.m()),
            _ => format!("read -d : {v} {w}\n{} \\: {}\\\n{}:probe {} \"${v}\" \"${w}\"", self.word(), self.word(), self.word(), self.m()),
        }
    }
    /// the text of a data line (no newline): words, sometimes with backslashes in the middle
    fn bs_text(&mut self) -> String {
        let mut s = self.data_line();
        match self.rng.below(6) {
            0 => s.push_str("\\\\z"),
            1 => s.push_str("\\ y"),
            2 => s = format!("q\\\\\\\\{s}"),
            _ => {}
        }
        s
    }
    /// one logical line for `read`: physical lines of which every one but the last ends in an odd
    /// number (1, 3) of backslashes and the last in an even number (0, 2, 4); for `read -r` a single
    /// line ending in 0..4 backslashes
    fn bs_logical(&mut self, raw: bool) -> String {
        let bs = |k: usize| "\\".repeat(k);
        if raw {
            let k = self.rng.below(5);
            return format!("{}{}", self.bs_text(), bs(k));
        }
        let mut s = String::new();
        let conts = *self.rng.pick(&[0, 0, 0, 1, 1, 2]);
        for _ in 0..conts {
            let k = *self.rng.pick(&[1, 1, 3]);
            let t = if self.rng.chance(1, 5) { String::new() } else { self.bs_text() };
            s.push_str(&format!("{t}{}\n", bs(k)));
        }
        let k = *self.rng.pick(&[0, 2, 2, 2, 4]);
        let t = if self.rng.chance(1, 8) { String::new() } else { self.bs_text() };
        s.push_str(&format!("{t}{}", bs(k)));
        s
    }
    /// `read` (with and without `-r`) whose data lines end in 0..4 backslashes, in the placements of
    /// `read_unit`; the line after the data is a command that must still be there
    fn read_bs_unit(&mut self) -> String {
        let v = self.var();
        let raw = self.rng.chance(1, 3);
        let r = if raw { "-r " } else { "" };
        let d = self.bs_logical(raw);
        match self.rng.below(10) {
            0..=3 => {
                self.bmarker += 1;
                format!("read {r}{v}\n{d}\nprobe B{} \"${v}\"", self.bmarker)
            }
            4 => format!("read {r}{v}; probe {} \"${v}\"\n{d}\nprobe {}", self.m(), self.m()),
            5 => {
                let w = self.var();
                let raw2 = self.rng.chance(1, 2);
                let r2 = if raw2 { "-r " } else { "" };
                let d2 = self.bs_logical(raw2);
                format!("{{ read {r}{v}; read {r2}{w}; }}\n{d}\n{d2}\nprobe {} \"${v}\" \"${w}\"", self.m())
            }
            6 => format!("if st 0; then\nread {r}{v}\nprobe {}\nfi\n{d}\nprobe {} \"${v}\"", self.m(), self.m()),
            7 => format!("(read {r}{v}; probe {} \"${v}\")\n{d}\nprobe {}", self.m(), self.m()),
            8 => format!("eval 'read {r}{v}'\n{d}\nprobe {} \"${v}\"", self.m()),
            _ => {
                let w = self.var();
                format!("read {r}{v} {w}\n{d}\nprobe {} \"${v}\" \"${w}\"", self.m())
            }
        }
    }
    /// aliases replaced by nothing (empty, blank-only, comment-only value) as the last word of a line
    /// after `;`, `&&`, `||`, alone, or inside a compound list — and a next line that depends on the
    /// first one having run (data for `read`, an alias just defined, a syntax error)
    fn nop_unit(&mut self) -> String {
        let (name, def) = *self.rng.pick(&[
            ("n1", "alias n1="),
            ("n2", "alias n2=' '"),
            ("n3", "alias n3='# note'"),
            ("n1", "alias n1=''"),
        ]);
        let v = self.var();
        let k = 1 + self.rng.below(3);
        let body = match self.rng.below(12) {
            0 | 1 => format!("read {v}; {name}\n{}\nprobe {} \"${v}\"", self.data_line(), self.m()),
            2 | 3 => {
                if !self.aliases.contains(&k) {
                    self.aliases.push(k);
                }
                format!("alias a{k}='probe N{}'; {name}\na{k}", self.marker)
            }
            4 => format!("probe {}; {name}\n)\nprobe {}", self.m(), self.m()),
            5 => format!("st 0 && {name}\nprobe {} $?\nprobe {}", self.m(), self.m()),
            6 => format!("st 1 || {name}\n\n# c\nprobe {} $?", self.m()),
            7 => format!("{name}\nprobe {}; {name} # c\nprobe {}", self.m(), self.m()),
            8 => format!("if st 0; then\nread {v}; {name}\nfi\n{}\nprobe {} \"${v}\"", self.data_line(), self.m()),
            9 => format!("eval 'read {v}; {name}'\n{}\nprobe {} \"${v}\"", self.data_line(), self.m()),
            10 => format!("set -o portable; {name}\n((st 0); probe {})", self.m()),
            _ => format!("probe {};{name}\n{name};probe {}\n{name}; {name}\nprobe {}", self.m(), self.m(), self.m()),
        };
        if body.starts_with("set -o portable") {
            self.portable = true;
        }
        format!("{def}\n{body}")
    }
    fn quoted_unit(&mut self) -> String {
        match self.rng.below(5) {
            0 => format!("probe {} \"{}\n{}\"", self.m(), self.word(), self.word()),
            1 => format!("probe {} '{}\n\n{}' {}", self.m(), self.word(), self.word(), self.word()),
            2 => format!("probe {} {}\\\n{} {}", self.m(), self.word(), self.word(), self.word()),
            3 => format!("probe {} \"{}\\\n{}\"", self.m(), self.word(), self.word()),
            _ => format!("probe \\\n{}", self.m()),
        }
    }
    /// NUL and invalid UTF-8 bytes: in data lines (`read` fails with status 3; after an invalid
    /// byte the rest of the line stays on the descriptor and is run as a command), in quoted words,
    /// comments and here-documents (lossy decoding by the shell's reader)
    fn raw_unit(&mut self) -> String {
        let bad = *self.rng.pick(&['\u{E001}', '\u{E002}', '\u{E003}', '\u{E004}', '\u{E005}']);
        let v = self.var();
        match self.rng.below(8) {
            0 => format!("read {v}\na\u{E000}b {}\nprobe {} \"${v}\" $?", self.word(), self.m()),
            1 => format!("read -r {v}\n{}{bad}, {}\nprobe {} \"${v}\" $?", self.word(), self.word(), self.m()),
            2 => format!("read {v}\n{}{bad}\nprobe {} \"${v}\" $?", self.word(), self.m()),
            3 => format!("probe {} 'a{bad}b' x{bad}", self.m()),
            4 => format!("probe {} \"{}{bad}\" # {bad} \u{E000} fi", self.m(), self.word()),
            5 => {
                self.here += 1;
                let h = self.here;
                let w = self.word();
                format!("cat <<E{h}\nh {bad}x\u{E000}y {w}\nE{h}")
            }
            6 => format!("probe {} a\u{E000}b '\u{E000}'", self.m()),
            _ => format!("read {v}; probe {} $?\n{bad}{bad}", self.m()),
        }
    }
    /// an alias whose replacement leaves the command unfinished: the parser pulls the following lines
    fn alias_open_unit(&mut self) -> String {
        self.has_closers = true;
        let k = 1 + self.rng.below(3);
        if !self.aliases.contains(&k) {
            self.aliases.push(k);
        }
        match self.rng.below(5) {
            0 => format!("alias a{k}='if st 0; then'\na{k}\nprobe {}\nfi", self.m()),
            1 => format!("alias a{k}='probe {} &&'\na{k}\nprobe {}", self.m(), self.m()),
            2 => format!("alias a{k}='{{'\na{k} probe {}\n}}", self.m()),
            3 => format!("alias a{k}='st 1 ||'\na{k}\n\n# c\nprobe {}", self.m()),
            _ => format!("alias a{k}='while st 1; do'\na{k} probe {}; done; a{k}\nprobe {}\ndone", self.m(), self.m()),
        }
    }
    fn blank_unit(&mut self) -> String {
        (*self.rng.pick(&["", "# a comment line", "   ", "\t# fi", "# あ€ 😀é done"])).to_string()
    }
    fn terminal_unit(&mut self) -> String {
        let n = self.rng.below(4);
        let mut rest = String::new();
        for _ in 0..n {
            rest.push_str(&format!("\n{}", self.data_line()));
        }
        let v = self.var();
        match self.rng.below(7) {
            // descriptor 0 closed: the rest of that line still runs; with the script on standard input
            // the next read of the shell fails (read error, exit status 128) and nothing more is read;
            // with `-c` / a script file the following commands run as before
            5 => format!("probe {}; closein; probe {} $?\nprobe {} after\nst 3", self.m(), self.m(), self.m()),
            6 => format!("if st 0; then\nclosein\nprobe {}\nfi; probe {}\nprobe {} after", self.m(), self.m(), self.m()),
            4 => {
                let mut rest = String::new();
                for _ in 0..1 + self.rng.below(3) {
                    rest.push_str(&format!("\n{}", self.bs_logical(false)));
                }
                format!("while read {v}; do probe {} \"${v}\"; done{rest}", self.m())
            }
            0 => format!("while read {v}; do probe {} ${v}; done{rest}", self.m()),
            1 => format!("while read -r {v}\ndo\nprobe {} \"${v}\"\ndone{rest}\nprobe tail", self.m()),
            2 => format!("cat{rest}\nprobe {} swallowed", self.m()),
            _ => format!(
                "read {v}; read {v}; probe {} \"${v}\"\n{}\n{}",
                self.m(),
                self.data_line(),
                self.data_line()
            ),
        }
    }
    fn error_unit(&mut self) -> String {
        let m = self.m();
        let pool: Vec<String> = vec![
            "fi".into(),
            "done".into(),
            ")".into(),
            "}".into(),
            "then".into(),
            format!("probe {m}; ;"),
            format!("probe {m} )"),
            format!("&& probe {m}"),
            ";;".into(),
            format!("probe {m} ;;"),
            format!("if st 0; then\nprobe {m}"),
            format!("probe {m} 'unclosed"),
            format!("( probe {m}"),
            format!("{{ probe {m}"),
            "if st 0; fi".into(),
            "while st 1; done".into(),
            "if; then :; fi".into(),
            "( )".into(),
            format!("if st 0; then\nprobe {m}\n)\nfi"),
            format!("while st 1; do\nprobe {m}\nfi\ndone"),
            format!("probe {m}; if st 0; then probe {m}; else fi"),
            format!("cat <<EOT\nh never closed\nprobe {m}"),
            format!("probe {m} \"open\nstill open"),
            format!("{{ probe {m}\n)"),
            format!("probe {m} | |"),
            format!("probe {m} \"a\\\nb"),
            format!("probe {m} 'x\n\n"),
            format!("cat <<EOT; probe {m} 'q\nh\nEOT\nstill quoted"),
            format!("a1 'open"),
            format!("eval 'probe {m}\nfi\nprobe {m}'"),
            format!("eval \"probe {m} '\""),
            ". /d3".into(),
            format!("probe {m} (st 0)"),
            "esac".into(),
            format!("{{ probe {m}; }} {{"),
            format!("{{ st 0; }} probe {m}"),
            format!("( st 0 ) if st 0; then probe {m}; fi"),
            format!("{{ st 0; }} ! st 1"),
            format!("{{ st 0; }} do probe {m}"),
            format!("{{ st 0; }} in"),
            format!("{{ eval 'fi'; probe {m}; }} <<EOT <<EOU\nh\nEOT\nprobe {m} leaked\nEOU"),
            format!("cat <<EOT <\nh\nEOT"),
            "]]".into(),
            format!("probe {m}; [[ x ]]"),
        ];
        pool[self.rng.below(pool.len())].clone()
    }
    fn unit(&mut self) -> String {
        match self.rng.below(26) {
            24 | 25 => self.async_unit(),
            22 | 23 => self.redir_unit(),
            20 | 21 => self.read_bs_unit(),
            0..=3 => self.line(),
            4..=7 => self.read_unit(),
            8 | 9 => self.alias_unit(),
            10 | 11 => self.option_unit(),
            12..=14 => self.compound(0),
            15 | 16 => self.heredoc(),
            17 => self.quoted_unit(),
            18 => self.blank_unit(),
            _ => match self.rng.below(9) {
                0 => self.raw_unit(),
                1 => self.alias_open_unit(),
                2 | 3 => self.mode_unit(),
                4 | 5 => self.nested_unit(),
                6 => self.read_opt_unit(),
                7 => self.nop_unit(),
                _ => self.line(),
            },
        }
    }
    fn script(&mut self) -> Vec<Vec<u8>> {
        let n = 2 + self.rng.below(if self.thorough { 8 } else { 6 });
        let mut units: Vec<String> = (0..n).map(|_| self.unit()).collect();
        if self.rng.chance(2, 5) {
            // a syntax error planted at a later line
            let at = 1 + self.rng.below(units.len());
            let mut e = self.error_unit();
            // an error that leaves `if`/`{` open would be closed by a later lone `fi`/`}` line
            while self.has_closers && (e.starts_with("if st 0; then\nprobe") || e.starts_with("{ probe")) {
                e = self.error_unit();
            }
            units.insert(at.min(units.len()), e);
        } else if self.rng.chance(1, 4) {
            let t = self.terminal_unit();
            units.push(t);
        }
        let last = units.len() - 1;
        let drop_nl = self.rng.chance(1, 6);
        units
            .iter()
            .enumerate()
            .map(|(i, u)| {
                let mut b = raw_bytes(u);
                if !(i == last && drop_nl && !u.is_empty()) {
                    b.push(b'\n');
                }
                b
            })
            .collect()
    }
}

/// private-use placeholders in generated text stand for bytes that are not valid UTF-8 text:
/// U+E000 = NUL, U+E001 = E2 82 (a truncated three-byte sequence), U+E002 = FF, U+E003 = C3 (a lead
/// byte alone), U+E004 = 80 (a continuation byte alone), U+E005 = F0 9F 98 (truncated four-byte)
fn raw_bytes(text: &str) -> Vec<u8> {
    let mut out = vec![];
    for ch in text.chars() {
        match ch {
            '\u{E000}' => out.push(0),
            '\u{E001}' => out.extend_from_slice(&[0xE2, 0x82]),
            '\u{E002}' => out.push(0xFF),
            '\u{E003}' => out.push(0xC3),
            '\u{E004}' => out.push(0x80),
            '\u{E005}' => out.extend_from_slice(&[0xF0, 0x9F, 0x98]),
            c => {
                let mut buf = [0u8; 4];
                out.extend_from_slice(c.encode_utf8(&mut buf).as_bytes());
            }
        }
    }
    out
}

fn feeds_for(rng: &mut Rng, len: usize, thorough: bool) -> Vec<String> {
    let mut v = vec!["file".to_string(), "str".to_string(), "script".to_string()];
    v.push(format!("pipe:0:{}", len.max(1)));
    v.push("pipe:1:1".to_string());
    let a = 1 + rng.below(9);
    let b = 1 + rng.below(17);
    v.push(format!("pipe:{}:{a},{b}", rng.below(3)));
    // the same pipe inherited with O_NONBLOCK set
    v.push(format!("nbpipe:1:{},{}", 1 + rng.below(9), 1 + rng.below(30)));
    if thorough {
        let c = 1 + rng.below(40);
        v.push(format!("pipe:1:{c}"));
        v.push(format!("pipe:2:{},{},{}", 1 + rng.below(5), 1 + rng.below(5), 1 + rng.below(30)));
    }
    v
}

/// every way of cutting `n` bytes into chunks is a subset of the n-1 inner positions; for small
/// scripts the thorough tier enumerates them all (as explicit size lists)
fn all_chunkings(n: usize) -> Vec<Vec<usize>> {
    let mut out = vec![];
    if n == 0 || n > 13 {
        return out;
    }
    for mask in 0u32..(1 << (n - 1)) {
        let mut sizes = vec![];
        let mut cur = 1;
        for i in 0..n - 1 {
            if mask & (1 << i) != 0 {
                sizes.push(cur);
                cur = 1;
            } else {
                cur += 1;
            }
        }
        sizes.push(cur);
        out.push(sizes);
    }
    out
}

fn main() {
    if std::env::var_os("C18_AS_YASH").is_some() {
        // the real-binary leg: this process *is* the shell (same sources as the library under test)
        // SAFETY: single-threaded at this point
        unsafe { std::env::remove_var("C18_AS_YASH") };
        yash_cli::main();
    }
    quiet_panics();
    let args: Vec<String> = std::env::args().collect();
    if args.get(1).map(|s| s.as_str()) == Some("--run") {
        let feed = parse_feed(&args[2]).expect("feed");
        let script: Vec<u8> = match args[3].strip_prefix("hex:") {
            Some(h) => dec_bytes(h).expect("hex"),
            None => args[3].clone().into_bytes(),
        };
        let data = args.get(4).cloned().unwrap_or_default();
        let o = run_feed(&script, data.as_bytes(), &feed);
        println!(
            "--stdout\n{}--stderr\n{}--exit {} stuck {}",
            o.stdout_str(),
            o.stderr_str(),
            o.exit_status,
            o.stuck
        );
        return;
    }
    let o = Opts::from_args();
    start_watchdog();
    if o.extra.first().map(|s| s.as_str()) == Some("--show") {
        let (fixed, _) = o.fixed_cases();
        for c in fixed {
            if let Some(c) = parse_case(&c) {
                println!("--- {} data={:?}", c.feed_text, String::from_utf8_lossy(&c.data));
                for u in &c.units {
                    print!("{}", String::from_utf8_lossy(u));
                    println!("~");
                }
            }
        }
        return;
    }
    let (fixed, only) = o.fixed_cases();
    for c in &fixed {
        let (obs, orc) = run_case(c);
        emit(c, &obs, &orc);
    }
    if only {
        return;
    }
    let mut index = 0usize;
    let mut emit_case = |case: String| {
        let mine = index % o.shard.1 == o.shard.0;
        index += 1;
        if mine {
            let (obs, orc) = run_case(&case);
            emit(&case, &obs, &orc);
        }
    };
    let data = b"D1\nD2 x\nD3\n".to_vec();
    // small scripts under every chunking (thorough) / a sample of them (quick)
    let small: [&str; 8] = [
        "read v1\nab\nprobe $v1\n",
        "probe a\nfi\n",
        "set -v\n: 'a\nb'\n",
        "cat <<E\nx\nE\n",
        "if :\nthen :\nfi\n",
        "read v1\na\\\nb\n",
        "a1 \\\n\nalias \\\n",
        ": \"\n\";:\n",
    ];
    for s in small {
        let b = s.as_bytes();
        let all = all_chunkings(b.len().min(if o.thorough() { 13 } else { 7 }));
        let step = if o.thorough() { 1 } else { 5 };
        for (i, sizes) in all.iter().enumerate() {
            if i % step != 0 {
                continue;
            }
            // the listed sizes cover a prefix; the remainder arrives as one last chunk
            let covered: usize = sizes.iter().sum();
            let mut sz: Vec<String> = sizes.iter().map(|n| n.to_string()).collect();
            if covered < b.len() {
                sz.push((b.len() - covered).to_string());
            }
            // pad the cyclic list so that it is used at most once
            let feed = format!("pipe:{}:{}", i % 2, sz.join(","));
            emit_case(case_text(&feed, &data, &[b.to_vec()]));
        }
    }
    // UTF-8: small scripts whose data lines (read by the `read` built-in), comments and quoted words
    // (read by the shell's own reader) contain 2-, 3- and 4-byte characters.  Thorough: every
    // chunking of the short ones; both tiers: a chunk boundary at every single byte position and at
    // every pair of adjacent positions (a one-byte chunk anywhere), always with a pause so that the
    // reader really sees the short chunk.
    let utf_small: [&str; 5] = [
        "read v\n€\n",
        "read v\n😀\n",
        ": 'あ'\n",
        "read v\né\n#€\n",
        ":;read v\nあ\n",
    ];
    for s in utf_small {
        let b = s.as_bytes();
        if o.thorough() {
            for sizes in all_chunkings(b.len()) {
                let sz: Vec<String> = sizes.iter().map(|n| n.to_string()).collect();
                emit_case(case_text(&format!("pipe:1:{}", sz.join(",")), &data, &[b.to_vec()]));
            }
        }
    }
    let utf_scripts: [&[&str]; 4] = [
        &["read -r v1\né€あ😀\nprobe R1 \"$v1\"\n", "probe m1 'あ😀' # é€\n"],
        &["read v1 v2\n😀x あ é\n", "probe m1 \"$v1\" \"$v2\"\n", "# €\nprobe m2 \"é\n€\"\n"],
        &["while read v1; do probe m1 $v1; done\n€\n😀😀\nあ\\\né\n"],
        &["cat <<E1; read v2\nh あ€\nE1\n😀 é\n", "probe m1 \"$v2\"\n", "fi\n"],
    ];
    // thin branches fed with a boundary at every byte position: here-documents split across reads,
    // line continuation at a chunk boundary, an alias whose replacement consumes the next line, end of
    // input inside a quote, NUL and invalid UTF-8 bytes in data and in script text
    let edge_scripts: [&[&str]; 32] = [
        // asynchronous readers: their standard input is /dev/null (unless job control is in effect for
        // them), the lines that follow stay on the shell's input
        &["set -m\n", "probe m1\n", "( cat & )\n", "probe X1 $?\n", "read v1\nline é\nprobe X2 \"$v1\"\n"],
        &["cat &\n", "probe X1 $?\n", "read v1 & st 3\nprobe X2 \"$v1\" $?\n"],
        &["set -m; ( { cat; read v1; } & st 4 ); probe m1 $?\n", "read v2\nnext\nprobe X1 \"$v2\"\n", "set +m\n"],
        // lines without commands at the start, in the middle and at the end of the input: `$?` at end of
        // input is that of the last line that held a command, or 0 if none did
        &["\n# c\n   \n", "st 3\n", "\n\t# é\n", "   "],
        &["# only\n", "\n", "  # comments"],
        &["st 4\n", "# c\n\n", "st 5; . /d7\n", "\n# end\n"],
        &["st 3; . /d8; probe m1 $?\n", "st 3; eval ' \n#c\n'; probe m2 $?\n", "st 6\n\n"],
        &["\n\n", "st 2; eval '\n# x\nst 7\n\n'\n", "# last"],
        // a read error of the command reader (descriptor 0 closed): earlier lines and the rest of the
        // closing line have run, nothing after it is read, exit status 128
        &["probe m1\n", "closein; probe m2 $?\n", "probe never é\n", "fi\n"],
        &["set -v\n", "{ closein\nprobe m1\n}\n", "probe never\n"],
        // a redirection error on a special built-in: the shell ends, nothing more is read
        &["probe m1\n", "set -v </nonexistent\n", "probe never\n"],
        &["{ : <<A </nonexistent; probe I1; } <<B\nh\nA\nprobe HD9 leaked\nB\n", "probe never\n"],
        &["( eval 'fi' <<A <<B; probe I1 ) <<C\nh1\nA\nh2\nB\nh3\nC\nread v1\nnext\n", "probe X9 \"$v1\" $?\n"],
        // standard input redirected twice on one command: afterwards descriptor 0 is the script again
        &["cat <<A <<B\nprobe HD1 leaked\nA\nb1\nB\n", "probe X1 $?\n"],
        &["{ read v1; probe I1 \"$v1\"; } <<A <<B\nh a\nA\nh é b\nB\n", "read v2\nnext line\nprobe X2 \"$v1\" \"$v2\"\n"],
        &["cat </r1 </r2\n", "probe X3 $?\n"],
        &["while read v1; do probe I2 \"$v1\"; done <<A </r1\nh\nA\n", "probe X4\n"],
        &["read v1 </r2 <<A; read v2 <<B </r1\nh1\nA\nh2\nB\nprobe X5 \"$v1\" \"$v2\"\n", "cat </nonexistent <<C\nh3\nC\nprobe X6 $?\n"],
        // a backslash followed by the end of the input stays in the line as a lone quoting character:
        // not IFS white space, so the last variable keeps the blank before it (seen in `fin=`)
        &["read v1 v2\nx y \\"],
        &["read v1\n \\"],
        &["read v1 v2 v3\na  b\\ c \\\\ d \\"],
        &["cat <<E1; cat <<E2\nh1 é\nE1\nE2x\nE2\n", "probe m1\n"],
        &["probe m1 a\\\nb \"c\\\nd\"\n", "read v1\nx\\\ny\n", "probe m2 $v1\n"],
        &["alias a1='probe m1 &&'\n", "a1\nprobe m2\n", "alias a2='if st 0; then'\n", "a2\nprobe m3\nfi\n"],
        &["probe m1\n", "probe m2 'open\nstill"],
        &["read v1\na\u{E000}b\n", "probe m1 \"$v1\" $?\n", "read v2\nx\u{E001}y, z\n", "probe m2 \"$v2\" $?\n"],
        &["probe m1 'a\u{E001}b' \u{E002}\u{E000} # \u{E005}\n", "cat <<E\n\u{E003}\u{E004}\nE\n"],
        &["if st 0; then\ncat <<E\nh\nE\nread v1\nfi\nd1 \\\nd2\n", "probe m1 \"$v1\""],
        &["alias a1='st 0 &&'\n", "a1"],
        &["read v1\nx\u{E001}"],
        &["read v1\nab\\"],
        &["read -d : v1\na\nb:probe m1 \"$v1\"\n", ". /d1\ndot data\n", "eval 'read v2\nprobe m2 $v2'\nx y\n"],
    ];
    for units in utf_scripts.iter().chain(edge_scripts.iter()) {
        let us: Vec<Vec<u8>> = units.iter().map(|u| raw_bytes(u)).collect();
        let len: usize = us.iter().map(|u| u.len()).sum();
        emit_case(case_text("file", &data, &us));
        emit_case(case_text("pipe:1:1", &data, &us));
        for i in 1..len {
            // two chunks: boundary after byte i
            emit_case(case_text(&format!("pipe:1:{i},{}", len - i), &data, &us));
            // three chunks: a one-byte chunk at position i
            if i + 1 < len {
                emit_case(case_text(&format!("pipe:1:{i},1,{}", len - i - 1), &data, &us));
            }
        }
    }
    // data lines of `read` ending in 0..4 backslashes, with and without `-r`, under every feed kind and
    // with a chunk boundary at every byte position; continuation chains; several readers on one
    // descriptor; a `while read` loop
    let mut bs_scripts: Vec<Vec<String>> = vec![];
    for k in 0..=4usize {
        for r in ["", "-r "] {
            bs_scripts.push(vec![
                format!("read {r}v1\nab{}\nprobe B1 \"$v1\"\n", "\\".repeat(k)),
                "probe m2\n".to_string(),
            ]);
        }
    }
    bs_scripts.push(vec![
        "read v1\na\\\nb é\\\\\\\nc\\\\\nprobe B1 \"$v1\"\n".to_string(),
        "probe m2 $?\n".to_string(),
    ]);
    bs_scripts.push(vec![
        "{ read v1; read -r v2; read v3; }\nx\\\\\ny\\\\\n\\\\\nprobe m1 \"$v1\" \"$v2\" \"$v3\"\n".to_string(),
        "a1\n".to_string(),
    ]);
    bs_scripts.push(vec![
        "while read v1; do probe m1 \"$v1\"; done\na\\\\\nb\\\nc\nd\\\\\\\\\n€\\\\".to_string(),
    ]);
    for units in &bs_scripts {
        let us: Vec<Vec<u8>> = units.iter().map(|u| raw_bytes(u)).collect();
        let len: usize = us.iter().map(|u| u.len()).sum();
        for feed in ["file", "str", "script", "pipe:1:1", "nbpipe:1:3,5"] {
            emit_case(case_text(feed, &data, &us));
        }
        emit_case(case_text(&format!("pipe:0:{len}"), &data, &us));
        for i in 1..len {
            emit_case(case_text(&format!("pipe:1:{i},{}", len - i), &data, &us));
        }
    }
    // the same patterns on a standard input that is not the script (`sh -c`, `sh file`): the next
    // `read` must get the line after the first logical line
    for k in 0..=4usize {
        for r in ["", "-r "] {
            let d = format!("p q{}\nsecond\\\\\nthird\n", "\\".repeat(k));
            let us: Vec<Vec<u8>> = vec![
                format!("read {r}v1\n").into_bytes(),
                b"read -r v2\n".to_vec(),
                b"probe BD \"$v1\" \"$v2\"\n".to_vec(),
                b"read v3; probe m3 \"$v3\" $?\n".to_vec(),
            ];
            emit_case(case_text("str", d.as_bytes(), &us));
            emit_case(case_text("script", d.as_bytes(), &us));
        }
    }
    // the real binary with an external `cat` reading the shared standard input, the script arriving in
    // chunks with a gap, the pipe inherited blocking and non-blocking
    let real_scripts: [&[&str]; 5] = [
        &["cat\n", "echo d1\n", "echo d2 x\n"],
        &["echo a\n", "cat\n", "echo x\n"],
        &["read v\n", "data 1\n", "echo got $v\n", "cat\n", "echo tail\n"],
        &["alias e='echo A'\n", "e 1\n", "cat\n", "e 2\n"],
        &["(cat)\n", "echo in sub\n", "echo more\n"],
    ];
    for units in real_scripts {
        let us: Vec<Vec<u8>> = units.iter().map(|u| u.as_bytes().to_vec()).collect();
        emit_case(case_text("real:bl", &data, &us));
        emit_case(case_text("real:nb", &data, &us));
    }
    let n = if o.thorough() { 40_000 } else { 1_500 };
    let mut rng = Rng::new(o.seed ^ 0xC18);
    for _ in 0..n {
        let s = rng.next();
        let mut g = Gen {
            rng: Rng::new(s),
            marker: 0,
            rmarker: 0,
            bmarker: 0,
            xmarker: 0,
            here: 0,
            aliases: vec![],
            portable: false,
            thorough: o.thorough(),
            has_closers: false,
        };
        let units = g.script();
        let len: usize = units.iter().map(|u| u.len()).sum();
        for feed in feeds_for(&mut g.rng, len, o.thorough()) {
            emit_case(case_text(&feed, &data, &units));
        }
    }
}
