//! C14 — data through pipes and command substitutions arrives complete, once and in order.
//!
//! Three kinds of cases (the model driver is /verif/lean/YashModel/Pipe/Main.lean):
//!
//! * `op;op;…`     operation sequence on one FIFO of the real `VirtualSystem`, through its system
//!                 calls (`open`, `close`, `read`, `write`, `fcntl(O_NONBLOCK)`, `select`).  A call
//!                 that would block is reported as `EAGAIN` (non-blocking descriptor) or `pend`
//!                 (blocking descriptor, future polled once).  Observation after every operation:
//!                 result, buffered length + checksum, reader/writer counts.
//! * `xfer k=v …`  `Concurrent::write_all` ∥ `Concurrent::read`/`read_all` of a payload through one
//!                 pipe, the two tasks driven by a tiny executor that picks the next runnable task
//!                 from the seed and calls `select` (`peek`) when nothing is runnable.
//!                 Observation: length + checksum received, how both sides ended.
//! * `sh k=v …`    shell-level data flow on `yverif::shell`: producer (file, built-in, variable,
//!                 doubled variable, here-document), pipeline stages, nested `$( )`,
//!                 here-documents; observation = length + checksum + last bytes at the consumer
//!                 (standard output, or the value of a variable assigned from `$( )`).
//!
//! A run that stalls is the observation `TIMEOUT`.  Oracle: the property statement evaluated in
//! Rust (received = payload, after trimming for `$( )`; stream/atomicity laws for op sequences).

use std::cell::{Cell, RefCell};
use std::collections::{BTreeMap, VecDeque};
use std::future::Future;
use std::pin::Pin;
use std::rc::Rc;
use std::sync::Arc;
use std::sync::atomic::{AtomicBool, Ordering};
use std::task::{Context, Poll, Wake, Waker};
use std::time::Duration;

use futures_util::FutureExt as _;
use yash_env::builtin::{Builtin, Type};
use yash_env::io::Fd;
use yash_env::semantics::{ExitStatus, Field};
use yash_env::system::concurrency::{ReadAll as _, Select as _, Sleep as _, WriteAll as _};
use yash_env::system::r#virtual::fd_set::FdSet;
use yash_env::system::r#virtual::{FileBody, Inode, PIPE_BUF, PIPE_SIZE, SystemState, VirtualSystem};
use yash_env::system::{
    Close as _, Concurrent, Errno, Fcntl as _, FdSet as _, GetPid as _, Mode, OfdAccess, Open as _, OpenFlag,
    Pipe as _, Read as _, Select as _, Write as _,
};
use yash_env::waker::WakerSet;
use yverif::proto::{Opts, emit, guarded, quiet_panics};
use yverif::rng::Rng;
use yverif::shell::{self, BuiltinFuture, Config, VEnv};

// ------------------------------------------------------------------------------------------
// shared text helpers (mirrored in Main.lean)

fn hash_bytes<'a, I: IntoIterator<Item = &'a u8>>(bs: I) -> u64 {
    bs.into_iter()
        .fold(7u64, |h, b| (h * 31 + *b as u64 + 1) % 1_000_003)
}

fn op_data(i: usize, n: usize) -> Vec<u8> {
    (0..n).map(|j| ((i * 7 + j * 13 + 1) % 251) as u8).collect()
}

fn alpha(base: usize, i: usize, m: usize) -> u8 {
    (base + (i * m + i / 26) % 26) as u8
}

fn payload(n: usize, pat: usize, per: usize, nl: usize) -> Vec<u8> {
    (0..n)
        .map(|i| {
            if n <= i + nl {
                10
            } else {
                match pat {
                    1 => {
                        if i % 7 == 3 {
                            10
                        } else {
                            alpha(97, i, 7)
                        }
                    }
                    2 => {
                        if i % 61 == 0 {
                            10
                        } else {
                            alpha(65, i, 11)
                        }
                    }
                    3 => ((i * 37 + 13) % 256) as u8,
                    4 => alpha(97, i % per.max(1), 7),
                    // bytes that are not UTF-8 (0xFF) and NUL bytes
                    6 => {
                        if i % 17 == 5 {
                            0xFF
                        } else if i % 23 == 11 {
                            0
                        } else {
                            alpha(97, i, 7)
                        }
                    }
                    // blanks inside and directly before the trailing newlines
                    5 => {
                        if n == i + nl + 1 || i % 5 == 2 {
                            32
                        } else if i % 11 == 7 {
                            9
                        } else if i % 13 == 5 {
                            10
                        } else {
                            alpha(97, i, 7)
                        }
                    }
                    // wave 3: valid UTF-8 that is not ASCII — groups of three bytes: the 3-byte character
                    // U+6771, every tenth group a newline followed by the 2-byte character U+00E9; what does not
                    // fill a group at the end of the body is ASCII
                    7 => {
                        let body = n - nl;
                        if i >= body - body % 3 {
                            122
                        } else if (i / 3) % 10 == 9 {
                            [10u8, 0xC3, 0xA9][i % 3]
                        } else {
                            [0xE6u8, 0x9D, 0xB1][i % 3]
                        }
                    }
                    // third pass: ill-formed UTF-8 of every kind, every 31 bytes (the sequences straddle the PIPE_BUF /
                    // PIPE_SIZE boundaries): lone continuation, truncated 3- and 4-byte sequences, an overlong form, a
                    // surrogate, a byte that cannot occur, and a well-formed 3-byte character
                    8 => match i % 31 {
                        5 => 0x80,
                        9 => 0xE6,
                        10 => 0x9D,
                        15 => 0xC0,
                        16 => 0xAF,
                        20 => 0xED,
                        21 => 0xA0,
                        22 => 0x80,
                        25 => 0xF5,
                        27 => 0xF0,
                        28 => 0x9F,
                        29 => 0x98,
                        0 if i > 0 => 0xE6,
                        1 if i > 1 => 0x9D,
                        2 if i > 2 => 0xB1,
                        _ => alpha(97, i, 7),
                    },
                    _ => alpha(97, i, 7),
                }
            }
        })
        .collect()
}

fn kv<'a>(ws: &[&'a str], k: &str) -> Option<&'a str> {
    ws.iter()
        .find_map(|w| w.strip_prefix(k).and_then(|r| r.strip_prefix('=')))
}

fn kv_n(ws: &[&str], k: &str) -> usize {
    kv(ws, k).and_then(|v| v.parse().ok()).unwrap_or(0)
}

fn errno_name(e: Errno) -> String {
    if e == Errno::EBADF {
        "EBADF".into()
    } else if e == Errno::EAGAIN {
        "EAGAIN".into()
    } else if e == Errno::EPIPE {
        "EPIPE".into()
    } else if e == Errno::ENXIO {
        "ENXIO".into()
    } else {
        format!("E({e:?})")
    }
}

/// `_POSIX_PIPE_BUF`: POSIX guarantees atomic pipe writes of at least this many bytes, whatever the
/// implementation's own PIPE_BUF is (the oracle does not take the code's constant on trust).
const POSIX_PIPE_BUF: usize = 512;

// ------------------------------------------------------------------------------------------
// (i) operation sequences on the real FIFO

/// a `select` call (no timeout) on one slot that returned `Pending` and is kept alive
struct Parked {
    fut: Pin<Box<dyn Future<Output = (Result<(), Errno>, bool, bool)>>>,
    flag: Arc<Flag>,
    slot: usize,
    r: bool,
    w: bool,
}

struct OpWorld {
    parked: Vec<Option<Parked>>,
    system: VirtualSystem,
    inode: Rc<RefCell<Inode>>,
    slots: Vec<Option<(Fd, bool, bool, bool)>>, // fd, readable, writable, nonblocking
    accepted: Vec<u8>,
    delivered: Vec<u8>,
    fail: Option<String>,
}

impl OpWorld {
    fn new() -> OpWorld {
        let system = VirtualSystem::new();
        let inode = Rc::new(RefCell::new(Inode {
            body: FileBody::Fifo {
                content: VecDeque::new(),
                readers: 0,
                writers: 0,
                pending_open_wakers: WakerSet::new(),
                pending_read_wakers: WakerSet::new(),
                pending_write_wakers: WakerSet::new(),
            },
            permissions: Mode::default(),
        }));
        system
            .state
            .borrow_mut()
            .file_system
            .save("/p", Rc::clone(&inode))
            .unwrap();
        OpWorld {
            parked: vec![],
            system,
            inode,
            slots: vec![],
            accepted: vec![],
            delivered: vec![],
            fail: None,
        }
    }

    /// (content, readers, writers)
    fn view(&self) -> (Vec<u8>, usize, usize) {
        match &self.inode.borrow().body {
            FileBody::Fifo {
                content,
                readers,
                writers,
                ..
            } => (content.iter().copied().collect(), *readers, *writers),
            _ => (vec![], 0, 0),
        }
    }

    fn ofd(&self, fd: Fd) -> Option<Rc<RefCell<yash_env::system::r#virtual::OpenFileDescription>>> {
        let pid = self.system.getpid();
        let state = self.system.state.borrow();
        let body = state.processes.get(&pid)?.fds().get(&fd)?;
        Some(Rc::clone(&body.open_file_description))
    }

    /// ids of the parked `select` calls whose waker has fired
    fn woken(&self) -> Vec<usize> {
        self.parked
            .iter()
            .enumerate()
            .filter(|(_, p)| p.as_ref().is_some_and(|p| p.flag.0.load(Ordering::SeqCst)))
            .map(|(j, _)| j)
            .collect()
    }

    /// the wake-up half of the property, directly on the real pipe: a parked `select` whose waker has not
    /// fired waits for a descriptor that is really not ready
    fn lost_wakeup(&self) -> bool {
        let (content, readers, writers) = self.view();
        self.parked.iter().flatten().any(|p| {
            if p.flag.0.load(Ordering::SeqCst) {
                return false;
            }
            let Some((_, readable, writable, _)) = self.slot(p.slot) else {
                return false;
            };
            let ready_r = !readable || writers == 0 || !content.is_empty();
            let ready_w = !writable || readers == 0 || PIPE_SIZE - content.len().min(PIPE_SIZE) >= PIPE_BUF;
            (p.r && ready_r) || (p.w && ready_w)
        })
    }

    fn poll_parked(&mut self, j: usize, k: usize) -> String {
        let p = self.parked[j].as_mut().unwrap();
        p.flag.0.store(false, Ordering::SeqCst);
        let waker = Waker::from(Arc::clone(&p.flag));
        let mut cx = Context::from_waker(&waker);
        match p.fut.as_mut().poll(&mut cx) {
            Poll::Pending => format!("parked {j}"),
            Poll::Ready((res, rr, rw)) => {
                self.parked[j] = None;
                match res {
                    Ok(()) => format!(
                        "sel R={} W={}",
                        if rr { k.to_string() } else { "-".into() },
                        if rw { k.to_string() } else { "-".into() }
                    ),
                    Err(e) => format!("sel {}", errno_name(e)),
                }
            }
        }
    }

    fn slot(&self, k: usize) -> Option<(Fd, bool, bool, bool)> {
        self.slots.get(k).copied().flatten()
    }

    fn flag(&mut self, i: usize, what: &str) {
        if self.fail.is_none() {
            self.fail = Some(format!("FAIL:{what}@{i}"));
        }
    }

    /// Runs one operation, returns its result text.
    fn step(&mut self, i: usize, op: &str) -> Option<String> {
        let w: Vec<&str> = op.split_whitespace().collect();
        let (before, readers_before, _) = self.view();
        let res = match w.as_slice() {
            ["or"] | ["ow"] | ["orw"] | ["owa"] => {
                let (access, r, wr) = match w[0] {
                    "or" => (OfdAccess::ReadOnly, true, false),
                    "ow" | "owa" => (OfdAccess::WriteOnly, false, true),
                    _ => (OfdAccess::ReadWrite, true, true),
                };
                let flags = if w[0] == "owa" {
                    OpenFlag::NonBlock | OpenFlag::Append
                } else {
                    OpenFlag::NonBlock.into()
                };
                match self.system.open(c"/p", access, flags, Mode::empty()).now_or_never()
                {
                    Some(Ok(fd)) => {
                        self.slots.push(Some((fd, r, wr, true)));
                        format!("fd{}", self.slots.len() - 1)
                    }
                    Some(Err(e)) => {
                        if !(e == Errno::ENXIO && readers_before == 0) {
                            self.flag(i, "open-error");
                        }
                        errno_name(e)
                    }
                    None => "pend".into(),
                }
            }
            ["nb", k, b] => {
                let k: usize = k.parse().ok()?;
                let b = *b != "0";
                match self.slot(k) {
                    None => "nofd".into(),
                    Some((fd, r, wr, _)) => {
                        self.system.get_and_set_nonblocking(fd, b).ok();
                        self.slots[k] = Some((fd, r, wr, b));
                        "ok".into()
                    }
                }
            }
            ["c", k] => {
                let k: usize = k.parse().ok()?;
                match self.slot(k) {
                    None => "nofd".into(),
                    Some((fd, ..)) => {
                        // `select` calls parked on this slot are dropped first
                        for p in self.parked.iter_mut() {
                            if p.as_ref().is_some_and(|p| p.slot == k) {
                                *p = None;
                            }
                        }
                        self.system.close(fd).ok();
                        self.slots[k] = None;
                        "ok".into()
                    }
                }
            }
            ["w", k, n] => {
                let k: usize = k.parse().ok()?;
                let n: usize = n.parse().ok()?;
                match self.slot(k) {
                    None => "nofd".into(),
                    Some((fd, _r, wr, nb)) => {
                        let buf = op_data(i, n);
                        let r = self.system.write(fd, &buf).now_or_never();
                        let (after, ..) = self.view();
                        let written = after.len().saturating_sub(before.len());
                        self.accepted.extend_from_slice(&buf[..written.min(n)]);
                        // property statement, directly: atomic writes are all-or-nothing, EPIPE iff
                        // no reader, a reported count is what went in
                        match &r {
                            Some(Ok(m)) => {
                                if *m != written {
                                    self.flag(i, "count-differs-from-buffered");
                                }
                                if (n <= PIPE_BUF || n <= POSIX_PIPE_BUF) && *m != n {
                                    self.flag(i, "atomic-write-split");
                                }
                                if n > 0 && wr && *m == 0 {
                                    self.flag(i, "zero-progress");
                                }
                            }
                            Some(Err(e)) => {
                                if written != 0 {
                                    self.flag(i, "error-after-transfer");
                                }
                                if *e == Errno::EPIPE && readers_before != 0 {
                                    self.flag(i, "epipe-with-readers");
                                }
                                if *e == Errno::EAGAIN && !nb {
                                    self.flag(i, "eagain-on-blocking-fd");
                                }
                            }
                            None => {
                                if nb {
                                    self.flag(i, "nonblocking-write-pending");
                                }
                                if (n <= PIPE_BUF || n <= POSIX_PIPE_BUF) && written != 0 {
                                    self.flag(i, "atomic-write-split");
                                }
                            }
                        }
                        match r {
                            Some(Ok(m)) => format!("ok {m}"),
                            Some(Err(e)) => errno_name(e),
                            None => "pend".into(),
                        }
                    }
                }
            }
            ["r", k, n] => {
                let k: usize = k.parse().ok()?;
                let n: usize = n.parse().ok()?;
                match self.slot(k) {
                    None => "nofd".into(),
                    Some((fd, ..)) => {
                        let mut buf = vec![0u8; n];
                        let r = self.system.read(fd, &mut buf).now_or_never();
                        match r {
                            Some(Ok(m)) => {
                                let m = m.min(n);
                                self.delivered.extend_from_slice(&buf[..m]);
                                format!("ok {}:{}", m, hash_bytes(&buf[..m]))
                            }
                            Some(Err(e)) => errno_name(e),
                            None => "pend".into(),
                        }
                    }
                }
            }
            ["dw", k, n] => {
                // `OpenFileDescription::write`: one `poll_write`, `Pending` reported as EAGAIN
                let k: usize = k.parse().ok()?;
                let n: usize = n.parse().ok()?;
                match self.slot(k) {
                    None => "nofd".into(),
                    Some((fd, ..)) => {
                        let buf = op_data(i, n);
                        let ofd = self.ofd(fd)?;
                        let r = ofd.borrow_mut().write(&buf);
                        let (after, ..) = self.view();
                        let written = after.len().saturating_sub(before.len());
                        self.accepted.extend_from_slice(&buf[..written.min(n)]);
                        match r {
                            Ok(m) => {
                                if m != written {
                                    self.flag(i, "count-differs-from-buffered");
                                }
                                if (n <= PIPE_BUF || n <= POSIX_PIPE_BUF) && m != n {
                                    self.flag(i, "atomic-write-split");
                                }
                                format!("ok {m}")
                            }
                            Err(e) => {
                                if written != 0 {
                                    self.flag(i, "error-after-transfer");
                                }
                                errno_name(e)
                            }
                        }
                    }
                }
            }
            ["dr", k, n] => {
                let k: usize = k.parse().ok()?;
                let n: usize = n.parse().ok()?;
                match self.slot(k) {
                    None => "nofd".into(),
                    Some((fd, ..)) => {
                        let mut buf = vec![0u8; n];
                        let ofd = self.ofd(fd)?;
                        let r = ofd.borrow_mut().read(&mut buf);
                        match r {
                            Ok(m) => {
                                let m = m.min(n);
                                self.delivered.extend_from_slice(&buf[..m]);
                                format!("ok {}:{}", m, hash_bytes(&buf[..m]))
                            }
                            Err(e) => errno_name(e),
                        }
                    }
                }
            }
            ["park", m, k] => {
                // `select` without timeout on one slot, polled once with a fresh waker; kept if pending
                let k: usize = k.parse().ok()?;
                let (r, w) = match *m {
                    "r" => (true, false),
                    "w" => (false, true),
                    _ => (true, true),
                };
                match self.slot(k) {
                    None => "nofd".into(),
                    Some((fd, ..)) => {
                        let sys = self.system.clone();
                        let fut = Box::pin(async move {
                            let mut rs = FdSet::new();
                            let mut ws = FdSet::new();
                            if r {
                                rs.insert(fd);
                            }
                            if w {
                                ws.insert(fd);
                            }
                            let res = sys.select(&mut rs, &mut ws, None, None).await;
                            (res.map(|_| ()), rs.contains(fd), ws.contains(fd))
                        });
                        let j = self.parked.len();
                        self.parked.push(Some(Parked {
                            fut,
                            flag: Arc::new(Flag(AtomicBool::new(false))),
                            slot: k,
                            r,
                            w,
                        }));
                        let txt = self.poll_parked(j, k);
                        if self.parked[j].is_none() {
                            self.parked.pop(); // completed at once: no id is used up
                        }
                        txt
                    }
                }
            }
            ["poll", j] => {
                let j: usize = j.parse().ok()?;
                match self.parked.get(j).and_then(|p| p.as_ref()).map(|p| p.slot) {
                    None => "nopark".into(),
                    Some(k) => self.poll_parked(j, k),
                }
            }
            ["selbad", which] => {
                // `select` on a descriptor that is not open
                let mut rs = FdSet::new();
                let mut ws = FdSet::new();
                if *which == "r" {
                    rs.insert(Fd(99));
                } else {
                    ws.insert(Fd(99));
                }
                match self
                    .system
                    .select(&mut rs, &mut ws, Some(Duration::ZERO), None)
                    .now_or_never()
                {
                    Some(Ok(_)) => "sel ok".into(),
                    Some(Err(e)) => format!("sel {}", errno_name(e)),
                    None => "sel pend".into(),
                }
            }
            ["sel"] => {
                let fds: Vec<(usize, Fd)> = self
                    .slots
                    .iter()
                    .enumerate()
                    .filter_map(|(k, s)| s.map(|s| (k, s.0)))
                    .collect();
                let mut rs: FdSet = fds.iter().map(|x| x.1).collect();
                let mut ws: FdSet = fds.iter().map(|x| x.1).collect();
                let r = self
                    .system
                    .select(&mut rs, &mut ws, Some(Duration::ZERO), None)
                    .now_or_never();
                let ids = |set: &FdSet| -> String {
                    let v: Vec<String> = fds
                        .iter()
                        .filter(|x| set.contains(x.1))
                        .map(|x| x.0.to_string())
                        .collect();
                    if v.is_empty() {
                        "-".into()
                    } else {
                        v.join(",")
                    }
                };
                match r {
                    Some(Ok(_)) => format!("sel R={} W={}", ids(&rs), ids(&ws)),
                    Some(Err(e)) => format!("sel {}", errno_name(e)),
                    None => "sel pend".into(),
                }
            }
            _ => return None,
        };
        // stream law on the real pipe: delivered ++ buffered = accepted; capacity respected
        let (after, ..) = self.view();
        let mut all = self.delivered.clone();
        all.extend_from_slice(&after);
        if all != self.accepted {
            self.flag(i, "stream");
        }
        if after.len() > PIPE_SIZE {
            self.flag(i, "capacity");
        }
        if self.lost_wakeup() {
            self.flag(i, "lost-wakeup");
        }
        Some(res)
    }
}

fn run_ops(case: &str) -> (String, String) {
    let mut world = OpWorld::new();
    let mut obs = vec![];
    for (i, op) in case
        .split(';')
        .map(|s| s.trim())
        .filter(|s| !s.is_empty())
        .enumerate()
    {
        let Some(r) = world.step(i, op) else {
            return ("bad-case".into(), "-".into());
        };
        let (c, rd, wr) = world.view();
        let wk: Vec<String> = world.woken().iter().map(|j| j.to_string()).collect();
        obs.push(format!(
            "{} len={} sum={} r={} w={} wk={}",
            r,
            c.len(),
            hash_bytes(&c),
            rd,
            wr,
            if wk.is_empty() { "-".to_string() } else { wk.join(",") }
        ));
    }
    (obs.join(" | "), world.fail.unwrap_or_else(|| "ok".into()))
}

/// Interesting byte counts around the capacity constants.
fn boundary_sizes() -> Vec<usize> {
    let mut v = vec![0, 1, 2, 3, 7];
    for base in [
        POSIX_PIPE_BUF,
        PIPE_BUF,
        PIPE_SIZE - PIPE_BUF,
        PIPE_SIZE,
        PIPE_SIZE + PIPE_BUF,
        2 * PIPE_SIZE,
    ] {
        for d in -2i64..=2 {
            let x = base as i64 + d;
            if x >= 0 {
                v.push(x as usize);
            }
        }
    }
    v.sort();
    v.dedup();
    v
}

/// Generates one operation sequence adaptively (sizes relative to the room left in the real pipe).
fn gen_ops(rng: &mut Rng, len: usize) -> String {
    let mut world = OpWorld::new();
    let sizes = boundary_sizes();
    let mut ops: Vec<String> = vec![];
    // mostly start with a reader and a writer
    if rng.chance(9, 10) {
        ops.push("or".into());
        ops.push(if rng.chance(1, 8) { "orw" } else { "ow" }.into());
    }
    for (i, op) in ops.iter().enumerate() {
        world.step(i, op);
    }
    while ops.len() < len {
        let (content, ..) = world.view();
        let room = PIPE_SIZE.saturating_sub(content.len());
        let nslots = world.slots.len().max(1);
        let pick_slot = |rng: &mut Rng, want_w: bool, world: &OpWorld| -> usize {
            let good: Vec<usize> = world
                .slots
                .iter()
                .enumerate()
                .filter(|(_, s)| s.map(|s| if want_w { s.2 } else { s.1 }).unwrap_or(false))
                .map(|(k, _)| k)
                .collect();
            if !good.is_empty() && rng.chance(15, 16) {
                *rng.pick(&good)
            } else {
                rng.below(nslots)
            }
        };
        let size = |rng: &mut Rng, rel: &[i64]| -> usize {
            match rng.below(10) {
                0..=3 => *rng.pick(&sizes),
                4..=6 => {
                    let x = *rng.pick(rel);
                    x.max(0) as usize
                }
                7 => rng.below(40),
                _ => rng.below(2 * PIPE_SIZE + 10),
            }
        };
        let op = match rng.below(124) {
            108..=115 => {
                // park a `select`: mostly on the side that is about to block
                let want_w = rng.chance(1, 2);
                let k = pick_slot(rng, want_w, &world);
                let m = if rng.chance(1, 8) { "b" } else if want_w { "w" } else { "r" };
                format!("park {m} {k}")
            }
            116..=123 => {
                let live: Vec<usize> =
                    world.parked.iter().enumerate().filter(|(_, p)| p.is_some()).map(|(j, _)| j).collect();
                let woken = world.woken();
                let j = if !woken.is_empty() && rng.chance(3, 4) {
                    *rng.pick(&woken)
                } else if !live.is_empty() && rng.chance(7, 8) {
                    *rng.pick(&live)
                } else {
                    rng.below(world.parked.len() + 1)
                };
                format!("poll {j}")
            }
            100..=102 => {
                let k = pick_slot(rng, true, &world);
                let r = room as i64;
                let b = PIPE_BUF as i64;
                let n = size(rng, &[r - 1, r, r + 1, r - b, b, b + 1]);
                format!("dw {k} {n}")
            }
            103..=105 => {
                let k = pick_slot(rng, false, &world);
                let l = content.len() as i64;
                let n = size(rng, &[l - 1, l, l + 1, 1, 0]);
                format!("dr {k} {n}")
            }
            106 => "selbad r".into(),
            107 => "selbad w".into(),
            0..=39 => {
                let k = pick_slot(rng, true, &world);
                let r = room as i64;
                let b = PIPE_BUF as i64;
                let n = size(rng, &[r - 1, r, r + 1, r - b, r - b + 1, r - b - 1, b, b + 1]);
                format!("w {k} {n}")
            }
            40..=74 => {
                let k = pick_slot(rng, false, &world);
                let l = content.len() as i64;
                let b = PIPE_BUF as i64;
                let n = size(rng, &[l - 1, l, l + 1, l - b, l - b + 1, l - b - 1, 1, 0]);
                format!("r {k} {n}")
            }
            75..=79 => "or".into(),
            80..=83 => "ow".into(),
            84 => "owa".into(),
            85 => "orw".into(),
            86..=90 => format!("c {}", rng.below(nslots)),
            91..=94 => format!("nb {} {}", rng.below(nslots), rng.below(2)),
            _ => "sel".into(),
        };
        world.step(ops.len(), &op);
        ops.push(op);
    }
    ops.join(";")
}

// ------------------------------------------------------------------------------------------
// (ii-a) write_all ∥ read through Concurrent, under a seeded scheduler

struct Flag(AtomicBool);
impl Wake for Flag {
    fn wake(self: Arc<Self>) {
        self.0.store(true, Ordering::SeqCst);
    }
    fn wake_by_ref(self: &Arc<Self>) {
        self.0.store(true, Ordering::SeqCst);
    }
}

/// Returns `Pending` once (after waking itself): gives the scheduler a chance to run the other task.
struct YieldNow(bool);
impl Future for YieldNow {
    type Output = ();
    fn poll(mut self: Pin<&mut Self>, cx: &mut Context<'_>) -> Poll<()> {
        if self.0 {
            Poll::Ready(())
        } else {
            self.0 = true;
            cx.waker().wake_by_ref();
            Poll::Pending
        }
    }
}

async fn yields(n: usize) {
    for _ in 0..n {
        YieldNow(false).await;
    }
}

/// `xfer … mode=proc`: writer and reader are two *virtual processes*, each inside
/// `Concurrent::run_virtual` (its own `Concurrent` state, the `VirtualSystem` shared): a process whose
/// descriptor is not ready parks in `VirtualSystem::select` with its waker registered in the FIFO and is
/// polled again only when that waker has fired (the executor below never calls `peek`); with probability
/// 1/8 a process is polled spuriously.  Nothing runnable = `TIMEOUT` (a lost wake-up).
fn run_xfer_proc(ws: &[&str]) -> (String, String) {
    let n = kv_n(ws, "n");
    let data = payload(n, kv_n(ws, "pat"), kv_n(ws, "per"), kv_n(ws, "nl"));
    let wk = kv_n(ws, "wk");
    let rk = kv_n(ws, "rk");
    let mut rng = Rng::new(kv_n(ws, "seed") as u64 ^ 0xC14_0002);
    let vs1 = VirtualSystem::new();
    let (rfd, wfd) = vs1.pipe().unwrap();
    let pid1 = vs1.process_id;
    let pid2 = yash_env::job::Pid(pid1.0 + 1);
    {
        // fork by hand: the child shares the open file descriptions; each side keeps one end
        let mut st = vs1.state.borrow_mut();
        let child = yash_env::system::r#virtual::Process::fork_from(pid1, &st.processes[&pid1]);
        st.processes.insert(pid2, child);
        st.processes.get_mut(&pid1).unwrap().close_fd(rfd);
        st.processes.get_mut(&pid2).unwrap().close_fd(wfd);
    }
    let mut vs2 = vs1.clone();
    vs2.process_id = pid2;
    let c1 = Rc::new(Concurrent::new(vs1));
    let c2 = Rc::new(Concurrent::new(vs2));
    let wres: Rc<Cell<Option<&'static str>>> = Rc::new(Cell::new(None));
    let rres: Rc<Cell<Option<&'static str>>> = Rc::new(Cell::new(None));
    let received: Rc<RefCell<Vec<u8>>> = Rc::new(RefCell::new(vec![]));
    let writer: Pin<Box<dyn Future<Output = ()>>> = {
        let data = data.clone();
        let wres = Rc::clone(&wres);
        Box::pin(async move {
            let sys = Rc::clone(&c1);
            c1.run_virtual(async move {
                let piece = if wk == 0 { data.len().max(1) } else { wk };
                let mut out = "closed";
                for chunk in data.chunks(piece) {
                    if sys.write_all(wfd, chunk).await.is_err() {
                        out = "failed";
                        break;
                    }
                }
                sys.close(wfd).ok();
                wres.set(Some(out));
            })
            .await
        })
    };
    let reader: Pin<Box<dyn Future<Output = ()>>> = {
        let rres = Rc::clone(&rres);
        let received = Rc::clone(&received);
        Box::pin(async move {
            let sys = Rc::clone(&c2);
            c2.run_virtual(async move {
                if rk == 0 {
                    let mut buf = vec![];
                    let r = sys.read_all_to(rfd, &mut buf).await;
                    *received.borrow_mut() = buf;
                    rres.set(Some(if r.is_ok() { "done" } else { "error" }));
                } else {
                    let mut buf = vec![0u8; rk];
                    loop {
                        match sys.read(rfd, &mut buf).await {
                            Ok(0) => {
                                rres.set(Some("done"));
                                break;
                            }
                            Ok(m) => received.borrow_mut().extend_from_slice(&buf[..m]),
                            Err(_) => {
                                rres.set(Some("error"));
                                break;
                            }
                        }
                    }
                }
                sys.close(rfd).ok();
            })
            .await
        })
    };
    let mut tasks = vec![Some(writer), Some(reader)];
    let flags = [Arc::new(Flag(AtomicBool::new(true))), Arc::new(Flag(AtomicBool::new(true)))];
    let wakers: Vec<Waker> = flags.iter().map(|f| Waker::from(Arc::clone(f))).collect();
    let mut budget = 60 * n + 5000;
    let mut parks = 0usize;
    loop {
        if tasks.iter().all(|t| t.is_none()) {
            break;
        }
        budget -= 1;
        if budget == 0 {
            return ("TIMEOUT".into(), "FAIL:livelock".into());
        }
        let alive: Vec<usize> = (0..2).filter(|&t| tasks[t].is_some()).collect();
        let runnable: Vec<usize> =
            alive.iter().copied().filter(|&t| flags[t].0.load(Ordering::SeqCst)).collect();
        let t = if rng.chance(1, 8) {
            *rng.pick(&alive) // possibly spurious
        } else if runnable.is_empty() {
            return ("TIMEOUT".into(), "FAIL:lost-wakeup".into());
        } else {
            *rng.pick(&runnable)
        };
        flags[t].0.store(false, Ordering::SeqCst);
        let mut cx = Context::from_waker(&wakers[t]);
        if tasks[t].as_mut().unwrap().as_mut().poll(&mut cx).is_ready() {
            tasks[t] = None;
        } else {
            parks += 1;
        }
    }
    let _ = parks;
    let got = received.borrow().clone();
    let obs = format!(
        "recv={}:{} w={} r={}",
        got.len(),
        hash_bytes(&got),
        wres.get().unwrap_or("?"),
        rres.get().unwrap_or("?")
    );
    let oracle = if got != data {
        let at = got.iter().zip(data.iter()).position(|(a, b)| a != b).unwrap_or(got.len().min(data.len()));
        format!("FAIL:data-differs-at-{at}")
    } else {
        "ok".to_string()
    };
    (obs, oracle)
}

/// `xfer … mid=M`: a genuinely concurrent pipeline `writer | M × forwarder | reader` over M + 1 pipes, every
/// stage a task of one `Concurrent` (so several tasks of one process wait for different descriptors at the same
/// time); a forwarder is the loop of `cat`: `read` into a buffer of `rk` bytes (0 = 1024), `write_all` of what it
/// got, exit at `Ok(0)` closing both ends.  Same seeded executor as `run_xfer`.  Model: `Chain.lean`.
fn run_xfer_chain(ws: &[&str]) -> (String, String) {
    let n = kv_n(ws, "n");
    let mid = kv_n(ws, "mid");
    let data = payload(n, kv_n(ws, "pat"), kv_n(ws, "per"), kv_n(ws, "nl"));
    let wk = kv_n(ws, "wk");
    let rk = kv_n(ws, "rk");
    // `hs=J hk=K`: forwarder number J (1-based) is head-like: it stops reading after K bytes and exits
    let hs = kv_n(ws, "hs");
    let hk = kv_n(ws, "hk");
    let seed = kv_n(ws, "seed") as u64;
    let mut rng = Rng::new(seed ^ 0xC14_0003);
    let system = Rc::new(Concurrent::new(VirtualSystem::new()));
    let pipes: Vec<(Fd, Fd)> = (0..=mid).map(|_| system.pipe().unwrap()).collect();
    let wres: Rc<Cell<Option<&'static str>>> = Rc::new(Cell::new(None));
    let rres: Rc<Cell<Option<&'static str>>> = Rc::new(Cell::new(None));
    let fres: Rc<RefCell<Vec<&'static str>>> = Rc::new(RefCell::new(vec!["?"; mid]));
    let received: Rc<RefCell<Vec<u8>>> = Rc::new(RefCell::new(vec![]));
    let ys: Vec<usize> = (0..mid + 2).map(|_| [0, 0, 1, 2, 5][rng.below(5)]).collect();
    let mut tasks: Vec<Option<Pin<Box<dyn Future<Output = ()>>>>> = vec![];
    {
        let system = Rc::clone(&system);
        let data = data.clone();
        let wres = Rc::clone(&wres);
        let wfd = pipes[0].1;
        let wy = ys[0];
        tasks.push(Some(Box::pin(async move {
            let piece = if wk == 0 { data.len().max(1) } else { wk };
            let mut out = "closed";
            for chunk in data.chunks(piece) {
                yields(wy).await;
                if system.write_all(wfd, chunk).await.is_err() {
                    out = "failed";
                    break;
                }
            }
            system.close(wfd).ok();
            wres.set(Some(out));
        })));
    }
    for i in 0..mid {
        let system = Rc::clone(&system);
        let fres = Rc::clone(&fres);
        let rfd = pipes[i].0;
        let wfd = pipes[i + 1].1;
        let fy = ys[i + 1];
        tasks.push(Some(Box::pin(async move {
            let mut buf = vec![0u8; if rk == 0 { 1024 } else { rk }];
            let limit = if hs == i + 1 { hk } else { usize::MAX };
            let mut total = 0usize;
            let out = loop {
                if total >= limit {
                    break "closed";
                }
                yields(fy).await;
                let want = buf.len().min(limit - total);
                match system.read(rfd, &mut buf[..want]).await {
                    Ok(0) => break "closed",
                    Ok(m) => {
                        total += m;
                        if system.write_all(wfd, &buf[..m]).await.is_err() {
                            break "failed";
                        }
                    }
                    Err(_) => break "error",
                }
            };
            system.close(rfd).ok();
            system.close(wfd).ok();
            fres.borrow_mut()[i] = out;
        })));
    }
    {
        let system = Rc::clone(&system);
        let rres = Rc::clone(&rres);
        let received = Rc::clone(&received);
        let rfd = pipes[mid].0;
        let ry = ys[mid + 1];
        tasks.push(Some(Box::pin(async move {
            if rk == 0 {
                yields(ry).await;
                let mut buf = vec![];
                let r = system.read_all_to(rfd, &mut buf).await;
                *received.borrow_mut() = buf;
                rres.set(Some(if r.is_ok() { "done" } else { "error" }));
            } else {
                let mut buf = vec![0u8; rk];
                loop {
                    yields(ry).await;
                    match system.read(rfd, &mut buf).await {
                        Ok(0) => {
                            rres.set(Some("done"));
                            break;
                        }
                        Ok(m) => received.borrow_mut().extend_from_slice(&buf[..m]),
                        Err(_) => {
                            rres.set(Some("error"));
                            break;
                        }
                    }
                }
            }
            system.close(rfd).ok();
        })));
    }
    let nt = tasks.len();
    let flags: Vec<Arc<Flag>> = (0..nt).map(|_| Arc::new(Flag(AtomicBool::new(true)))).collect();
    let wakers: Vec<Waker> = flags.iter().map(|f| Waker::from(Arc::clone(f))).collect();
    let mut budget = (mid + 2) * (60 * n + 5000);
    // the most bytes ever seen in flight inside the pipes + what the reader has so far never exceeds the payload
    loop {
        if tasks.iter().all(|t| t.is_none()) {
            break;
        }
        budget -= 1;
        if budget == 0 {
            return ("TIMEOUT".into(), "FAIL:livelock".into());
        }
        if rng.chance(1, 6) {
            system.peek();
        }
        let mut runnable: Vec<usize> =
            (0..nt).filter(|&t| tasks[t].is_some() && flags[t].0.load(Ordering::SeqCst)).collect();
        if runnable.is_empty() {
            system.peek();
            runnable = (0..nt).filter(|&t| tasks[t].is_some() && flags[t].0.load(Ordering::SeqCst)).collect();
            if runnable.is_empty() {
                return ("TIMEOUT".into(), "FAIL:deadlock".into());
            }
        }
        let t = *rng.pick(&runnable);
        flags[t].0.store(false, Ordering::SeqCst);
        let mut cx = Context::from_waker(&wakers[t]);
        if tasks[t].as_mut().unwrap().as_mut().poll(&mut cx).is_ready() {
            tasks[t] = None;
        }
    }
    let got = received.borrow().clone();
    let f = fres.borrow();
    let joined = f.join(",");
    let ftxt: &str = if hs > 0 {
        &joined
    } else if f.iter().all(|x| *x == "closed") {
        "closed"
    } else {
        f.iter().find(|x| **x != "closed").unwrap()
    };
    let obs = format!(
        "recv={}:{} w={} f={} r={}",
        got.len(),
        hash_bytes(&got),
        wres.get().unwrap_or("?"),
        ftxt,
        rres.get().unwrap_or("?")
    );
    let expect: &[u8] = if hs > 0 { &data[..hk.min(data.len())] } else { &data };
    let oracle = if got != expect {
        let at = got.iter().zip(expect.iter()).position(|(a, b)| a != b).unwrap_or(got.len().min(expect.len()));
        format!("FAIL:data-differs-at-{at}")
    } else {
        "ok".to_string()
    };
    (obs, oracle)
}

fn run_xfer(ws: &[&str]) -> (String, String) {
    if kv(ws, "mode") == Some("proc") {
        return run_xfer_proc(ws);
    }
    if kv_n(ws, "mid") > 0 {
        return run_xfer_chain(ws);
    }
    let n = kv_n(ws, "n");
    let data = payload(n, kv_n(ws, "pat"), kv_n(ws, "per"), kv_n(ws, "nl"));
    let wk = kv_n(ws, "wk");
    let rk = kv_n(ws, "rk");
    let seed = kv_n(ws, "seed") as u64;
    // `stop=K`: the reader takes exactly K bytes and closes its end (the writer then meets EPIPE)
    let stop: Option<usize> = kv(ws, "stop").and_then(|v| v.parse().ok());
    let mut rng = Rng::new(seed ^ 0xC14_0001);
    let system = Rc::new(Concurrent::new(VirtualSystem::new()));
    let (rfd, wfd) = system.pipe().unwrap();
    if kv(ws, "mode") == Some("rderr") {
        // `read_all` on the writing end: the error path of the loop
        let mut buf = vec![];
        let r = system.read_all_to(wfd, &mut buf).now_or_never();
        let obs = match r {
            Some(Err(e)) => format!("rderr={} len={}", errno_name(e), buf.len()),
            Some(Ok(())) => format!("rderr=none len={}", buf.len()),
            None => "rderr=pend".into(),
        };
        let oracle = if obs == "rderr=EBADF len=0" { "ok" } else { "FAIL:read-error-path" };
        return (obs, oracle.into());
    }

    let wres: Rc<Cell<Option<&'static str>>> = Rc::new(Cell::new(None));
    let rres: Rc<Cell<Option<&'static str>>> = Rc::new(Cell::new(None));
    let received: Rc<RefCell<Vec<u8>>> = Rc::new(RefCell::new(vec![]));
    // yield patterns (how late each side runs) derive from the seed
    let wy = [0, 0, 1, 3][rng.below(4)];
    let ry = [0, 0, 1, 2, 5][rng.below(5)];

    let writer: Pin<Box<dyn Future<Output = ()>>> = {
        let system = Rc::clone(&system);
        let data = data.clone();
        let wres = Rc::clone(&wres);
        Box::pin(async move {
            let piece = if wk == 0 { data.len().max(1) } else { wk };
            let mut out = "closed";
            for chunk in data.chunks(piece) {
                yields(wy).await;
                if system.write_all(wfd, chunk).await.is_err() {
                    out = "failed";
                    break;
                }
            }
            system.close(wfd).ok();
            wres.set(Some(out));
        })
    };
    let data_len = data.len();
    let reader: Pin<Box<dyn Future<Output = ()>>> = {
        let system = Rc::clone(&system);
        let wres2 = Rc::clone(&rres);
        let received = Rc::clone(&received);
        Box::pin(async move {
            if let Some(limit) = stop {
                let mut buf = vec![0u8; if rk == 0 { 1024 } else { rk }];
                let mut out = if limit < data_len { "stopped" } else { "done" };
                loop {
                    let total = received.borrow().len();
                    if total >= limit {
                        break;
                    }
                    yields(ry).await;
                    let want = buf.len().min(limit - total);
                    match system.read(rfd, &mut buf[..want]).await {
                        Ok(0) => {
                            out = "done";
                            break;
                        }
                        Ok(m) => received.borrow_mut().extend_from_slice(&buf[..m]),
                        Err(_) => {
                            out = "error";
                            break;
                        }
                    }
                }
                wres2.set(Some(out));
            } else if rk == 0 {
                yields(ry).await;
                let mut buf = vec![];
                let r = system.read_all_to(rfd, &mut buf).await;
                *received.borrow_mut() = buf;
                wres2.set(Some(if r.is_ok() { "done" } else { "error" }));
            } else {
                let mut buf = vec![0u8; rk];
                loop {
                    yields(ry).await;
                    match system.read(rfd, &mut buf).await {
                        Ok(0) => {
                            wres2.set(Some("done"));
                            break;
                        }
                        Ok(m) => received.borrow_mut().extend_from_slice(&buf[..m]),
                        Err(_) => {
                            wres2.set(Some("error"));
                            break;
                        }
                    }
                }
            }
            system.close(rfd).ok();
        })
    };

    let mut tasks = vec![Some(writer), Some(reader)];
    let flags = [
        Arc::new(Flag(AtomicBool::new(true))),
        Arc::new(Flag(AtomicBool::new(true))),
    ];
    let wakers: Vec<Waker> = flags.iter().map(|f| Waker::from(Arc::clone(f))).collect();
    let mut stuck = false;
    let mut budget = 60 * n + 5000;
    loop {
        if tasks.iter().all(|t| t.is_none()) {
            break;
        }
        budget -= 1;
        if budget == 0 {
            stuck = true;
            break;
        }
        if rng.chance(1, 6) {
            system.peek(); // a `select` that nobody strictly needed
        }
        let mut runnable: Vec<usize> = (0..2)
            .filter(|&t| tasks[t].is_some() && flags[t].0.load(Ordering::SeqCst))
            .collect();
        if runnable.is_empty() {
            system.peek();
            runnable = (0..2)
                .filter(|&t| tasks[t].is_some() && flags[t].0.load(Ordering::SeqCst))
                .collect();
            if runnable.is_empty() {
                stuck = true;
                break;
            }
        }
        let t = *rng.pick(&runnable);
        flags[t].0.store(false, Ordering::SeqCst);
        let mut cx = Context::from_waker(&wakers[t]);
        if tasks[t].as_mut().unwrap().as_mut().poll(&mut cx).is_ready() {
            tasks[t] = None;
        }
    }
    if stuck {
        return ("TIMEOUT".into(), "FAIL:deadlock".into());
    }
    let got = received.borrow().clone();
    let obs = format!(
        "recv={}:{} w={} r={}",
        got.len(),
        hash_bytes(&got),
        wres.get().unwrap_or("?"),
        rres.get().unwrap_or("?")
    );
    let expect: &[u8] = match stop {
        Some(k) => &data[..k.min(data.len())],
        None => &data,
    };
    let oracle = if got != expect {
        let at = got
            .iter()
            .zip(expect.iter())
            .position(|(a, b)| a != b)
            .unwrap_or(got.len().min(expect.len()));
        format!("FAIL:data-differs-at-{at}")
    } else if stop.is_some_and(|k| k + PIPE_SIZE < data.len()) && wres.get() != Some("failed") {
        "FAIL:writer-did-not-see-EPIPE".to_string()
    } else {
        "ok".to_string()
    };
    (obs, oracle)
}


// ------------------------------------------------------------------------------------------
// (i'') a blocking `write` that is resumed (coverage triage, session 4: io.rs `poll_write_full`, the return of the
// bytes already written when a later iteration of the same call fails)

/// `bwr n=N pre=P act=close|read k=K`: a pipe holding P bytes; a *blocking* `write` of N bytes is polled once (it
/// writes what fits and stays pending when the pipe is full), then the reader either closes its end or reads K
/// bytes, then the same `write` future is polled again.  POSIX: a write that has transferred some bytes and then
/// meets an error returns the count; with nothing transferred and no reader it fails with EPIPE.
fn run_bwr(ws: &[&str]) -> (String, String) {
    let n = kv_n(ws, "n");
    let pre = kv_n(ws, "pre").min(PIPE_SIZE);
    let k = kv_n(ws, "k");
    let act = kv(ws, "act").unwrap_or("close");
    let vs = VirtualSystem::new();
    let (rfd, wfd) = vs.pipe().unwrap();
    let other = vs.clone();
    let prefill = op_data(0, pre);
    let data = op_data(1, n);
    let show = |r: &Poll<Result<usize, Errno>>| -> String {
        match r {
            Poll::Ready(Ok(m)) => format!("ok {m}"),
            Poll::Ready(Err(e)) => errno_name(*e),
            Poll::Pending => "pend".into(),
        }
    };
    if pre > 0 && other.write(wfd, &prefill).now_or_never() != Some(Ok(pre)) {
        return ("prefill-failed".into(), "FAIL:prefill".into());
    }
    let flag = Arc::new(Flag(AtomicBool::new(false)));
    let waker = Waker::from(Arc::clone(&flag));
    let mut cx = Context::from_waker(&waker);
    let mut fut = Box::pin(vs.write(wfd, &data));
    let p1 = fut.as_mut().poll(&mut cx);
    let mut obs = format!("p1={}", show(&p1));
    let mut read_back: Vec<u8> = vec![];
    let mut reader_open = true;
    let mut p2txt = "-".to_string();
    if p1.is_pending() {
        if act == "close" {
            other.close(rfd).ok();
            reader_open = false;
        } else {
            let mut buf = vec![0u8; k];
            match other.read(rfd, &mut buf).now_or_never() {
                Some(Ok(m)) => {
                    read_back.extend_from_slice(&buf[..m]);
                    obs = format!("{obs} rd={m}");
                }
                Some(Err(e)) => obs = format!("{obs} rd={}", errno_name(e)),
                None => obs = format!("{obs} rd=pend"),
            }
        }
        let p2 = fut.as_mut().poll(&mut cx);
        p2txt = show(&p2);
    }
    obs = format!("{obs} p2={p2txt}");
    drop(fut);
    // what is left in the pipe
    other.close(wfd).ok();
    if reader_open {
        let mut left: Vec<u8> = vec![];
        let mut buf = vec![0u8; 4096];
        for _ in 0..8 {
            match other.read(rfd, &mut buf).now_or_never() {
                Some(Ok(0)) | None | Some(Err(_)) => break,
                Some(Ok(m)) => left.extend_from_slice(&buf[..m]),
            }
        }
        obs = format!("{obs} left={}:{}", left.len(), hash_bytes(&left));
        read_back.extend_from_slice(&left);
    } else {
        obs = format!("{obs} left=closed");
    }
    // the statement, directly
    let room = PIPE_SIZE - pre;
    let first = if n == 0 || n <= room { n } else if n <= PIPE_BUF || room == 0 { 0 } else { room };
    let blocked = n > 0 && n > room;
    let oracle = if !blocked {
        if obs.starts_with(&format!("p1=ok {n} ")) { "ok".to_string() } else { "FAIL:unblocked-write".into() }
    } else if !p1.is_pending() {
        "FAIL:write-did-not-block".into()
    } else if act == "close" {
        let want = if first > 0 { format!("ok {first}") } else { "EPIPE".to_string() };
        if p2txt == want { "ok".into() } else { format!("FAIL:resumed-write-after-close(want {want})") }
    } else {
        // every byte the pipe accepted is a prefix of prefill ++ data, in order
        let mut all = prefill.clone();
        all.extend_from_slice(&data);
        if all.starts_with(&read_back) { "ok".into() } else { "FAIL:resumed-write-data".into() }
    };
    (obs, oracle)
}

// ------------------------------------------------------------------------------------------
// (ii-b) shell-level flows

thread_local! {
    static PAYLOAD: RefCell<Vec<u8>> = const { RefCell::new(Vec::new()) };
    static STATE: RefCell<Option<Rc<RefCell<SystemState>>>> = const { RefCell::new(None) };
    static SNAPS: RefCell<BTreeMap<usize, String>> = const { RefCell::new(BTreeMap::new()) };
}

/// `fdsnap K` : records under key K the descriptor table of the calling process:
/// `<fd>:f` (not a pipe), `<fd>:r<i>` / `<fd>:w<i>` (reading / writing end of the i-th distinct pipe in
/// ascending descriptor order).  Writes nothing.
fn fdsnap_main(env: &mut VEnv, args: Vec<Field>) -> BuiltinFuture<'_> {
    let key: usize = args.first().and_then(|f| f.value.parse().ok()).unwrap_or(0);
    let pid = env.system.getpid();
    let text = STATE.with(|st| {
        let st = st.borrow();
        let Some(state) = st.as_ref() else { return "nostate".to_string() };
        let state = state.borrow();
        let Some(process) = state.processes.get(&pid) else { return "noproc".to_string() };
        let mut pipes: Vec<*const RefCell<Inode>> = vec![];
        let mut out = vec![];
        for (fd, body) in process.fds() {
            let ofd = body.open_file_description.borrow();
            let inode = ofd.inode();
            let is_fifo = matches!(inode.borrow().body, FileBody::Fifo { .. });
            if is_fifo {
                let ptr = Rc::as_ptr(inode);
                let idx = match pipes.iter().position(|p| *p == ptr) {
                    Some(i) => i,
                    None => {
                        pipes.push(ptr);
                        pipes.len() - 1
                    }
                };
                let kind = match (ofd.is_readable(), ofd.is_writable()) {
                    (true, false) => "r",
                    (false, true) => "w",
                    _ => "x",
                };
                out.push(format!("{}:{}{}", fd.0, kind, idx + 1));
            } else {
                out.push(format!("{}:f", fd.0));
            }
        }
        if out.is_empty() { "-".to_string() } else { out.join(",") }
    });
    SNAPS.with(|m| m.borrow_mut().insert(key, text));
    Box::pin(async move { ExitStatus::SUCCESS.into() })
}

const PROLOGUES: [&str; 5] = ["", "exec <&-\n", "exec >&-\n", "exec <&- >&-\n", "exec 2>&-\n"];

/// `gen [piece [delay [first]]]` : writes the case's payload to standard output with `write_all`:
/// an optional first piece of `first` bytes, then pieces of `piece` bytes (0 = all the rest at once);
/// with `delay` > 0 it sleeps that many ms of virtual time between pieces, so that a reader drains
/// what has been written before the next piece arrives.
fn gen_main(env: &mut VEnv, args: Vec<Field>) -> BuiltinFuture<'_> {
    let arg = |i: usize| -> usize { args.get(i).and_then(|f| f.value.parse().ok()).unwrap_or(0) };
    let (piece, delay, first) = (arg(0), arg(1), arg(2));
    Box::pin(async move {
        let data = PAYLOAD.with(|p| p.borrow().clone());
        let first = first.min(data.len());
        let (head, rest) = data.split_at(first);
        let piece = if piece == 0 { rest.len().max(1) } else { piece };
        let mut chunks: Vec<&[u8]> = vec![];
        if !head.is_empty() {
            chunks.push(head);
        }
        chunks.extend(rest.chunks(piece));
        for (i, chunk) in chunks.iter().enumerate() {
            if i > 0 && delay > 0 {
                env.system.sleep(Duration::from_millis(delay as u64)).await;
            }
            if env.system.write_all(Fd::STDOUT, chunk).await.is_err() {
                return ExitStatus::FAILURE.into();
            }
        }
        ExitStatus::SUCCESS.into()
    })
}

/// `ycat K D` : like `cat`, with a read buffer of K bytes; when D > 0 it sleeps D ms of virtual time
/// before every read (a process of the virtual system may only wait for what `select` knows, so the
/// delay is a `sleep`: the stage then runs only when every other process is stalled).
fn ycat_main(env: &mut VEnv, args: Vec<Field>) -> BuiltinFuture<'_> {
    let k: usize = args
        .first()
        .and_then(|f| f.value.parse().ok())
        .unwrap_or(1024)
        .max(1);
    let d: usize = args.get(1).and_then(|f| f.value.parse().ok()).unwrap_or(0);
    Box::pin(async move {
        let mut buffer = vec![0u8; k];
        loop {
            if d > 0 {
                env.system.sleep(Duration::from_millis(d as u64)).await;
            }
            match env.system.read(Fd::STDIN, &mut buffer).await {
                Ok(0) => return ExitStatus::SUCCESS.into(),
                Ok(n) => {
                    if env.system.write_all(Fd::STDOUT, &buffer[..n]).await.is_err() {
                        return ExitStatus::FAILURE.into();
                    }
                }
                Err(_) => return ExitStatus::FAILURE.into(),
            }
        }
    })
}

fn trim_nl(mut v: Vec<u8>) -> Vec<u8> {
    while v.last() == Some(&b'\n') {
        v.pop();
    }
    v
}

fn lcg(x: u64) -> u64 {
    (x * 1103515245 + 12345) % 2147483648
}

/// Builds the script for a flow; returns None if the source cannot produce this payload.
fn build_script(
    src: &str,
    shape: &str,
    kind: &str,
    data: &[u8],
    per: usize,
    seed: u64,
    st: Option<usize>,
) -> Option<String> {
    let text = match src {
        "var" | "dbl" | "here" => {
            let text = std::str::from_utf8(data).ok()?;
            if text.contains('\'') || text.contains('\0') {
                return None;
            }
            text
        }
        _ => "",
    };
    let mut x = match src {
        "file" => "{ cat </p\n}".to_string(),
        "gen" => format!("{{ gen {}\n}}", [0, 0, 1, 100, 511, 512, 513, 1500][(seed % 8) as usize]),
        "var" => format!("{{ v='{text}'; echo \"$v\"\n}}"),
        "dbl" => {
            // payload = unit of `per` bytes doubled d times
            if per == 0 || data.len() % per != 0 {
                return None;
            }
            let reps = data.len() / per;
            if !reps.is_power_of_two() {
                return None;
            }
            let d = reps.trailing_zeros() as usize;
            let unit = &text[..per];
            if data.iter().enumerate().any(|(i, b)| *b != data[i % per]) {
                return None;
            }
            let list: Vec<String> = (0..d).map(|i| i.to_string()).collect();
            if d == 0 {
                format!("{{ v='{unit}'; echo \"$v\"\n}}")
            } else {
                format!(
                    "{{ v='{unit}'; for i in {}; do v=$v$v; done; echo \"$v\"\n}}",
                    list.join(" ")
                )
            }
        }
        "here" => {
            if text.split('\n').any(|l| l == "EOF_C14") {
                return None;
            }
            format!("{{ cat <<'EOF_C14'\n{text}\nEOF_C14\n}}")
        }
        _ => return None,
    };
    let mut s = seed;
    for (depth, ch) in shape.chars().enumerate() {
        x = match ch {
            '-' => x,
            'c' => format!("{x} | cat"),
            'y' => {
                let k = 1 + s % 700;
                let d = (s / 1024) % 4;
                format!("{x} | ycat {k} {d}")
            }
            'g' => format!("( {x} )"),
            's' => format!("echo \"$( {x} )\""),
            'h' => format!("{{ cat <<EOF_H{depth}\n$( {x} )\nEOF_H{depth}\n}}"),
            _ => return None,
        };
        if ch != 'g' && ch != '-' {
            s = lcg(s);
        }
    }
    let x = match st {
        Some(n) => format!("{x}\nst {n}"),
        None => x,
    };
    Some(match kind {
        "var" => format!("x=$( {x} )"),
        // the backquote form (the flow text contains neither backquotes nor backslashes)
        "bq" => format!("x=`{x}`"),
        "file" => format!("{{ {x}\n}} >/out"),
        _ => x,
    })
}

fn show_flow(x: &[u8]) -> String {
    let tail = &x[x.len().saturating_sub(4)..];
    let hex: String = tail.iter().map(|b| format!("{b:02x}")).collect();
    format!("len={} sum={} tail={}", x.len(), hash_bytes(x), hex)
}

fn run_sh(ws: &[&str]) -> (String, String) {
    let n = kv_n(ws, "n");
    let per = kv_n(ws, "per");
    let data = payload(n, kv_n(ws, "pat"), per, kv_n(ws, "nl"));
    let src = kv(ws, "src").unwrap_or("file");
    let shape = kv(ws, "shape").unwrap_or("-");
    let kind = kv(ws, "kind").unwrap_or("out");
    let var = kind == "var" || kind == "bq";
    let pro = kv_n(ws, "pro");
    let seed = kv_n(ws, "seed") as u64;
    let st: Option<usize> = kv(ws, "st").and_then(|v| v.parse().ok());
    if st.is_some() && !var {
        return ("bad-case".into(), "-".into());
    }
    let Some(script) = build_script(src, shape, kind, &data, per, seed, st) else {
        return ("bad-case".into(), "-".into());
    };
    let Some(prologue) = PROLOGUES.get(pro) else {
        return ("bad-case".into(), "-".into());
    };
    // `neg=1`: the whole flow as a negated pipeline `! …` (the data must flow all the same)
    let neg = kv_n(ws, "neg") != 0;
    if neg && (var || st.is_some()) {
        return ("bad-case".into(), "-".into());
    }
    // `neg=2`: a negated pipeline that FAILS (`! { flow; st 5; }` -> status 0); `neg=3`: `set -n` first (noexec: the
    // pipeline is not executed at all, nothing flows)
    let negk = kv_n(ws, "neg");
    let script = match negk {
        0 => format!("{prologue}{script}"),
        1 => format!("{prologue}! {script}"),
        2 => format!("{prologue}! {{ {script}\nst 5\n}}"),
        _ => format!("{prologue}set -n\n{script}"),
    };
    // Rust-side statement of the property on this flow
    let mut want = data.clone();
    if matches!(src, "var" | "dbl" | "here") {
        want.push(b'\n');
    }
    let lossy = |v: Vec<u8>| -> Vec<u8> { String::from_utf8_lossy(&v).into_owned().into_bytes() };
    for ch in shape.chars() {
        if ch == 's' || ch == 'h' {
            want = trim_nl(lossy(want));
            want.push(b'\n');
        }
    }
    if var {
        want = trim_nl(lossy(want));
    }
    if negk == 3 {
        want.clear();
    }

    PAYLOAD.with(|p| *p.borrow_mut() = data.clone());
    let file = data.clone();
    let mut config = Config::new(&script);
    config.max_rounds = 400_000;
    let (out, value) = shell::run_with(
        config,
        move |env, state| {
            shell::write_file(state, "/p", &file);
            if state.borrow().now.is_none() {
                state.borrow_mut().now = Some(std::time::Instant::now());
            }
            env.builtins.insert("gen", Builtin::new(Type::Mandatory, gen_main));
            env.builtins.insert("ycat", Builtin::new(Type::Mandatory, ycat_main));
        },
        move |env, state| {
            if var {
                env.variables.get_scalar("x").map(|s| s.as_bytes().to_vec())
            } else {
                shell::read_file(state, "/out")
            }
        },
    );
    if out.stuck {
        return ("TIMEOUT".into(), "FAIL:deadlock".into());
    }
    let got: Vec<u8> = if kind == "out" {
        out.stdout.clone()
    } else {
        value.flatten().unwrap_or_default()
    };
    let mut obs = show_flow(&got);
    if let Some(n) = st {
        // exit status of the command substitution = status of the assignment = status of the script
        obs = format!("{obs} st={}", out.exit_status);
        if !out.stderr.is_empty() {
            obs = format!("ERR(stderr={}) {obs}", out.stderr.len());
        }
        if out.exit_status != n as i32 {
            return (obs, format!("FAIL:exit-status(got {} want {n})", out.exit_status));
        }
    } else if neg {
        obs = format!("{obs} st={}", out.exit_status);
        let want_st = if negk == 1 { 1 } else { 0 };
        if out.exit_status != want_st {
            return (obs, format!("FAIL:negated-status(got {} want {want_st})", out.exit_status));
        }
    } else if !out.stderr.is_empty() || out.exit_status != 0 {
        obs = format!("ERR(status={},stderr={}) {}", out.exit_status, out.stderr.len(), obs);
    }
    let oracle = if got == want {
        "ok".to_string()
    } else {
        let at = got
            .iter()
            .zip(want.iter())
            .position(|(a, b)| a != b)
            .unwrap_or(got.len().min(want.len()));
        format!("FAIL:data-differs-at-{at}(got {} want {})", got.len(), want.len())
    };
    (obs, oracle)
}


/// (ii-c) descriptor choreography: the same flows with `fdsnap` inside every child, under a
/// descriptor-state prologue.  Observation: the children's descriptor tables + the value delivered.
fn run_fd(ws: &[&str]) -> (String, String) {
    let n = kv_n(ws, "n");
    let data = payload(n, kv_n(ws, "pat"), 0, kv_n(ws, "nl"));
    let form = kv(ws, "form").unwrap_or("subst");
    let pro = kv_n(ws, "pro");
    let Some(prologue) = PROLOGUES.get(pro) else {
        return ("bad-case".into(), "-".into());
    };
    let pipeline = |k: usize| -> String {
        let mut parts = vec!["{ fdsnap 0; gen\n}".to_string()];
        for i in 1..k {
            if i + 1 == k {
                parts.push(format!("{{ fdsnap {i}; cat >/out\n}}"));
            } else {
                parts.push(format!("{{ fdsnap {i}; cat\n}}"));
            }
        }
        parts.join(" | ")
    };
    // (script, value is in the variable x, expected value)
    let trimmed = trim_nl(data.clone());
    let mut trimmed_nl = trimmed.clone();
    trimmed_nl.push(b'\n');
    let (body, var, want) = match form {
        "subst" => ("x=$( fdsnap 0; gen )".to_string(), true, trimmed.clone()),
        "nest" => (
            "x=$( fdsnap 0; echo \"$( fdsnap 1; gen )\" )".to_string(),
            true,
            trimmed.clone(),
        ),
        "pipe2" => (pipeline(2), false, data.clone()),
        "pipe3" => (pipeline(3), false, data.clone()),
        "pipe4" => (pipeline(4), false, data.clone()),
        "substpipe" => (
            "x=$( fdsnap 9; { fdsnap 0; gen\n} | { fdsnap 1; cat\n} )".to_string(),
            true,
            trimmed.clone(),
        ),
        "pipesubst" => (
            "{ fdsnap 0; gen\n} | { fdsnap 1; x=$( fdsnap 2; cat ); echo \"$x\" >/out\n}".to_string(),
            false,
            trimmed_nl.clone(),
        ),
        _ => return ("bad-case".into(), "-".into()),
    };
    // `mon=1`: job control on, a pipeline then runs inside one foreground subshell
    let monitor = if kv_n(ws, "mon") != 0 { "set -m\n" } else { "" };
    let script = format!("{monitor}{prologue}{body}");
    PAYLOAD.with(|p| *p.borrow_mut() = data.clone());
    SNAPS.with(|m| m.borrow_mut().clear());
    let mut config = Config::new(&script);
    config.max_rounds = 400_000;
    let (out, value) = shell::run_with(
        config,
        move |env, state| {
            STATE.with(|st| *st.borrow_mut() = Some(Rc::clone(state)));
            env.builtins.insert("gen", Builtin::new(Type::Mandatory, gen_main));
            env.builtins.insert("fdsnap", Builtin::new(Type::Mandatory, fdsnap_main));
        },
        move |env, state| {
            if var {
                env.variables.get_scalar("x").map(|s| s.as_bytes().to_vec())
            } else {
                shell::read_file(state, "/out")
            }
        },
    );
    STATE.with(|st| *st.borrow_mut() = None);
    if out.stuck {
        return ("TIMEOUT".into(), "FAIL:deadlock".into());
    }
    let got: Vec<u8> = value.flatten().unwrap_or_default();
    let snaps: Vec<String> = SNAPS.with(|m| {
        m.borrow()
            .iter()
            .map(|(k, v)| format!("{k}={v}"))
            .collect()
    });
    let mut obs = format!("{} {}", snaps.join(" "), show_flow(&got));
    if !out.stderr.is_empty() || out.exit_status != 0 {
        obs = format!("ERR(status={},stderr={}) {}", out.exit_status, out.stderr.len(), obs);
    }
    // the property statement, directly: the value arrives (which needs every child connected)
    let oracle = if got == want {
        "ok".to_string()
    } else {
        format!("FAIL:data(got {} want {})", got.len(), want.len())
    };
    (obs, oracle)
}


// ------------------------------------------------------------------------------------------
// (ii-d) here-documents: generated bodies delivered to readers, exact bytes observed

const ASCII_TAB: &str = "abcdefghijklmnopqrstuvwxyzABC 0123456789.,:;+=_/[]";

fn hd_char(cls: usize, i: usize) -> char {
    let c = if cls == 4 { i % 4 } else { cls };
    match c {
        1 => char::from_u32((0xC0 + (i * 5) % 0x80) as u32).unwrap(),
        2 => char::from_u32((0x6771 + (i * 3) % 200) as u32).unwrap(),
        3 => char::from_u32((0x1F600 + i % 60) as u32).unwrap(),
        5 if i % 5 == 3 => '\\',
        _ => ASCII_TAB.as_bytes()[(i * 7 + i / 13) % 50] as char,
    }
}

fn hd_body(n: usize, cls: usize, ll: usize) -> String {
    (0..n)
        .map(|i| if i + 1 == n || i % ll == ll - 1 { '\n' } else { hd_char(cls, i) })
        .collect()
}

fn hd_value(vn: usize, cls: usize) -> String {
    (0..vn).map(|i| hd_char(cls, i + 1000)).collect()
}

thread_local! {
    static HVALUE: RefCell<String> = const { RefCell::new(String::new()) };
}

/// `hgen` : writes the expansion value followed by two newlines (which `$( )` removes again).
fn hgen_main(env: &mut VEnv, _args: Vec<Field>) -> BuiltinFuture<'_> {
    Box::pin(async move {
        let text = HVALUE.with(|v| format!("{}\n\n", v.borrow()));
        match env.system.write_all(Fd::STDOUT, text.as_bytes()).await {
            Ok(_) => ExitStatus::SUCCESS.into(),
            Err(_) => ExitStatus::FAILURE.into(),
        }
    })
}

/// `hhead K` : one `read` of K bytes from standard input, copied to standard output (a reader that
/// stops early, possibly in the middle of a character).
fn hhead_main(env: &mut VEnv, args: Vec<Field>) -> BuiltinFuture<'_> {
    let k: usize = args.first().and_then(|f| f.value.parse().ok()).unwrap_or(0);
    Box::pin(async move {
        let mut buffer = vec![0u8; k];
        match env.system.read(Fd::STDIN, &mut buffer).await {
            Ok(n) => match env.system.write_all(Fd::STDOUT, &buffer[..n]).await {
                Ok(_) => ExitStatus::SUCCESS.into(),
                Err(_) => ExitStatus::FAILURE.into(),
            },
            Err(_) => ExitStatus::FAILURE.into(),
        }
    })
}

fn show_bytes(x: &[u8]) -> String {
    let hex = |b: &[u8]| -> String { b.iter().map(|b| format!("{b:02x}")).collect() };
    format!(
        "len={} sum={} head={} tail={}",
        x.len(),
        hash_bytes(x),
        hex(&x[..x.len().min(8)]),
        hex(&x[x.len().saturating_sub(8)..])
    )
}

fn first_line(b: &[u8]) -> Vec<u8> {
    match b.iter().position(|c| *c == b'\n') {
        Some(p) => b[..=p].to_vec(),
        None => b.to_vec(),
    }
}

/// POSIX `read` without -r, line by line with `IFS=`: what the loop `echo`es (complete lines only).
fn non_raw_lines(b: &[u8]) -> Vec<u8> {
    let mut out = vec![];
    let mut line = vec![];
    let mut i = 0;
    while i < b.len() {
        match b[i] {
            b'\n' => {
                out.extend_from_slice(&line);
                out.push(b'\n');
                line.clear();
                i += 1;
            }
            b'\\' => {
                if i + 1 >= b.len() {
                    break;
                }
                if b[i + 1] != b'\n' {
                    line.push(b[i + 1]);
                }
                i += 2;
            }
            c => {
                line.push(c);
                i += 1;
            }
        }
    }
    out
}

fn run_hd(ws: &[&str]) -> (String, String) {
    let n = kv_n(ws, "n");
    let cls = kv_n(ws, "cls");
    let ll = kv_n(ws, "ll").max(1);
    let quoted = kv_n(ws, "q") != 0;
    let dash = kv_n(ws, "dash") != 0;
    let exp = if n == 0 { 0 } else { kv_n(ws, "exp") };
    let rd = kv(ws, "rd").unwrap_or("cat");
    let k = kv_n(ws, "k");
    let via = kv(ws, "via").unwrap_or("b");
    let multi = kv_n(ws, "multi") != 0;
    if cls == 5 && (!quoted || exp != 0) {
        return ("bad-case".into(), "-".into()); // backslashes stay literal only under a quoted delimiter
    }
    let body = hd_body(n, cls, ll);
    let value = hd_value(kv_n(ws, "vn"), cls);
    let split = body.char_indices().nth(n / 2).map(|x| x.0).unwrap_or(body.len());
    let (lit1, lit2) = body.split_at(split);
    // what is written in the script, and what the shell must deliver
    let (source, expanded) = match (exp, quoted) {
        (0, _) => (body.clone(), body.clone()),
        (1, true) => (format!("{lit1}${{v}}{lit2}"), format!("{lit1}${{v}}{lit2}")),
        (_, true) => (format!("{lit1}$(hgen){lit2}"), format!("{lit1}$(hgen){lit2}")),
        (1, false) => (format!("{lit1}${{v}}{lit2}"), format!("{lit1}{value}{lit2}")),
        (_, false) => (format!("{lit1}$(hgen){lit2}"), format!("{lit1}{value}{lit2}")),
    };
    let body2 = hd_body(n * 3 / 4 + 5, (cls + 1) % 5, ll);
    if source.split('\n').any(|l| l.trim_start_matches('\t') == "END_C14") {
        return ("bad-case".into(), "-".into());
    }
    // `<<-`: every source line (and the delimiter) gets leading tabs, which the shell must strip
    let source = if dash {
        let mut out = String::new();
        for (j, line) in source.split_inclusive('\n').enumerate() {
            out.push_str(if j % 2 == 0 { "\t" } else { "\t\t" });
            out.push_str(line);
        }
        out
    } else {
        source
    };
    let reader = match rd {
        "cat" => "cat".to_string(),
        "read" => "while IFS= read -r l; do echo \"$l\"; done".to_string(),
        "mix" => "IFS= read -r l; echo \"$l\"; cat".to_string(),
        "stop" => "IFS= read -r l; echo \"$l\"".to_string(),
        // without -r: backslash-newline continues the line, a backslash quotes the next character
        "nr" => "while IFS= read l; do echo \"$l\"; done".to_string(),
        "head" => format!("hhead {k}"),
        _ => return ("bad-case".into(), "-".into()),
    };
    let reader = if multi { format!("{reader}; cat <&3") } else { reader };
    let op = format!(
        "<<{}{}{}",
        if dash { "-" } else { "" },
        if quoted { "'END_C14'" } else { "END_C14" },
        if multi { " 3<<'END2_C14'" } else { "" }
    );
    let first = match via {
        "b" => format!("{{ {reader}; }} >/out {op}"),
        "s" => format!("( {reader} ) >/out {op}"),
        "f" => format!("f() {{ {reader}; }}\nf >/out {op}"),
        "p" => format!("{{ {reader}; }} {op} | cat >/out"),
        _ => return ("bad-case".into(), "-".into()),
    };
    let mut script = format!("v='{value}'\n{first}\n{source}{}END_C14\n", if dash { "\t" } else { "" });
    if multi {
        script.push_str(&body2);
        script.push_str("END2_C14\n");
    }
    // the property statement, directly: the reader finds exactly the bytes of the expanded body
    let b = expanded.as_bytes();
    let mut want: Vec<u8> = match rd {
        "nr" => non_raw_lines(b),
        "mix" => if b.is_empty() { b"\n".to_vec() } else { b.to_vec() },
        "stop" => if b.is_empty() { b"\n".to_vec() } else { first_line(b) },
        "head" => b[..k.min(b.len())].to_vec(),
        _ => b.to_vec(),
    };
    if multi {
        want.extend_from_slice(body2.as_bytes());
    }
    HVALUE.with(|v| *v.borrow_mut() = value.clone());
    let mut config = Config::new(&script);
    config.max_rounds = 400_000;
    let (out, value) = shell::run_with(
        config,
        |env, _| {
            env.builtins.insert("hgen", Builtin::new(Type::Mandatory, hgen_main));
            env.builtins.insert("hhead", Builtin::new(Type::Mandatory, hhead_main));
        },
        |_, state| shell::read_file(state, "/out"),
    );
    if out.stuck {
        return ("TIMEOUT".into(), "FAIL:deadlock".into());
    }
    let got: Vec<u8> = value.flatten().unwrap_or_default();
    let mut obs = show_bytes(&got);
    if !out.stderr.is_empty() || out.exit_status != 0 {
        obs = format!("ERR(status={},stderr={}) {}", out.exit_status, out.stderr.len(), obs);
    }
    let oracle = if got == want {
        "ok".to_string()
    } else {
        let at = got
            .iter()
            .zip(want.iter())
            .position(|(a, b)| a != b)
            .unwrap_or(got.len().min(want.len()));
        format!("FAIL:bytes-differ-at-{at}(got {} want {})", got.len(), want.len())
    };
    (obs, oracle)
}

fn gen_hd(rng: &mut Rng, n: usize) -> String {
    let cls = rng.below(6);
    let ll = *rng.pick(&[1, 2, 7, 40, 80, 200, 1000]);
    let q = if cls == 5 { 1 } else { rng.below(2) };
    let dash = if rng.chance(1, 3) { 1 } else { 0 };
    let exp = if cls == 5 { 0 } else { *rng.pick(&[0, 0, 1, 2]) };
    let rd = if cls == 5 && rng.chance(2, 3) {
        "nr"
    } else {
        *rng.pick(&["cat", "cat", "read", "mix", "stop", "head", "nr"])
    };
    // `read` works byte by byte: keep its bodies moderate
    let n = if (rd == "read" || rd == "mix" || rd == "nr") && n > 1500 { n % 1500 } else { n };
    let k = *rng.pick(&[0, 1, 2, 3, 5, 100, PIPE_BUF, PIPE_SIZE, PIPE_SIZE + 1, 5000]);
    let via = *rng.pick(&["b", "s", "f", "p"]);
    let multi = if rng.chance(1, 4) { 1 } else { 0 };
    let vn = *rng.pick(&[0, 1, 5, 60, 700]);
    format!("hd n={n} cls={cls} ll={ll} q={q} dash={dash} exp={exp} rd={rd} k={k} via={via} multi={multi} vn={vn}")
}


// ------------------------------------------------------------------------------------------
// (ii-e) a lowered descriptor limit: pipe / temporary-file creation failures (EMFILE paths)

/// `cat3` : copies standard input to descriptor 3 (opened by `exec 3>/out` before the limit is lowered,
/// so that the consumer needs no redirection of its own).
fn cat3_main(env: &mut VEnv, _args: Vec<Field>) -> BuiltinFuture<'_> {
    Box::pin(async move {
        let mut buffer = [0u8; 1024];
        loop {
            match env.system.read(Fd::STDIN, &mut buffer).await {
                Ok(0) => return ExitStatus::SUCCESS.into(),
                Ok(n) => {
                    if env.system.write_all(Fd(3), &buffer[..n]).await.is_err() {
                        return ExitStatus::FAILURE.into();
                    }
                }
                Err(_) => return ExitStatus::FAILURE.into(),
            }
        }
    })
}

fn run_lim(ws: &[&str]) -> (String, String) {
    let n = kv_n(ws, "n");
    let data = payload(n, kv_n(ws, "pat"), 0, kv_n(ws, "nl"));
    let form = kv(ws, "form").unwrap_or("subst");
    let pro = kv_n(ws, "pro");
    let limit = kv_n(ws, "lim");
    let Some(prologue) = PROLOGUES.get(pro) else {
        return ("bad-case".into(), "-".into());
    };
    let Ok(text) = std::str::from_utf8(&data) else {
        return ("bad-case".into(), "-".into());
    };
    let trimmed = trim_nl(data.clone());
    let mut with_nl = data.clone();
    with_nl.push(b'\n');
    let (body, var, want) = match form {
        "subst" => ("x=$(gen)".to_string(), true, trimmed.clone()),
        "nest" => ("x=$(echo \"$(gen)\")".to_string(), true, trimmed.clone()),
        "pipe2" => ("gen | cat3".to_string(), false, data.clone()),
        "pipe3" => ("gen | cat | cat3".to_string(), false, data.clone()),
        "pipe4" => ("gen | cat | cat | cat3".to_string(), false, data.clone()),
        "here" => (format!("cat3 <<'EOF_C14'\n{text}\nEOF_C14"), false, with_nl.clone()),
        _ => return ("bad-case".into(), "-".into()),
    };
    let script = format!("exec 3>/out\n{prologue}ulimit -n {limit}\n{body}\n");
    PAYLOAD.with(|p| *p.borrow_mut() = data.clone());
    let mut config = Config::new(&script);
    config.max_rounds = 400_000;
    let (out, value) = shell::run_with(
        config,
        move |env, _| {
            env.builtins.insert("gen", Builtin::new(Type::Mandatory, gen_main));
            env.builtins.insert("cat3", Builtin::new(Type::Mandatory, cat3_main));
        },
        move |env, state| {
            if var {
                env.variables.get_scalar("x").map(|s| s.as_bytes().to_vec())
            } else {
                shell::read_file(state, "/out")
            }
        },
    );
    if out.stuck {
        return ("TIMEOUT".into(), "FAIL:deadlock".into());
    }
    let got: Vec<u8> = value.flatten().unwrap_or_default();
    let obs = format!("st={} {}", out.exit_status, show_flow(&got));
    // the property statement, directly: either the data arrives complete or the failure is reported
    // (non-zero status) and nothing wrong is delivered
    let oracle = if out.exit_status == 0 {
        if got == want { "ok".to_string() } else { format!("FAIL:data(got {} want {})", got.len(), want.len()) }
    } else if got.is_empty() || want.starts_with(&got) {
        "ok".to_string()
    } else {
        "FAIL:wrong-data-after-failure".to_string()
    };
    (obs, oracle)
}


// ------------------------------------------------------------------------------------------
// (ii-f) the `read` built-in on a pipe: complete line, end of input, bytes that are not UTF-8, NUL

fn rd_payload(n: usize, bad: usize) -> Vec<u8> {
    let mut body: Vec<u8> = (0..n)
        .map(|i| {
            if i == n / 2 && bad == 1 {
                0xFF
            } else if i == n / 2 && bad == 3 {
                0
            } else if i == n / 2 && bad == 4 {
                b'\\'
            } else {
                alpha(97, i, 7)
            }
        })
        .collect();
    match bad {
        2 => body.push(0xE6),
        5 => (),
        6 => body.push(b'\\'), // a backslash as the very last byte
        _ => body.push(b'\n'),
    }
    body
}

fn run_rd(ws: &[&str]) -> (String, String) {
    let n = kv_n(ws, "n");
    let bad = kv_n(ws, "bad");
    let raw = kv_n(ws, "raw") != 0;
    let data = rd_payload(n, bad);
    let script = format!(
        "gen | {{ IFS= read {}l; echo \"$?:$l\" >/out; }}",
        if raw { "-r " } else { "" }
    );
    PAYLOAD.with(|p| *p.borrow_mut() = data.clone());
    let (out, value) = shell::run_with(
        Config::new(&script),
        |env, _| {
            env.builtins.insert("gen", Builtin::new(Type::Mandatory, gen_main));
        },
        |_, state| shell::read_file(state, "/out"),
    );
    if out.stuck {
        return ("TIMEOUT".into(), "FAIL:deadlock".into());
    }
    let got: Vec<u8> = value.flatten().unwrap_or_default();
    // the statement, directly: a well-formed line arrives byte for byte; malformed input is refused
    let line = &data[..data.len().saturating_sub(1)];
    // with n = 0 there is no middle byte to spoil
    let bad = if n == 0 && matches!(bad, 1 | 3 | 4) { 0 } else { bad };
    let oracle = match bad {
        0 => {
            let mut want = b"0:".to_vec();
            want.extend_from_slice(line);
            want.push(b'\n');
            if got == want { "ok".to_string() } else { "FAIL:line-differs".to_string() }
        }
        1 | 2 | 3 => if got == b"3:\n" { "ok".to_string() } else { "FAIL:malformed-input-accepted".to_string() },
        _ => "-".to_string(),
    };
    (show_bytes(&got), oracle)
}


// ------------------------------------------------------------------------------------------
// (ii-g) `read` on a pipe whose data arrives in pieces that cut multi-byte characters

fn rp_filler(k: usize, salt: usize) -> Vec<u8> {
    (0..k).map(|i| alpha(97, i + salt, 7)).collect()
}

fn rp_char(cs: usize) -> &'static [u8] {
    match cs {
        // wave 3: backslash sequences of the non-raw reader: continuation, escaped backslash, escaped letter
        5 => b"\\\n",
        6 => b"\\\\",
        7 => b"\\x",
        2 => "\u{e9}".as_bytes(),
        3 => "\u{6771}".as_bytes(),
        _ => "\u{1F600}".as_bytes(),
    }
}

/// (line 1, line 2, leftover): line 1 has three `cs`-byte characters starting `d` bytes before byte `b`
fn rp_parts(b: usize, d: usize, cs: usize) -> (Vec<u8>, Vec<u8>, Vec<u8>) {
    let m = rp_char(cs);
    let mut l1 = rp_filler(b.saturating_sub(d), 0);
    for _ in 0..3 {
        l1.extend_from_slice(m);
    }
    l1.extend_from_slice(&rp_filler(5, 3));
    let mut l2 = b"two".to_vec();
    l2.extend_from_slice(m);
    let mut rest = b"rest".to_vec();
    rest.extend_from_slice(m);
    rest.extend_from_slice(b"\ntail");
    (l1, l2, rest)
}

fn run_rp(ws: &[&str]) -> (String, String) {
    let (b, d, cs) = (kv_n(ws, "b"), kv_n(ws, "d"), kv_n(ws, "cs"));
    let (first, piece, dl) = (kv_n(ws, "first"), kv_n(ws, "piece"), kv_n(ws, "dl"));
    let raw = kv_n(ws, "raw") != 0;
    let (l1, l2, rest) = rp_parts(b, d, cs);
    let mut data = l1.clone();
    data.push(b'\n');
    data.extend_from_slice(&l2);
    data.push(b'\n');
    data.extend_from_slice(&rest);
    let r = if raw { "-r " } else { "" };
    let script = format!(
        "gen {piece} {dl} {first} | {{ IFS= read {r}a; s1=$?; IFS= read {r}b; s2=$?; echo \"$s1:$a\"; echo \"$s2:$b\"; cat; }} >/out"
    );
    PAYLOAD.with(|p| *p.borrow_mut() = data.clone());
    let mut config = Config::new(&script);
    config.max_rounds = 400_000;
    let (out, value) = shell::run_with(
        config,
        |env, state| {
            if state.borrow().now.is_none() {
                state.borrow_mut().now = Some(std::time::Instant::now());
            }
            env.builtins.insert("gen", Builtin::new(Type::Mandatory, gen_main));
        },
        |_, state| shell::read_file(state, "/out"),
    );
    if out.stuck {
        return ("TIMEOUT".into(), "FAIL:deadlock".into());
    }
    let got: Vec<u8> = value.flatten().unwrap_or_default();
    // the statement, directly: both lines and the leftover arrive byte for byte, statuses 0
    let mut want = b"0:".to_vec();
    want.extend_from_slice(&l1);
    want.extend_from_slice(b"\n0:");
    want.extend_from_slice(&l2);
    want.push(b'\n');
    want.extend_from_slice(&rest);
    let oracle = if cs >= 5 {
        // backslash sequences: what the lines are depends on `-r`; the model's Spec column says it
        "-".to_string()
    } else if got == want {
        "ok".to_string()
    } else {
        let at = got
            .iter()
            .zip(want.iter())
            .position(|(a, b)| a != b)
            .unwrap_or(got.len().min(want.len()));
        format!("FAIL:bytes-differ-at-{at}(got {} want {})", got.len(), want.len())
    };
    (show_bytes(&got), oracle)
}


// ------------------------------------------------------------------------------------------
// (ii-h) two writers on one pipe

/// `emit X N [piece]` : writes N bytes `X0 X1 X2 …` (letter X upper-cased for even, lower for odd
/// positions is not needed: the byte is the letter itself), whole or in pieces, with `write_all`.
fn emit_main(env: &mut VEnv, args: Vec<Field>) -> BuiltinFuture<'_> {
    let letter = args.first().and_then(|f| f.value.bytes().next()).unwrap_or(b'A');
    let n: usize = args.get(1).and_then(|f| f.value.parse().ok()).unwrap_or(0);
    let piece: usize = args.get(2).and_then(|f| f.value.parse().ok()).unwrap_or(0);
    Box::pin(async move {
        // A writes A..Z cyclically from its letter, so that order inside one writer's stream is visible
        let base = if letter.is_ascii_uppercase() { b'A' } else { b'a' };
        let data: Vec<u8> = (0..n).map(|i| base + ((i % 26) as u8)).collect();
        let piece = if piece == 0 { data.len().max(1) } else { piece };
        for chunk in data.chunks(piece) {
            if env.system.write_all(Fd::STDOUT, chunk).await.is_err() {
                return ExitStatus::FAILURE.into();
            }
        }
        ExitStatus::SUCCESS.into()
    })
}

fn run_tw(ws: &[&str]) -> (String, String) {
    let n = kv_n(ws, "n");
    let piece = kv_n(ws, "piece");
    let m = kv(ws, "m").and_then(|v| v.parse().ok()).unwrap_or(n);
    let w = if kv_n(ws, "nowait") != 0 { "" } else { "; wait" };
    let script = format!("{{ emit A {n} {piece} & emit a {m} {piece}{w}; }} | cat >/out");
    let mut config = Config::new(&script);
    config.max_rounds = 400_000;
    let (out, value) = shell::run_with(
        config,
        |env, _| {
            env.builtins.insert("emit", Builtin::new(Type::Mandatory, emit_main));
        },
        |_, state| shell::read_file(state, "/out"),
    );
    if out.stuck {
        return ("TIMEOUT".into(), "FAIL:deadlock".into());
    }
    let got: Vec<u8> = value.flatten().unwrap_or_default();
    // each writer's bytes arrive complete and in that writer's order
    let in_order = |upper: bool| -> bool {
        let base = if upper { b'A' } else { b'a' };
        let mine: Vec<u8> = got.iter().copied().filter(|b| b.is_ascii_uppercase() == upper).collect();
        mine.len() == (if upper { n } else { m }) && mine.iter().enumerate().all(|(i, b)| *b == base + (i % 26) as u8)
    };
    // pieces of at most PIPE_BUF bytes are atomic: wherever the output switches from one writer to the
    // other, the bytes of the writer that was interrupted are a whole number of its pieces (or all)
    let atomic = if piece == 0 || piece > PIPE_BUF {
        true
    } else {
        let mut counts = [0usize; 2];
        let mut ok = true;
        for i in 0..got.len() {
            let who = got[i].is_ascii_uppercase() as usize;
            counts[who] += 1;
            let switches = i + 1 < got.len() && (got[i + 1].is_ascii_uppercase() as usize) != who;
            let total = if who == 1 { n } else { m };
            if switches && counts[who] % piece != 0 && counts[who] != total {
                ok = false;
            }
        }
        ok
    };
    let obs = format!(
        "len={} A={} a={} atomic={}",
        got.len(),
        if in_order(true) { "ok" } else { "bad" },
        if in_order(false) { "ok" } else { "bad" },
        if atomic { "ok" } else { "bad" }
    );
    let oracle = if got.len() == n + m && in_order(true) && in_order(false) && atomic {
        "ok"
    } else {
        "FAIL:two-writers-data"
    };
    (obs, oracle.into())
}

// ------------------------------------------------------------------------------------------
// case generation

/// payload sizes 0 … 4×PIPE_SIZE around every PIPE_BUF boundary (±2)
fn boundary_payload_sizes() -> Vec<usize> {
    let mut v = vec![0usize, 1, 2, 3, 5, 100];
    let mut b = PIPE_BUF;
    while b <= 4 * PIPE_SIZE {
        for d in -2i64..=2 {
            let x = b as i64 + d;
            if x >= 0 && x as usize <= 4 * PIPE_SIZE + 2 {
                v.push(x as usize);
            }
        }
        b += PIPE_BUF;
    }
    v.sort();
    v.dedup();
    v
}

fn gen_xfer(rng: &mut Rng, n: usize) -> String {
    let wks = [0, 0, 0, 1, 100, PIPE_BUF - 1, PIPE_BUF, PIPE_BUF + 1, 700, PIPE_SIZE, PIPE_SIZE + 1, 3000];
    let rks = [0, 0, 1, 7, PIPE_BUF - 1, PIPE_BUF, PIPE_BUF + 1, PIPE_SIZE, PIPE_SIZE + 1, 5000];
    let mut wk = *rng.pick(&wks);
    let mut rk = *rng.pick(&rks);
    if n > 1500 && wk == 1 {
        wk = 3;
    }
    if n > 1500 && rk == 1 {
        rk = 5;
    }
    let pat = [3, 3, 1, 0][rng.below(4)];
    let nl = if pat == 3 { 0 } else { rng.below(4).min(n) };
    format!(
        "xfer n={n} pat={pat} per=0 nl={nl} wk={wk} rk={rk} seed={}",
        rng.below(1_000_000)
    )
}

/// a reader that stops after K bytes: either the writer cannot finish (EPIPE) or K covers everything
fn gen_xfer_stop(rng: &mut Rng) -> String {
    let k = *rng.pick(&[0, 1, 5, PIPE_BUF - 1, PIPE_BUF, PIPE_SIZE, PIPE_SIZE + 1, 2000]);
    let n = if rng.chance(3, 4) {
        k + PIPE_SIZE + 1 + rng.below(2 * PIPE_SIZE)
    } else {
        rng.below(k + 1)
    };
    let wk = *rng.pick(&[0, 0, 100, PIPE_BUF, PIPE_BUF + 1, 700, PIPE_SIZE + 1]);
    let rk = *rng.pick(&[0, 7, PIPE_BUF, PIPE_SIZE + 1]);
    format!(
        "xfer n={n} pat=3 per=0 nl=0 wk={wk} rk={rk} stop={k} seed={}",
        rng.below(1_000_000)
    )
}

fn gen_sh(rng: &mut Rng, n: usize) -> String {
    let srcs = ["file", "gen", "var", "here", "file", "gen"];
    let src = *rng.pick(&srcs);
    let mut pat = [0, 1, 2, 5, 1, 5, 6][rng.below(7)];
    if pat == 6 && !(src == "gen" || src == "file") {
        pat = 1;
    }
    // 0-5 trailing newlines, sometimes more than PIPE_BUF / PIPE_SIZE of them
    let nl = [0, 0, 1, 2, 5, 3, PIPE_BUF + 88, PIPE_SIZE + 476][rng.below(8)].min(n);
    // 1–4 pipeline stages, command substitutions, here-documents, groups
    let shapes = [
        "c", "cc", "ccc", "cccc", "y", "yc", "cyc", "yyyy", "-", "s", "ss", "cs", "sc", "csc", "gc", "cgs", "h", "hc",
        "ch", "sh", "ycsy", "cscs",
    ];
    let shape = *rng.pick(&shapes);
    // descriptor state of the shell when the flow starts: mostly all open
    let pro = if rng.chance(1, 2) { 0 } else { 1 + rng.below(4) };
    let kind = if pro == 2 || pro == 3 {
        *rng.pick(&["var", "file", "bq"]) // standard output is closed
    } else {
        *rng.pick(&["var", "out", "file", "var", "bq"])
    };
    // the backquote form cannot carry the nested quoting of `s`/`h` shapes or here-document sources
    let kind = if kind == "bq" && (shape.contains('s') || shape.contains('h') || src == "here") {
        "var"
    } else {
        kind
    };
    let st = if (kind == "var" || kind == "bq") && rng.chance(1, 3) {
        format!(" st={}", *rng.pick(&[0, 1, 7, 42, 127, 255]))
    } else {
        String::new()
    };
    let neg = if (kind == "out" || kind == "file") && rng.chance(1, 5) { " neg=1" } else { "" };
    format!(
        "sh n={n} pat={pat} per=0 nl={nl} src={src} shape={shape} kind={kind} pro={pro} seed={}{st}{neg}",
        rng.below(1_000_000)
    )
}

fn gen_dbl(rng: &mut Rng) -> String {
    let per = 1 + rng.below(64);
    let max_d = (0..14).take_while(|d| per << d <= 4 * PIPE_SIZE + PIPE_BUF).count();
    let d = rng.below(max_d.max(1));
    let n = per << d;
    let shape = *rng.pick(&["c", "cc", "s", "cs", "-", "yc"]);
    let kind = if rng.chance(1, 2) { "var" } else { "out" };
    format!(
        "sh n={n} pat=4 per={per} nl=0 src=dbl shape={shape} kind={kind} seed={}",
        rng.below(1_000_000)
    )
}

/// Appended to the case text of a two-writer case whose verdict is exactly the known deadlock of the
/// simulated system (check.py matches known findings on the case text only); ignored when read.
const KNOWN_MARK: &str = "; !kf-two-writers-deadlock";

fn run_case(case: &str) -> (String, String) {
    let case = case.strip_suffix(KNOWN_MARK).unwrap_or(case);
    let ws: Vec<&str> = case.split_whitespace().collect();
    match ws.first() {
        Some(&"xfer") => run_xfer(&ws[1..]),
        Some(&"sh") => run_sh(&ws[1..]),
        Some(&"fd") => run_fd(&ws[1..]),
        Some(&"hd") => run_hd(&ws[1..]),
        Some(&"lim") => run_lim(&ws[1..]),
        Some(&"rd") => run_rd(&ws[1..]),
        Some(&"rp") => run_rp(&ws[1..]),
        Some(&"tw") => run_tw(&ws[1..]),
        Some(&"bwr") => run_bwr(&ws[1..]),
        _ => run_ops(case),
    }
}

fn main() {
    quiet_panics();
    let opts = Opts::from_args();
    let mut index = 0usize;
    let mut run = |case: &str, fixed: bool| {
        let mine = fixed || index % opts.shard.1 == opts.shard.0;
        index += 1;
        if !mine {
            return;
        }
        let oracle = Cell::new(String::from("-"));
        let obs = guarded(|| {
            let (o, v) = run_case(case);
            oracle.set(v);
            o
        });
        let v = oracle.take();
        let bare = case.strip_suffix(KNOWN_MARK).unwrap_or(case);
        if bare.starts_with("tw ") && obs == "TIMEOUT" && v == "FAIL:deadlock" {
            // exactly the known finding: two writers on one pipe, nothing delivered wrongly, stuck
            emit(&format!("{bare}{KNOWN_MARK}"), &obs, &v);
        } else {
            emit(bare, &obs, if obs.starts_with("PANIC") { "FAIL:panic" } else { &v });
        }
    };

    let (fixed, only) = opts.fixed_cases();
    for c in &fixed {
        // corpus cases are run by shard 0 only
        if only || opts.shard.0 == 0 {
            run(c, true);
        }
    }
    if only {
        return;
    }
    let thorough = opts.thorough();
    let mut rng = Rng::new(opts.seed ^ 0xC14);

    // (i) operation sequences
    let n_ops = if thorough { 120_000 } else { 6_000 };
    for _ in 0..n_ops {
        let len = 4 + rng.below(if thorough { 60 } else { 36 });
        let case = gen_ops(&mut rng, len);
        run(&case, false);
    }

    // (ii-a) transfers through Concurrent: every boundary size × schedules, plus random sizes
    let sizes = boundary_payload_sizes();
    let scheds = if thorough { 400 } else { 25 };
    for &n in &sizes {
        for _ in 0..scheds {
            let case = gen_xfer(&mut rng, n);
            run(&case, false);
        }
    }
    for _ in 0..(if thorough { 25_000 } else { 600 }) {
        let n = rng.below(4 * PIPE_SIZE + 3);
        let case = gen_xfer(&mut rng, n);
        run(&case, false);
    }

    for _ in 0..(if thorough { 4_000 } else { 150 }) {
        let case = gen_xfer_stop(&mut rng);
        run(&case, false);
    }
    run("xfer mode=rderr", false);
    // two virtual processes under `run_virtual` (wakers registered in the FIFO, no `peek`)
    for &n in &sizes {
        for _ in 0..(if thorough { 40 } else { 3 }) {
            let case = gen_xfer(&mut rng, n);
            run(&format!("{case} mode=proc"), false);
        }
    }
    for _ in 0..(if thorough { 4_000 } else { 150 }) {
        let n = rng.below(4 * PIPE_SIZE + 3);
        let case = gen_xfer(&mut rng, n);
        run(&format!("{case} mode=proc"), false);
    }

    // (ii-c) descriptor choreography: every prologue x every form x sizes
    let forms = ["subst", "nest", "pipe2", "pipe3", "pipe4", "substpipe", "pipesubst"];
    let fd_sizes: Vec<usize> = if thorough {
        sizes.clone()
    } else {
        vec![0, 3, PIPE_BUF + 1, PIPE_SIZE, PIPE_SIZE + 1, 3 * PIPE_SIZE + 2]
    };
    for pro in 0..5 {
        for form in forms {
            for &n in &fd_sizes {
                let pat = [0, 1, 5][rng.below(3)];
                let nl = rng.below(3).min(n);
                let case = format!("fd pro={pro} form={form} n={n} pat={pat} nl={nl}");
                run(&case, false);
                if form.contains("pipe") && (thorough || n <= PIPE_SIZE) {
                    run(&format!("{case} mon=1"), false);
                }
            }
        }
    }

    // (ii-h) two writers on one pipe (one pipeline stage `{ w1 & w2; wait; }`): sizes around PIPE_BUF and
    // PIPE_SIZE; some combinations deadlock in the simulated system (known finding, marked in the case text)
    if thorough {
        for n in [10usize, 600, PIPE_SIZE + 1, 3000, 5000] {
            for m in [10usize, 600, PIPE_SIZE + 1, 2000, 5000] {
                for piece in [0usize, 100, 600] {
                    for nowait in 0..2 {
                        run(&format!("tw n={n} piece={piece} m={m} nowait={nowait}"), false);
                    }
                }
            }
        }
    } else {
        let tw_sizes = [1usize, PIPE_BUF - 1, PIPE_BUF + 1, PIPE_SIZE, PIPE_SIZE + 1, 3000, 5000];
        for _ in 0..48 {
            let n = *rng.pick(&tw_sizes);
            let m = *rng.pick(&tw_sizes);
            let piece = *rng.pick(&[0usize, 0, 100, PIPE_BUF, 600]);
            run(&format!("tw n={n} piece={piece} m={m} nowait={}", rng.below(2)), false);
        }
    }

    // (ii-g) `read` on a pipe with multi-byte characters around every capacity boundary, the data
    // arriving whole (cut by the pipe capacity) or in pieces that cut the characters at every position
    let mut bounds = vec![PIPE_BUF, PIPE_SIZE, PIPE_SIZE + PIPE_BUF, 2 * PIPE_SIZE];
    if thorough {
        bounds.extend([3 * PIPE_SIZE, 4 * PIPE_SIZE, 5, 100]);
    }
    for &b in &bounds {
        for d in 1..=3usize {
            for cs in 2..=4usize {
                let mut plans: Vec<(usize, usize, usize)> = vec![(0, 0, 0), (0, 7, 1), (0, 3, 0)];
                for j in 1..(3 * cs) {
                    plans.push((b - d.min(b) + j, 0, 1)); // first piece ends inside / between the characters
                }
                if thorough {
                    plans.push((0, 1, 1));
                    plans.push((0, PIPE_BUF + 1, 1));
                }
                for (first, piece, dl) in plans {
                    let raw = rng.below(2);
                    run(&format!("rp b={b} d={d} cs={cs} first={first} piece={piece} dl={dl} raw={raw}"), false);
                }
            }
        }
    }

    // (ii-f) `read` on a pipe
    for n in [0usize, 1, 2, 7, 100, PIPE_BUF + 1, PIPE_SIZE + 3] {
        for bad in 0..7 {
            for raw in 0..2 {
                run(&format!("rd n={n} bad={bad} raw={raw}"), false);
            }
        }
    }

    // (ii-e) lowered descriptor limit: every limit 0..12 x prologue x form
    for lim in 0..=12usize {
        for pro in 0..5 {
            for form in ["subst", "nest", "pipe2", "pipe3", "pipe4", "here"] {
                let n = if thorough { *rng.pick(&[0, 100, 1500, 3000]) } else { *rng.pick(&[100, 1500]) };
                let case = format!("lim lim={lim} pro={pro} form={form} n={n} pat=1 nl={}", rng.below(3).min(n));
                run(&case, false);
            }
        }
    }

    // (ii-d) here-documents: character counts 0 … several KiB around every boundary, plus random
    let hd_reps = if thorough { 30 } else { 4 };
    for &n in &sizes {
        for _ in 0..hd_reps {
            let case = gen_hd(&mut rng, n);
            run(&case, false);
        }
    }
    for _ in 0..(if thorough { 5_000 } else { 300 }) {
        let n = if rng.chance(1, 2) { rng.below(200) } else { rng.below(2 * PIPE_SIZE + 3) };
        let case = gen_hd(&mut rng, n);
        run(&case, false);
    }

    // (ii-b) shell-level flows
    let reps = if thorough { 100 } else { 10 };
    for &n in &sizes {
        for _ in 0..reps {
            let case = gen_sh(&mut rng, n);
            run(&case, false);
        }
    }
    for _ in 0..(if thorough { 3_000 } else { 150 }) {
        let case = gen_dbl(&mut rng);
        run(&case, false);
    }
    for _ in 0..(if thorough { 10_000 } else { 400 }) {
        let n = rng.below(4 * PIPE_SIZE + 3);
        let case = gen_sh(&mut rng, n);
        run(&case, false);
    }

    // (ii-g') wave 3: `read` with and without -r on a pipe whose data is cut inside backslash sequences (continuation
    // lines, escaped backslashes, escaped letters) at every byte position around the capacity boundaries
    for &b in &[PIPE_BUF, PIPE_SIZE, 5usize] {
        for d in 1..=2usize {
            for cs in 5..=7usize {
                let mut plans: Vec<(usize, usize, usize)> = vec![(0, 0, 0), (0, 1, 1), (0, 3, 0)];
                for j in 1..7 {
                    plans.push((b - d.min(b) + j, 0, 1));
                }
                for (first, piece, dl) in plans {
                    for raw in 0..2 {
                        run(&format!("rp b={b} d={d} cs={cs} first={first} piece={piece} dl={dl} raw={raw}"), false);
                    }
                }
            }
        }
    }

    // (ii-b') wave 3: shell flows whose payload is valid UTF-8 that is not ASCII (multi-byte characters across every
    // capacity boundary, interior newlines, 0-5 and very many trailing newlines), through pipelines, nested
    // command substitutions and here-documents with `$( )` bodies
    let mut rng4 = Rng::new(opts.seed ^ 0xC14_0400);
    for &n in &sizes {
        for _ in 0..(if thorough { 12 } else { 1 }) {
            let nl = [0, 1, 2, 5, PIPE_BUF + 88, PIPE_SIZE + 476][rng4.below(6)].min(n);
            let src = *rng4.pick(&["gen", "file"]);
            let shape = *rng4.pick(&["-", "c", "cc", "s", "ss", "cs", "sc", "csc", "h", "hc", "sh", "ycsy", "yyyy"]);
            let kind = *rng4.pick(&["var", "var", "out", "file"]);
            run(
                &format!(
                    "sh n={n} pat=7 per=0 nl={nl} src={src} shape={shape} kind={kind} pro=0 seed={}",
                    rng4.below(1_000_000)
                ),
                false,
            );
        }
    }

    // coverage triage (session 4): a blocking write resumed after the reader closed / read (io.rs poll_write_full),
    // a negated pipeline that fails and a pipeline under `set -n` (pipeline.rs `execute`)
    for &pre in &[0usize, 1, PIPE_BUF - 1, PIPE_BUF, PIPE_SIZE - PIPE_BUF + 1, PIPE_SIZE - 1, PIPE_SIZE] {
        for &n in &[0usize, 1, PIPE_BUF, PIPE_BUF + 1, PIPE_SIZE, PIPE_SIZE + 1, 3 * PIPE_SIZE] {
            run(&format!("bwr n={n} pre={pre} act=close k=0"), false);
            for &k in &[1usize, PIPE_BUF - 1, PIPE_BUF, PIPE_SIZE, 4096] {
                run(&format!("bwr n={n} pre={pre} act=read k={k}"), false);
            }
        }
    }
    let mut rng6 = Rng::new(opts.seed ^ 0xC14_0600);
    for &n in &[0usize, 3, PIPE_BUF + 1, PIPE_SIZE + 1, 3 * PIPE_SIZE + 2] {
        for negk in 2..=3 {
            for kind in ["out", "file"] {
                let shape = *rng6.pick(&["-", "c", "cc", "yc", "gc"]);
                let src = *rng6.pick(&["gen", "file", "var"]);
                run(
                    &format!(
                        "sh n={n} pat=1 per=0 nl=1 src={src} shape={shape} kind={kind} pro=0 seed={} neg={negk}",
                        rng6.below(1_000_000)
                    ),
                    false,
                );
            }
        }
    }

    // last pass: a head-like stage in the middle of a concurrent pipeline (forwarder `hs` of `mid` stops after `hk`
    // bytes): either the payload fits the allowance (everything exits normally) or it exceeds it by more than
    // everything the upstream pipes and buffers can hold (the source and every stage before it die of EPIPE)
    let mut rng7 = Rng::new(opts.seed ^ 0xC14_0700);
    for _ in 0..(if thorough { 3_000 } else { 160 }) {
        let mid = 1 + rng7.below(3);
        let hs = 1 + rng7.below(mid);
        let hk = *rng7.pick(&[0usize, 1, 5, PIPE_BUF - 1, PIPE_BUF, PIPE_SIZE, PIPE_SIZE + 1, 2000]);
        let n = if rng7.chance(2, 3) {
            hk + hs * (PIPE_SIZE + 5000) + 2048 + rng7.below(PIPE_SIZE)
        } else {
            rng7.below(hk + 1)
        };
        let wk = *rng7.pick(&[0usize, 0, 100, PIPE_BUF, PIPE_BUF + 1, 700, PIPE_SIZE + 1]);
        let rk = *rng7.pick(&[0usize, 7, PIPE_BUF, PIPE_SIZE + 1, 5000]);
        run(
            &format!(
                "xfer n={n} pat=3 per=0 nl=0 wk={wk} rk={rk} seed={} mid={mid} hs={hs} hk={hk}",
                rng7.below(1_000_000)
            ),
            false,
        );
    }

    // (ii-b'') third pass: command substitutions whose output is ill-formed UTF-8 of every kind (from_utf8_lossy),
    // the ill-formed sequences straddling the capacity boundaries, through 0-2 pipeline stages
    let mut rng5 = Rng::new(opts.seed ^ 0xC14_0500);
    for &n in &sizes {
        for _ in 0..(if thorough { 10 } else { 1 }) {
            let nl = [0, 1, 2, 5, PIPE_BUF + 88][rng5.below(5)].min(n);
            let src = *rng5.pick(&["gen", "file"]);
            let shape = *rng5.pick(&["-", "c", "cc", "yc"]);
            let kind = *rng5.pick(&["var", "var", "bq"]);
            run(
                &format!(
                    "sh n={n} pat=8 per=0 nl={nl} src={src} shape={shape} kind={kind} pro=0 seed={}",
                    rng5.below(1_000_000)
                ),
                false,
            );
        }
    }

    // (ii-a'') wave 3: concurrent pipelines `writer | M x forwarder | reader` (M = 1..3) as tasks of one Concurrent;
    // own generator stream so that the cases of the earlier families stay what they were
    let mut rng3 = Rng::new(opts.seed ^ 0xC14_0300);
    for &n in &sizes {
        for _ in 0..(if thorough { 30 } else { 2 }) {
            let case = gen_xfer(&mut rng3, n);
            run(&format!("{case} mid={}", 1 + rng3.below(3)), false);
        }
    }
    for _ in 0..(if thorough { 4_000 } else { 120 }) {
        let n = rng3.below(4 * PIPE_SIZE + 3);
        let case = gen_xfer(&mut rng3, n);
        run(&format!("{case} mid={}", 1 + rng3.below(3)), false);
    }
}
