//! C16 — variable scope, lifetime and attributes: histories of operations against the real
//! `VariableSet` (yash-env/src/variable.rs), in lock-step with a naive stack-of-maps.
//!
//! Case line: operations separated by `;` (syntax in /verif/lean/YashModel/Variable/Main.lean);
//! a case starting with `sh ` is a script run through the whole shell (see `script_case`).
//! Observation: after every operation its result, `get`/`get_scoped` of every name mentioned,
//! `iter` per scope (sorted), `env_c_strings` (sorted), positional parameters.
//! Oracle: (1) the same observation computed on a naive stack of maps written here in Rust,
//! (2) environment = exported visible variables with their current values, evaluated through
//! `get`, (3) a failed `assign`/`unset` (read-only) changes nothing.
//!
//! Extension round: `sq N S Q` (`set_quirk`), `init` (`VariableSet::init`), `xp N LOC`
//! (`Variable::expand` at a location, possibly behind alias substitutions); every observation also
//! carries the quirk of each variable and the expansion of the visible variable at a fixed location;
//! when the case ends the guards still alive are dropped one by one with an observation after each
//! (`r=unwind`), so hidden instances are always seen; a refused operation must leave the whole set
//! `==` to a clone taken before it (hidden instances included).
//!
//! `push_context` returns an RAII guard and there is no public pop, so the operation sequence is
//! interpreted recursively: `p*` recurses with the guard alive, `pop` returns (unmatched pops are
//! ignored), the end of the case drops every guard without further observation.

use std::collections::{BTreeMap, HashSet, VecDeque};
use std::cell::RefCell;
use std::num::NonZeroU64;
use std::rc::Rc;
use yash_env::alias::Alias;
use yash_env::source::{Code, Location, Source};
use yash_env::variable::{
    Context, Expansion, PositionalParams, Quirk, Scope, Value, Variable, VariableSet,
};
use yverif::proto::{Opts, dec_str, emit, enc_bytes, enc_str, guarded, quiet_panics};
use yverif::rng::Rng;

#[derive(Clone, Debug)]
enum Op {
    PushR(Vec<String>),
    PushV,
    Pop,
    Gn(String, Scope),
    As(String, Scope, Value, Option<u64>),
    Ex(String, Scope, bool),
    Ro(String, Scope, u64),
    Un(String, Scope),
    Sp(Vec<String>),
    Ee(String, String),
    Sq(String, Scope, bool),
    Init,
    Xp(String, Vec<(u64, String, usize)>),
}

/// `LINE:START:<hex text>[@…]`: the location itself first, then the locations of the words whose
/// alias substitution produced the code before
fn parse_loc(t: &str) -> Option<Vec<(u64, String, usize)>> {
    t.split('@')
        .map(|seg| {
            let mut it = seg.split(':');
            let l: u64 = it.next()?.parse().ok()?;
            let st: usize = it.next()?.parse().ok()?;
            let x = dec_str(it.next()?)?;
            if it.next().is_some() || l == 0 {
                return None;
            }
            Some((l, x, st))
        })
        .collect()
}

fn mk_loc(segs: &[(u64, String, usize)]) -> Location {
    let mut it = segs.iter().rev();
    let code = |l: u64, x: &str, source: Source| {
        Rc::new(Code {
            value: RefCell::new(x.to_string()),
            start_line_number: NonZeroU64::new(l).unwrap(),
            source: Rc::new(source),
        })
    };
    let (l, x, st) = it.next().expect("a location has at least one segment");
    let mut loc = Location { code: code(*l, x, Source::Unknown), range: *st..*st + 1 };
    for (l, x, st) in it {
        let alias = Rc::new(Alias {
            name: "a".to_string(),
            replacement: x.clone(),
            global: false,
            origin: Location::dummy(""),
        });
        loc = Location {
            code: code(*l, x, Source::Alias { original: loc, alias }),
            range: *st..*st + 1,
        };
    }
    loc
}

/// the line a location is on, computed from the segments alone (not through the real code)
fn naive_line(segs: &[(u64, String, usize)]) -> u64 {
    let (l, x, st) = segs.last().expect("a location has at least one segment");
    l + x.chars().take(*st).filter(|c| *c == '\n').count() as u64
}

/// the location every observation expands the visible variable at (Observe.lean `obsLoc`)
fn obs_loc() -> Vec<(u64, String, usize)> {
    vec![(1, "a".to_string(), 0), (3, "a\nb\nc".to_string(), 4)]
}

fn parse_scope(t: &str) -> Option<Scope> {
    Some(match t {
        "g" => Scope::Global,
        "l" => Scope::Local,
        "v" => Scope::Volatile,
        _ => return None,
    })
}

fn parse_value(t: &str) -> Option<Value> {
    if let Some(r) = t.strip_prefix("s:") {
        return Some(Value::Scalar(dec_str(r)?));
    }
    let r = t.strip_prefix("a:")?;
    if r.is_empty() {
        return Some(Value::array(Vec::<String>::new()));
    }
    // `impl From<Vec<String>> for Value`
    Some(r.split(',').map(dec_str).collect::<Option<Vec<String>>>()?.into())
}

fn parse_op(t: &str) -> Option<Op> {
    let w: Vec<&str> = t.split_whitespace().collect();
    let strs = |ws: &[&str]| ws.iter().map(|s| dec_str(s)).collect::<Option<Vec<_>>>();
    Some(match w.as_slice() {
        ["pr", ps @ ..] => Op::PushR(strs(ps)?),
        ["pv"] => Op::PushV,
        ["pop"] => Op::Pop,
        ["gn", n, s] => Op::Gn(dec_str(n)?, parse_scope(s)?),
        ["as", n, s, v, l] => Op::As(
            dec_str(n)?,
            parse_scope(s)?,
            parse_value(v)?,
            if *l == "-" { None } else { Some(l.parse().ok()?) },
        ),
        ["ex", n, s, b] => Op::Ex(dec_str(n)?, parse_scope(s)?, b.parse::<u32>().ok()? != 0),
        ["ro", n, s, l] => Op::Ro(dec_str(n)?, parse_scope(s)?, l.parse().ok()?),
        ["un", n, s] => Op::Un(dec_str(n)?, parse_scope(s)?),
        ["sp", ps @ ..] => Op::Sp(strs(ps)?),
        ["ee", n, v] => Op::Ee(dec_str(n)?, dec_str(v)?),
        ["sq", n, s, "L"] => Op::Sq(dec_str(n)?, parse_scope(s)?, true),
        ["sq", n, s, "-"] => Op::Sq(dec_str(n)?, parse_scope(s)?, false),
        ["init"] => Op::Init,
        ["xp", n, l] => Op::Xp(dec_str(n)?, parse_loc(l)?),
        _ => return None,
    })
}

fn loc(n: u64) -> Location {
    Location::dummy(n.to_string())
}

fn show_loc(l: &Option<Location>) -> String {
    match l {
        Some(l) => l.code.value.borrow().clone(),
        None => "-".into(),
    }
}

fn show_value(v: &Option<Value>) -> String {
    match v {
        None => "~".into(),
        Some(Value::Scalar(s)) => format!("s:{}", enc_str(s)),
        Some(Value::Array(vs)) => format!(
            "a:{}",
            vs.iter().map(|s| enc_str(s)).collect::<Vec<_>>().join(",")
        ),
    }
}

fn show_var(v: &Variable) -> String {
    format!(
        "{}/{}/{}/{}/{}",
        show_value(&v.value),
        v.is_exported as u8,
        show_loc(&v.read_only_location),
        show_loc(&v.last_assigned_location),
        match v.quirk {
            None => "-",
            Some(Quirk::LineNumber) => "L",
        }
    )
}

fn show_expansion(e: &Expansion) -> String {
    match e {
        Expansion::Unset => "~".into(),
        Expansion::Scalar(s) => format!("s:{}", enc_str(s)),
        Expansion::Array(vs) => format!(
            "a:{}",
            vs.iter().map(|s| enc_str(s)).collect::<Vec<_>>().join(",")
        ),
    }
}

/// the text of an `xp` result computed independently of the `Expansion` API (naive oracle)
fn naive_full(shown: &str, fields: Option<Vec<String>>, len: usize, value: &Option<Value>) -> String {
    let p = fields.unwrap_or_default().iter().map(|f| enc_str(f)).collect::<Vec<_>>().join(",");
    let v = match value {
        None => "-".to_string(),
        Some(Value::Scalar(x)) => x.split(':').map(enc_str).collect::<Vec<_>>().join(","),
        Some(Value::Array(xs)) => xs.iter().map(|x| enc_str(x)).collect::<Vec<_>>().join(","),
    };
    format!("{shown};l{len};e{};p{p};v{v};cok", (len == 0) as u8)
}

/// the same through the real API: `len`, `is_empty`, `split`, `Value::split`, and the conversions
fn real_full(var: &Variable, e: &Expansion) -> String {
    let p = e.split().map(enc_str).collect::<Vec<_>>().join(",");
    let v = match &var.value {
        None => "-".to_string(),
        Some(val) => val.split().map(enc_str).collect::<Vec<_>>().join(","),
    };
    let mut bad: Vec<&str> = vec![];
    if e.as_ref() != *e {
        bad.push("as_ref");
    }
    if Expansion::from(e) != *e {
        bad.push("from-ref");
    }
    let owned: Option<Value> = e.clone().into_owned();
    if Expansion::from(owned.clone()) != *e {
        bad.push("from-option-value");
    }
    match &owned {
        None => {
            if Expansion::default() != *e || Expansion::from(None::<String>) != *e {
                bad.push("default");
            }
        }
        Some(val) => {
            if Expansion::from(val.clone()) != *e || Expansion::from(val) != *e {
                bad.push("from-value");
            }
            match val {
                Value::Scalar(x) => {
                    if Expansion::from(x.as_str()) != *e || Expansion::from(Some(x.clone())) != *e || Expansion::from(x) != *e {
                        bad.push("from-str");
                    }
                }
                Value::Array(xs) => {
                    if Expansion::from(xs.clone()) != *e || Expansion::from(xs) != *e || Expansion::from(xs.as_slice()) != *e {
                        bad.push("from-vec");
                    }
                }
            }
            let q = val.quote();
            let r: &Value = q.as_ref();
            if r != val {
                bad.push("quoted-as_ref");
            }
        }
    }
    let c = if bad.is_empty() { "ok".to_string() } else { format!("BAD:{}", bad.join("+")) };
    format!("{};l{};e{};p{p};v{v};c{c}", show_expansion(e), e.len(), e.is_empty() as u8)
}

fn show_opt_var(v: Option<&Variable>) -> String {
    v.map(show_var).unwrap_or_else(|| "-".into())
}

/// What a state offers to an observer (the real set and the naive one both implement it).
trait View {
    fn get(&self, n: &str) -> Option<Variable>;
    fn get_scoped(&self, n: &str, s: Scope) -> Option<Variable>;
    fn iter(&self, s: Scope) -> Vec<(String, Variable)>;
    fn env(&self) -> Vec<Vec<u8>>;
    fn params(&self) -> Vec<String>;
    fn get_scalar(&self, n: &str) -> Option<String>;
    /// text of the expansion of the visible variable at a location (`-` if there is none)
    fn expand_at(&self, n: &str, segs: &[(u64, String, usize)]) -> String;
    /// the result of an `xp` item: the expansion with `len`, `is_empty`, `split`, `Value::split`, conversions
    fn expand_full(&self, n: &str, segs: &[(u64, String, usize)]) -> String;
}

impl View for VariableSet {
    fn get(&self, n: &str) -> Option<Variable> {
        VariableSet::get(self, n).cloned()
    }
    fn get_scoped(&self, n: &str, s: Scope) -> Option<Variable> {
        VariableSet::get_scoped(self, n, s).cloned()
    }
    fn iter(&self, s: Scope) -> Vec<(String, Variable)> {
        VariableSet::iter(self, s)
            .map(|(n, v)| (n.to_string(), v.clone()))
            .collect()
    }
    fn env(&self) -> Vec<Vec<u8>> {
        self.env_c_strings()
            .into_iter()
            .map(|c| c.into_bytes())
            .collect()
    }
    fn params(&self) -> Vec<String> {
        self.positional_params().values.clone()
    }
    fn get_scalar(&self, n: &str) -> Option<String> {
        VariableSet::get_scalar(self, n).map(|s| s.to_string())
    }
    fn expand_at(&self, n: &str, segs: &[(u64, String, usize)]) -> String {
        match VariableSet::get(self, n) {
            None => "-".into(),
            Some(v) => show_expansion(&v.expand(&mk_loc(segs))),
        }
    }
    fn expand_full(&self, n: &str, segs: &[(u64, String, usize)]) -> String {
        match VariableSet::get(self, n) {
            None => "-".into(),
            Some(v) => real_full(v, &v.expand(&mk_loc(segs))),
        }
    }
}

fn show_env(mut e: Vec<Vec<u8>>) -> String {
    let mut v: Vec<String> = e
        .drain(..)
        .map(|b| match b.iter().position(|c| *c == b'=') {
            Some(p) => format!("{}={}", enc_bytes(&b[..p]), enc_bytes(&b[p + 1..])),
            None => format!("?{}", enc_bytes(&b)),
        })
        .collect();
    v.sort();
    v.join(",")
}

fn observe<V: View + ?Sized>(s: &V, r: &str, names: &[String]) -> String {
    let mut out = format!("r={r}");
    for n in names {
        out.push_str(&format!(
            " {}={}|{}|{}|{}",
            enc_str(n),
            show_opt_var(s.get(n).as_ref()),
            show_opt_var(s.get_scoped(n, Scope::Global).as_ref()),
            show_opt_var(s.get_scoped(n, Scope::Local).as_ref()),
            show_opt_var(s.get_scoped(n, Scope::Volatile).as_ref()),
        ));
        out.push_str(&format!("|{}", s.get_scalar(n).map(|x| enc_str(&x)).unwrap_or_else(|| "~".into())));
        out.push_str(&format!("|{}", s.expand_at(n, &obs_loc())));
    }
    for (tag, sc) in [("ig", Scope::Global), ("il", Scope::Local), ("iv", Scope::Volatile)] {
        let mut v: Vec<String> = s
            .iter(sc)
            .iter()
            .map(|(n, v)| format!("{}={}", enc_str(n), show_var(v)))
            .collect();
        v.sort();
        out.push_str(&format!(" {tag}={}", v.join(",")));
    }
    out.push_str(&format!(" env={}", show_env(s.env())));
    out.push_str(&format!(
        " pp={}",
        s.params().iter().map(|p| enc_str(p)).collect::<Vec<_>>().join(",")
    ));
    out
}

// ---------------------------------------------------------------------------------------------
// the naive stack of maps (bottom first), written from the documentation, not from the code
// ---------------------------------------------------------------------------------------------

#[derive(Clone, Debug)]
struct NCtx {
    regular: bool,
    params: Vec<String>,
    vars: BTreeMap<String, Variable>,
}

#[derive(Clone, Debug)]
struct Naive {
    ctxs: Vec<NCtx>,
}

impl Naive {
    fn new() -> Naive {
        Naive {
            ctxs: vec![NCtx { regular: true, params: vec![], vars: BTreeMap::new() }],
        }
    }
    fn top_regular(&self) -> usize {
        self.ctxs.iter().rposition(|c| c.regular).unwrap_or(0)
    }
    fn first_ctx(&self, s: Scope) -> usize {
        match s {
            Scope::Global => 0,
            Scope::Local => self.top_regular(),
            Scope::Volatile => self.top_regular() + 1,
        }
    }
    /// index of the context whose variable is visible
    fn defining(&self, n: &str) -> Option<usize> {
        self.ctxs.iter().rposition(|c| c.vars.contains_key(n))
    }
    fn visible_mut(&mut self, n: &str) -> Option<&mut Variable> {
        let i = self.defining(n)?;
        self.ctxs[i].vars.get_mut(n)
    }
    /// returns false for the documented panic
    fn get_or_new(&mut self, n: &str, s: Scope) -> bool {
        match s {
            Scope::Global | Scope::Local => {
                let target = self.first_ctx(s);
                let mut carried: Option<Variable> = None;
                for i in (target..self.ctxs.len()).rev() {
                    if self.ctxs[i].regular {
                        if let Some(v) = self.ctxs[i].vars.get_mut(n) {
                            if let Some(c) = carried {
                                *v = c;
                            }
                            return true;
                        }
                    } else if let Some(v) = self.ctxs[i].vars.remove(n) {
                        carried.get_or_insert(v);
                    }
                }
                self.ctxs[target]
                    .vars
                    .insert(n.to_string(), carried.unwrap_or_default());
                true
            }
            Scope::Volatile => {
                if self.ctxs.last().unwrap().regular {
                    return false;
                }
                let vis = self.get(n).unwrap_or_default();
                self.ctxs
                    .last_mut()
                    .unwrap()
                    .vars
                    .entry(n.to_string())
                    .or_insert(vis);
                true
            }
        }
    }
    fn apply(&mut self, op: &Op) -> String {
        match op {
            Op::PushR(ps) => {
                self.ctxs.push(NCtx { regular: true, params: ps.clone(), vars: BTreeMap::new() });
                "done".into()
            }
            Op::PushV => {
                self.ctxs.push(NCtx { regular: false, params: vec![], vars: BTreeMap::new() });
                "done".into()
            }
            Op::Pop => {
                if self.ctxs.len() > 1 {
                    self.ctxs.pop();
                }
                "done".into()
            }
            Op::Gn(n, s) => {
                if self.get_or_new(n, *s) { "done".into() } else { "novol".into() }
            }
            Op::As(n, s, v, l) => {
                if !self.get_or_new(n, *s) {
                    return "novol".into();
                }
                let var = self.visible_mut(n).unwrap();
                if var.read_only_location.is_some() {
                    return format!("ro({})", show_loc(&var.read_only_location));
                }
                // a fresh variable that receives an array is what `Variable::new_array` builds
                let fresh = *var == Variable::default();
                let old = var.value.replace(v.clone());
                if let (true, Value::Array(vs)) = (fresh, v) {
                    *var = if vs.is_empty() { Variable::new_empty_array() } else { Variable::new_array(vs.clone()) };
                }
                let old_loc = std::mem::replace(&mut var.last_assigned_location, l.map(loc));
                format!("as({},{})", show_value(&old), show_loc(&old_loc))
            }
            Op::Ex(n, s, b) => {
                if !self.get_or_new(n, *s) {
                    return "novol".into();
                }
                self.visible_mut(n).unwrap().is_exported = *b;
                "done".into()
            }
            Op::Ro(n, s, l) => {
                if !self.get_or_new(n, *s) {
                    return "novol".into();
                }
                let var = self.visible_mut(n).unwrap();
                if var.read_only_location.is_none() {
                    var.read_only_location = Some(loc(*l));
                }
                "done".into()
            }
            Op::Un(n, s) => {
                let from = self.first_ctx(*s).min(self.ctxs.len());
                for c in self.ctxs[from..].iter().rev() {
                    if let Some(v) = c.vars.get(n) {
                        if v.read_only_location.is_some() {
                            return format!("ro({})", show_loc(&v.read_only_location));
                        }
                    }
                }
                let mut top = None;
                for c in self.ctxs[from..].iter_mut().rev() {
                    if let Some(v) = c.vars.remove(n) {
                        top.get_or_insert(v);
                    }
                }
                format!("un({})", show_opt_var(top.as_ref()))
            }
            Op::Ee(n, v) => {
                // "assigns the values, overwriting existing variables; the variables are exported;
                // an existing read-only variable is left alone"
                let r = self.apply(&Op::As(n.clone(), Scope::Global, Value::scalar(v.as_str()), None));
                if !r.starts_with("ro(") {
                    self.apply(&Op::Ex(n.clone(), Scope::Global, true));
                }
                "done".into()
            }
            Op::Sp(ps) => {
                let i = self.top_regular();
                self.ctxs[i].params = ps.clone();
                "done".into()
            }
            Op::Sq(n, s, q) => {
                if !self.get_or_new(n, *s) {
                    return "novol".into();
                }
                self.visible_mut(n).unwrap().quirk = q.then_some(Quirk::LineNumber);
                "done".into()
            }
            Op::Init => {
                // the documentation of `VariableSet::init`: "assigns the following variables:
                // IFS=' \t\n', OPTIND=1, PS1='$ ', PS2='> ', PS4='+ ', LINENO (with no value, but has
                // its quirk set to Quirk::LineNumber) … ignores any assignment errors"
                for (n, v) in [("IFS", " \t\n"), ("OPTIND", "1"), ("PS1", "$ "), ("PS2", "> "), ("PS4", "+ ")] {
                    self.apply(&Op::As(n.to_string(), Scope::Global, Value::scalar(v), None));
                }
                self.apply(&Op::Sq("LINENO".to_string(), Scope::Global, true));
                "done".into()
            }
            Op::Xp(n, segs) => format!("xp({})", self.expand_full(n, segs)),
        }
    }
    fn key(&self) -> String {
        let mut s = String::new();
        for c in &self.ctxs {
            s.push_str(if c.regular { "R" } else { "V" });
            s.push_str(&c.params.join("\u{1}"));
            s.push('{');
            for (n, v) in &c.vars {
                s.push_str(&format!("{}={};", enc_str(n), show_var(v)));
            }
            s.push('}');
        }
        s
    }
}

impl View for Naive {
    fn get(&self, n: &str) -> Option<Variable> {
        self.defining(n).map(|i| self.ctxs[i].vars[n].clone())
    }
    fn get_scoped(&self, n: &str, s: Scope) -> Option<Variable> {
        let i = self.defining(n)?;
        (i >= self.first_ctx(s)).then(|| self.ctxs[i].vars[n].clone())
    }
    fn iter(&self, s: Scope) -> Vec<(String, Variable)> {
        let mut names: Vec<&String> = self.ctxs.iter().flat_map(|c| c.vars.keys()).collect();
        names.sort();
        names.dedup();
        names
            .into_iter()
            .filter_map(|n| self.get_scoped(n, s).map(|v| (n.clone(), v)))
            .collect()
    }
    fn env(&self) -> Vec<Vec<u8>> {
        self.iter(Scope::Global)
            .into_iter()
            .filter_map(|(n, v)| env_entry(&n, &v))
            .collect()
    }
    fn params(&self) -> Vec<String> {
        self.ctxs[self.top_regular()].params.clone()
    }
    fn get_scalar(&self, n: &str) -> Option<String> {
        match View::get(self, n)?.value? {
            Value::Scalar(x) => Some(x),
            Value::Array(_) => None,
        }
    }
    /// "the value of a variable having `Quirk::LineNumber` is the line number of the location of the
    /// parameter expansion"; without a quirk, the value
    fn expand_at(&self, n: &str, segs: &[(u64, String, usize)]) -> String {
        match View::get(self, n) {
            None => "-".into(),
            Some(v) if v.quirk.is_some() => format!("s:{}", enc_str(&naive_line(segs).to_string())),
            Some(v) => show_value(&v.value),
        }
    }
    fn expand_full(&self, n: &str, segs: &[(u64, String, usize)]) -> String {
        match View::get(self, n) {
            None => "-".into(),
            Some(v) if v.quirk.is_some() => {
                let line = naive_line(segs).to_string();
                naive_full(&format!("s:{}", enc_str(&line)), Some(vec![line.clone()]), line.len(), &v.value)
            }
            Some(v) => {
                let (fields, len) = match &v.value {
                    None => (None, 0),
                    Some(Value::Scalar(x)) => (Some(x.split(':').map(|t| t.to_string()).collect()), x.len()),
                    Some(Value::Array(xs)) => (Some(xs.clone()), xs.len()),
                };
                naive_full(&show_value(&v.value), fields, len, &v.value)
            }
        }
    }
}

/// "the environment handed to executed programs is exactly the exported variables with their
/// current values" (names with `=` and strings with NUL cannot be passed and are left out)
fn env_entry(n: &str, v: &Variable) -> Option<Vec<u8>> {
    if !v.is_exported || n.contains('=') {
        return None;
    }
    let val = match v.value.as_ref()? {
        Value::Scalar(s) => s.clone(),
        Value::Array(vs) => vs.join(":"),
    };
    let s = format!("{n}={val}");
    if s.contains('\0') { None } else { Some(s.into_bytes()) }
}

// ---------------------------------------------------------------------------------------------
// running a history on the real set
// ---------------------------------------------------------------------------------------------

struct Run<'a> {
    ops: &'a [Op],
    names: Vec<String>,
    i: usize,
    obs: Vec<String>,
    naive: Naive,
    verdict: Option<String>,
    /// the full naive state after the last operation, before the unwinding
    key: Option<String>,
}

impl Run<'_> {
    /// records the observation of operation `k` (result `r`) and evaluates the oracle
    /// observation after a guard was dropped at the end of the case
    fn after_unwind(&mut self, vs: &VariableSet, r: &str) {
        if self.key.is_none() {
            self.key = Some(self.naive.key());
        }
        self.naive.apply(&Op::Pop);
        let r = if r == "done" { "unwind" } else { r };
        let o = observe(vs, r, &self.names);
        if self.verdict.is_none() && observe(&self.naive, "unwind", &self.names) != o {
            self.verdict = Some("FAIL:naive@unwind".to_string());
        }
        self.obs.push(o);
    }
    fn after(&mut self, vs: &VariableSet, k: usize, r: &str, before: Option<(&str, &VariableSet)>) {
        let nr = self.naive.apply(&self.ops[k]);
        let o = observe(vs, r, &self.names);
        if self.verdict.is_none() {
            let no = observe(&self.naive, &nr, &self.names);
            if no != o {
                self.verdict = Some(format!("FAIL:naive@{k}"));
            } else {
                // environment = exported visible variables with their current values (via `get`)
                let mut want: Vec<Vec<u8>> = vs
                    .iter(Scope::Global)
                    .filter_map(|(n, _)| env_entry(n, VariableSet::get(vs, n)?))
                    .collect();
                want.sort();
                let mut have = View::env(vs);
                have.sort();
                if want != have {
                    self.verdict = Some(format!("FAIL:env@{k}"));
                }
                // a refused assignment / unset leaves everything as it was
                if r.starts_with("ro(") && matches!(self.ops[k], Op::Un(..)) {
                    if let Some((b, whole)) = before {
                        // the observation is unchanged, and so is the whole set (`VariableSet: Eq`
                        // compares every instance of every name, hidden ones included)
                        if strip_r(b) != strip_r(&o) || whole != vs {
                            self.verdict = Some(format!("FAIL:readonly-unset-changed@{k}"));
                        }
                    }
                }
                // a read-only expansion changes nothing at all
                if matches!(self.ops[k], Op::Xp(..)) {
                    if let Some((_, whole)) = before {
                        if whole != vs {
                            self.verdict = Some(format!("FAIL:expand-changed@{k}"));
                        }
                    }
                }
                if r.starts_with("ro(") {
                    if let Op::As(n, ..) = &self.ops[k] {
                        let v = VariableSet::get(vs, n);
                        if !v.map(|v| v.is_read_only()).unwrap_or(false) {
                            self.verdict = Some(format!("FAIL:readonly-assign@{k}"));
                        }
                    }
                }
            }
        }
        self.obs.push(o);
    }
}

fn strip_r(o: &str) -> &str {
    o.split_once(' ').map(|x| x.1).unwrap_or("")
}

fn apply_real(vs: &mut VariableSet, op: &Op) -> String {
    let r = guarded(|| match op {
        Op::Gn(n, s) => {
            vs.get_or_new(n.as_str(), *s);
            "done".into()
        }
        Op::As(n, s, v, l) => {
            let mut var = vs.get_or_new(n.as_str(), *s);
            match var.assign(v.clone(), l.map(loc)) {
                Ok((old, old_loc)) => format!("as({},{})", show_value(&old), show_loc(&old_loc)),
                Err(e) => format!("ro({})", show_loc(&Some(e.read_only_location))),
            }
        }
        Op::Ex(n, s, b) => {
            vs.get_or_new(n.as_str(), *s).export(*b);
            "done".into()
        }
        Op::Ro(n, s, l) => {
            vs.get_or_new(n.as_str(), *s).make_read_only(loc(*l));
            "done".into()
        }
        Op::Un(n, s) => match vs.unset(n, *s) {
            Ok(v) => format!("un({})", show_opt_var(v.as_ref())),
            Err(e) => format!("ro({})", show_loc(&Some(e.read_only_location.clone()))),
        },
        Op::Sp(ps) => {
            vs.positional_params_mut().values = ps.clone();
            "done".into()
        }
        Op::Ee(n, v) => {
            vs.extend_env([(n.clone(), v.clone())]);
            "done".into()
        }
        Op::Sq(n, s, q) => {
            vs.get_or_new(n.as_str(), *s).set_quirk(q.then_some(Quirk::LineNumber));
            "done".into()
        }
        Op::Init => {
            vs.init();
            "done".into()
        }
        Op::Xp(n, segs) => format!("xp({})", View::expand_full(&*vs, n, segs)),
        Op::PushR(_) | Op::PushV | Op::Pop => unreachable!(),
    });
    // the documented panic of `get_or_new(_, Scope::Volatile)` without a volatile top context
    if r.starts_with("PANIC") && r.contains("no volatile context to store the variable") {
        "novol".into()
    } else {
        r
    }
}

/// returns true when it ended with a `pop` (whose observation the caller makes after the drop)
fn exec(vs: &mut VariableSet, run: &mut Run, depth: usize) -> bool {
    while run.i < run.ops.len() {
        let k = run.i;
        run.i += 1;
        let ops = run.ops;
        match &ops[k] {
            Op::PushR(_) | Op::PushV => {
                let ctx = match &ops[k] {
                    Op::PushR(ps) => Context::Regular {
                        positional_params: PositionalParams {
                            values: ps.clone(),
                            last_modified_location: None,
                        },
                    },
                    _ => Context::Volatile,
                };
                let mut g = vs.push_context(ctx);
                run.after(&*g, k, "done", None);
                let popped = exec(&mut *g, run, depth + 1);
                let r = guarded(|| {
                    drop(g);
                    "done".into()
                });
                if !popped {
                    // the case ended inside this context: its guard has just been dropped
                    run.after_unwind(vs, &r);
                    return false;
                }
                let kp = run.i - 1;
                run.after(vs, kp, &r, None);
            }
            Op::Pop => {
                if depth > 0 {
                    return true;
                }
                run.after(vs, k, "done", None);
            }
            op => {
                let before = observe(&*vs, "", &run.names);
                let whole = vs.clone();
                let r = apply_real(vs, op);
                run.after(vs, k, &r, Some((&before, &whole)));
            }
        }
    }
    false
}

fn names_of(ops: &[Op]) -> Vec<String> {
    let mut v: Vec<String> = ops
        .iter()
        .filter_map(|op| match op {
            Op::Gn(n, _)
            | Op::As(n, ..)
            | Op::Ex(n, ..)
            | Op::Ro(n, ..)
            | Op::Un(n, _)
            | Op::Ee(n, _)
            | Op::Sq(n, ..)
            | Op::Xp(n, _) => Some(n.clone()),
            _ => None,
        })
        .collect();
    if ops.iter().any(|op| matches!(op, Op::Init)) {
        // the names `init` defines, asked of the real code: whatever a fresh set holds afterwards
        let mut fresh = VariableSet::new();
        fresh.init();
        v.extend(fresh.iter(Scope::Global).map(|(n, _)| n.to_string()));
    }
    v.sort_by_key(|n| enc_str(n));
    v.dedup();
    v
}

/// Runs one history; returns (observation, oracle, full naive state after the last op).
fn run_case(case: &str) -> (String, String, String) {
    let ops: Option<Vec<Op>> = case
        .split(';')
        .map(|s| s.trim())
        .filter(|s| !s.is_empty())
        .map(parse_op)
        .collect();
    let Some(ops) = ops else {
        return ("bad-case".into(), "-".into(), String::new());
    };
    let mut run = Run {
        names: names_of(&ops),
        ops: &ops,
        i: 0,
        obs: vec![],
        naive: Naive::new(),
        verdict: None,
        key: None,
    };
    let mut vs = VariableSet::new();
    exec(&mut vs, &mut run, 0);
    let key = run.key.take().unwrap_or_else(|| run.naive.key());
    (
        run.obs.join(" | "),
        run.verdict.unwrap_or_else(|| "ok".into()),
        key,
    )
}

/// wave 3, second half: paths that write a read-only variable with a special name, through the whole
/// shell (`cd` -> PWD / OLDPWD, `getopts` -> OPTIND / OPTARG, an assignment to LINENO).
/// (script, the read-only variable, other names observed)
fn rop_script(k: &str) -> Option<(&'static str, &'static str, &'static [&'static str])> {
    Some(match k {
        "cdpwd" => ("PWD=0\nreadonly PWD\ncd /\necho r$?", "PWD", &["OLDPWD"]),
        "cdold" => ("OLDPWD=0\nreadonly OLDPWD\ncd /\necho r$?", "OLDPWD", &["PWD"]),
        "optind" => ("readonly OPTIND\ngetopts a o -a\necho r$?", "OPTIND", &["o", "OPTARG"]),
        "optarg" => ("OPTARG=0\nreadonly OPTARG\ngetopts a: o -a v\necho r$?", "OPTARG", &["o", "OPTIND"]),
        "optargu" => ("OPTARG=0\nreadonly OPTARG\ngetopts a o -a\necho r$?", "OPTARG", &["o", "OPTIND"]),
        "linenoas" => ("readonly LINENO\nLINENO=5\necho r$?", "LINENO", &[]),
        // session 4: the Portable option in SetVariables::execute (no read-only target: oracle `-`)
        "portexp" => ("set -o portable\ncommand export 1a=1 o=2\necho r$?", "1a", &["o"]),
        "portro" => ("set -o portable\ncommand readonly PWD=5 o=1\necho r$?", "PWD", &["o"]),
        _ => return None,
    })
}

fn rop_case(k: &str) -> (String, String) {
    let Some((text, target, others)) = rop_script(k) else {
        return ("bad-case".into(), "-".into());
    };
    let names: Vec<&str> = std::iter::once(target).chain(others.iter().copied()).collect();
    // the target right after it was marked read-only: run the first two / one lines only
    let prefix: String = text.split('\n').take_while(|l| !l.starts_with("readonly")).chain(
        text.split('\n').filter(|l| l.starts_with("readonly"))).collect::<Vec<_>>().join("\n");
    let snapshot = |script: &str| {
        let names = names.clone();
        let (outcome, vars) = run_with(
            Config::new(script),
            |_env, _state| {},
            move |env, _state| {
                names
                    .iter()
                    .map(|n| format!("{}={}", n, show_v(env.variables.get(*n))))
                    .collect::<Vec<String>>()
            },
        );
        (outcome, vars.unwrap_or_default())
    };
    let (_, before) = snapshot(&prefix);
    let (outcome, after) = snapshot(text);
    if outcome.stuck {
        return ("TIMEOUT".into(), "FAIL:stuck".into());
    }
    let mut lines: Vec<String> = outcome.stdout_str().lines().map(|l| l.to_string()).collect();
    if !lines.iter().any(|l| l.starts_with('r')) {
        lines.push(format!("x{}", outcome.exit_status));
    }
    lines.extend(after.iter().cloned());
    // oracle, the clause itself: the read-only variable is what it was when it was marked
    let oracle = if k.starts_with("port") {
        "-".to_string()
    } else if before.first() == after.first() && after.first().map(|v| v.ends_with("/1")).unwrap_or(false) {
        "ok".to_string()
    } else {
        format!("FAIL:read-only {target} changed: {:?} -> {:?}", before.first(), after.first())
    };
    (lines.join(" | "), oracle)
}

fn run_guarded(case: &str) -> (String, String, String) {
    if let Some(k) = case.strip_prefix("rop ") {
        let mut out = (String::new(), String::new());
        let o = guarded(|| {
            out = rop_case(k.trim());
            out.0.clone()
        });
        return if o.starts_with("PANIC") {
            (o.clone(), format!("FAIL:{o}"), String::new())
        } else {
            (out.0, out.1, String::new())
        };
    }
    if let Some(body) = case.strip_prefix("sh ") {
        let mut out = (String::new(), String::new());
        let o = guarded(|| {
            out = script_case(body);
            out.0.clone()
        });
        return if o.starts_with("PANIC") {
            (o.clone(), format!("FAIL:{o}"), String::new())
        } else {
            (out.0, out.1, String::new())
        };
    }
    let mut out = (String::new(), String::new(), String::new());
    let o = guarded(|| {
        out = run_case(case);
        out.0.clone()
    });
    if o.starts_with("PANIC") {
        (o.clone(), format!("FAIL:{o}"), String::new())
    } else {
        out
    }
}


// ---------------------------------------------------------------------------------------------
// script-level leg: a statement language rendered to shell text and run through the whole shell
// (syntax and semantics: /verif/lean/YashModel/Variable/Script.lean)
// ---------------------------------------------------------------------------------------------

use yash_env::builtin::{Builtin, Type};
use yash_env::io::Fd;
use yash_env::semantics::{ExitStatus, Field};
use yash_env::system::concurrency::WriteAll as _;
use yash_env::system::r#virtual::{FileBody, Inode};
use yverif::shell::{BuiltinFuture, Config, VEnv, run_with};

const SCRIPT_NAMES: [&str; 3] = ["x", "y", "z"];
const POST: &str = "vprobe \"${x-U}\" \"${y-U}\" \"${z-U}\" \"$#\" \"$*\"";

#[derive(Clone, Debug)]
struct Stmt {
    kind: String,
    pre: Vec<String>,
    post: Vec<String>,
}

fn show_v(v: Option<&Variable>) -> String {
    match v {
        None => "-".into(),
        Some(v) => {
            let val = match &v.value {
                None => "~".to_string(),
                Some(Value::Scalar(x)) => x.clone(),
                Some(Value::Array(xs)) => format!("@{}", xs.join(":")),
            };
            format!("{}/{}/{}", val, v.is_exported as u8, v.is_read_only() as u8)
        }
    }
}

fn show_state<V: View + ?Sized>(s: &V) -> String {
    let vs: Vec<String> = SCRIPT_NAMES
        .iter()
        .map(|n| format!("{}={}", n, show_v(s.get(n).as_ref())))
        .collect();
    format!("{} #={}", vs.join(","), s.params().join(","))
}

/// `vprobe args…`: the fields it received and what it sees in the variable set while it runs
fn vprobe_main(env: &mut VEnv, args: Vec<Field>) -> BuiltinFuture<'_> {
    let fields: Vec<&str> = args.iter().map(|f| f.value.as_str()).collect();
    let text = format!("v {} {}\n", fields.join(","), show_state(&env.variables));
    Box::pin(async move {
        match env.system.write_all(Fd::STDOUT, text.as_bytes()).await {
            Ok(_) => ExitStatus::SUCCESS.into(),
            Err(_) => ExitStatus::FAILURE.into(),
        }
    })
}

fn parse_script(body: &str) -> Option<Vec<(String, Vec<Stmt>)>> {
    let mut parts = vec![];
    for part in body.split(';').map(|p| p.trim()).filter(|p| !p.is_empty()) {
        let (name, stmts) = part.split_once(':')?;
        if stmts.contains(':') {
            return None;
        }
        let mut v = vec![];
        for st in stmts.split(',').map(|t| t.trim()).filter(|t| !t.is_empty()) {
            let mut ws = st.split_whitespace();
            let kind = ws.next()?.to_string();
            let rest: Vec<String> = ws.map(|w| w.to_string()).collect();
            let cut = rest.iter().position(|w| w == "--");
            let (pre, post) = match cut {
                Some(i) => (rest[..i].to_vec(), rest[i + 1..].to_vec()),
                None => (rest, vec![]),
            };
            v.push(Stmt { kind, pre, post });
        }
        parts.push((name.trim().to_string(), v));
    }
    Some(parts)
}

/// `n=@a.b` is rendered as the array assignment `n=(a b)`
fn render_assign(t: &str) -> String {
    match t.split_once("=@") {
        Some((n, v)) => format!("{n}=({})", v.split('.').filter(|e| !e.is_empty()).collect::<Vec<_>>().join(" ")),
        None => t.to_string(),
    }
}

fn parse_val(v: &str) -> Value {
    match v.strip_prefix('@') {
        Some("") => Value::array(Vec::<String>::new()),
        Some(r) => Value::array(r.split('.')),
        None => Value::scalar(v),
    }
}

fn render_stmt(st: &Stmt) -> Option<String> {
    let pre = st.pre.iter().map(|t| render_assign(t)).collect::<Vec<_>>().join(" ");
    let post = st.post.join(" ");
    let cmd = match st.kind.as_str() {
        "A" => pre,
        "S" => format!("{pre} :"),
        "P" => format!("{pre} {POST}"),
        "N" => format!("{pre} nosuchcmd"),
        "X" => format!("{pre} /bin/ext"),
        "C" => format!(
            "{} {} {}",
            st.pre.get(1..)?.iter().map(|t| render_assign(t)).collect::<Vec<_>>().join(" "),
            st.pre.first()?,
            post
        ),
        "T" => format!("typeset {pre} {post}\necho r$?"),
        // wave 3, second half: other paths of the language that assign (all at Global scope)
        "FOR" => format!("for {} in {post}; do :; done", st.pre.first()?),
        "AR" => st.post.iter().map(|v| format!(": $(({}={v}))", st.pre.first().map(|s| s.as_str()).unwrap_or("x"))).collect::<Vec<_>>().join("\n"),
        "DEF" => format!(": ${{{}={}}}", st.pre.first()?, st.post.first()?),
        "GO" => format!("OPTIND=1\ngetopts a {} -a\necho r$?", st.pre.first()?),
        "UF" => format!("unset -f {pre}"),
        "RD" => format!("read {} <<E\n{post}\nE\necho r$?", st.pre.join(" ")),
        // wave 3: temporary assignments before the (regular) built-in typeset: `x=T typeset -g x`
        "TP" => {
            let (a, o): (Vec<&String>, Vec<&String>) = st.pre.iter().partition(|t| t.contains('='));
            format!(
                "{} typeset {} {post}\necho r$?",
                a.iter().map(|t| render_assign(t)).collect::<Vec<_>>().join(" "),
                o.iter().map(|t| t.as_str()).collect::<Vec<_>>().join(" ")
            )
        }
        "D" => match st.pre.first()?.as_str() {
            "t" => format!("typeset -p {} {post}", st.pre[1..].join(" ")),
            "e" => format!("export -p {post}"),
            "r" => format!("readonly -p {post}"),
            _ => return None,
        },
        "UV" => format!("unset -v {pre}"),
        "RET" => "return 3".to_string(),
        "E" => format!("{pre} export {post}"),
        "EX" => format!("export {pre}"),
        "R" => format!("readonly {pre}"),
        "L" => format!("typeset {pre}\necho r$?"),
        "G" => format!("typeset -g {pre}\necho r$?"),
        "U" => format!("unset {pre}"),
        "SP" => format!("set -- {pre}"),
        _ => return None,
    };
    Some(format!("echo @{}\n{}\n{}\n", st.kind, cmd.trim(), POST))
}

fn render_script(parts: &[(String, Vec<Stmt>)]) -> Option<String> {
    let mut out = String::new();
    for (name, stmts) in parts {
        let mut body = String::new();
        for st in stmts {
            body.push_str(&render_stmt(st)?);
        }
        if name == "main" {
            continue;
        }
        out.push_str(&format!("{name}() {{\n:\n{body}}}\n"));
    }
    let main = &parts.iter().find(|(n, _)| n == "main")?.1;
    for st in main {
        out.push_str(&render_stmt(st)?);
    }
    out.push_str("echo @END\n");
    Some(out)
}

fn split_assign(t: &str) -> (String, Option<String>) {
    match t.split_once('=') {
        Some((n, v)) => (n.to_string(), Some(v.to_string())),
        None => (t.to_string(), None),
    }
}

fn operand_ops(sc: Scope, t: &str) -> Vec<Op> {
    match split_assign(t) {
        (n, None) => vec![Op::Gn(n, sc)],
        (n, Some(v)) => vec![Op::As(n, sc, Value::Scalar(v), None)],
    }
}

/// The script interpreted on the naive stack of maps: the Rust-side prediction of every line.
struct NaiveScript<'a> {
    funs: &'a [(String, Vec<Stmt>)],
    n: Naive,
    out: Vec<String>,
}

impl NaiveScript<'_> {
    /// returns true if an operation was refused (read-only)
    fn run_ops(&mut self, ops: &[Op]) -> bool {
        for op in ops {
            if self.n.apply(op).starts_with("ro(") {
                return true;
            }
        }
        false
    }
    fn exp(&self) -> String {
        let mut f: Vec<String> = SCRIPT_NAMES
            .iter()
            .flat_map(|n| match self.n.get(n).and_then(|v| v.value) {
                Some(Value::Scalar(x)) => vec![x],
                Some(Value::Array(xs)) => xs,
                None => vec!["U".into()],
            })
            .collect();
        f.push(self.n.params().len().to_string());
        f.push(self.n.params().join(" "));
        f.join(",")
    }
    fn vline(&self, exp: &str) -> String {
        format!("v {} {}", exp, show_state(&self.n))
    }
    /// the assignments of a command's prefix, strictly in order: a value `$m` is expanded in the
    /// state the earlier assignments of the same prefix left; true if one was refused
    fn run_assigns(&mut self, ts: &[String], sc: Scope, export: bool) -> bool {
        for t in ts {
            let (n, val) = split_assign(t);
            let val = val.unwrap_or_default();
            let v = match val.strip_prefix('$') {
                Some(m) => Value::scalar(match View::get(&self.n, m).and_then(|v| v.value) {
                    Some(Value::Scalar(x)) => x,
                    Some(Value::Array(xs)) => xs.join(" "),
                    None => String::new(),
                }),
                None => parse_val(&val),
            };
            let mut ops = vec![Op::As(n.clone(), sc, v, None)];
            if export {
                ops.push(Op::Ex(n, sc, true));
            }
            if self.run_ops(&ops) {
                return true;
            }
        }
        false
    }
    /// the attribute loop of `typeset` for one operand
    /// returns true when the operand caused an error (refused assignment, `+r` on a read-only variable)
    fn typeset_field(&mut self, sc: Scope, opts: &[String], t: &str) -> bool {
        if self.run_ops(&operand_ops(sc, t)) {
            return true;
        }
        let n = split_assign(t).0;
        for o in opts {
            match o.as_str() {
                "-r" => {
                    self.n.apply(&Op::Ro(n.clone(), sc, 1));
                }
                "+r" => {
                    if self.n.get(&n).map(|v| v.is_read_only()).unwrap_or(false) {
                        return true;
                    }
                }
                "-x" => {
                    self.n.apply(&Op::Ex(n.clone(), sc, true));
                }
                "+x" | "-X" => {
                    self.n.apply(&Op::Ex(n.clone(), sc, false));
                }
                _ => {}
            }
        }
        false
    }
    /// `export` / `readonly` / `unset`: every operand is processed, the errors are counted
    fn go_on(&mut self, per_operand: &[Vec<Op>]) -> usize {
        per_operand.iter().filter(|ops| self.run_ops(ops)).count()
    }
    /// which variables `typeset -p` / `export -p` / `readonly -p` select, and the flags shown
    fn print_lines(&self, b: &str, opts: &[String], names: &[String]) -> Vec<String> {
        let sc = if b == "t" && !opts.iter().any(|o| o == "-g") { Scope::Local } else { Scope::Global };
        let line = |n: &str, v: &Variable| -> Option<String> {
            let pass = (b != "e" || v.is_exported)
                && (b != "r" || v.is_read_only())
                && opts.iter().all(|o| match o.as_str() {
                    "-x" => v.is_exported,
                    "+x" | "-X" => !v.is_exported,
                    "-r" => v.is_read_only(),
                    "+r" => !v.is_read_only(),
                    _ => true,
                });
            let mut flags = String::new();
            if b == "t" {
                if v.is_read_only() {
                    flags.push('r');
                }
                if v.is_exported {
                    flags.push('x');
                }
            }
            let is_array = matches!(v.value, Some(Value::Array(_)));
            if !pass || (is_array && flags.is_empty() && b == "t") {
                None
            } else if flags.is_empty() {
                Some(format!("p {n}"))
            } else {
                Some(format!("p {n} {flags}"))
            }
        };
        if names.is_empty() {
            SCRIPT_NAMES
                .iter()
                .filter_map(|n| self.n.get_scoped(n, sc).and_then(|v| line(n, &v)))
                .collect()
        } else if names.iter().any(|n| self.n.get_scoped(n, sc).is_none()) {
            vec![]
        } else {
            names
                .iter()
                .filter_map(|n| self.n.get_scoped(n, sc).and_then(|v| line(n, &v)))
                .collect()
        }
    }
    /// returns true when the script is aborted
    fn exec(&mut self, stmts: &[Stmt], depth: usize) -> bool {
        self.exec3(stmts, depth) == 1
    }
    /// 0 = ran to the end, 1 = script aborted, 2 = `return`
    fn exec3(&mut self, stmts: &[Stmt], depth: usize) -> u8 {
        for st in stmts {
            self.out.push(format!("@{}", st.kind));
            let with_export = |ts: &[String], f: &dyn Fn(String) -> Op| -> Vec<Vec<Op>> {
                ts.iter()
                    .map(|t| {
                        let mut v = operand_ops(Scope::Global, t);
                        v.push(f(split_assign(t).0));
                        v
                    })
                    .collect()
            };
            // 0 = the script goes on; otherwise the exit status the shell ends with
            let aborted: u8 = match st.kind.as_str() {
                "A" | "S" => 2 * self.run_assigns(&st.pre, Scope::Global, false) as u8,
                // export / readonly / unset go on after a refused operand and fail at the end
                "E" => {
                    if self.run_assigns(&st.pre, Scope::Global, false) {
                        2
                    } else {
                        (self.go_on(&with_export(&st.post, &|n| Op::Ex(n, Scope::Global, true))) > 0) as u8
                    }
                }
                "EX" => (self.go_on(&with_export(&st.pre, &|n| Op::Ex(n, Scope::Global, true))) > 0) as u8,
                "R" => (self.go_on(&with_export(&st.pre, &|n| Op::Ro(n, Scope::Global, 1))) > 0) as u8,
                "FOR" | "AR" => {
                    let m = st.pre.first().cloned().unwrap_or_else(|| "x".into());
                    let ops: Vec<Op> = st
                        .post
                        .iter()
                        .map(|v| Op::As(m.clone(), Scope::Global, Value::scalar(v.as_str()), None))
                        .collect();
                    2 * self.run_ops(&ops) as u8
                }
                "DEF" => {
                    let m = st.pre.first().cloned().unwrap_or_else(|| "x".into());
                    let has_value = View::get(&self.n, &m).and_then(|v| v.value).is_some();
                    match st.post.first() {
                        Some(v) if !has_value => {
                            2 * self.run_ops(&[Op::As(m, Scope::Global, Value::scalar(v.as_str()), None)]) as u8
                        }
                        _ => 0,
                    }
                }
                "UF" => 0,
                "RD" | "GO" => {
                    let go = ["a".to_string()];
                    let words: &[String] = if st.kind == "GO" { &go } else { &st.post };
                    let per: Vec<Vec<Op>> = st
                        .pre
                        .iter()
                        .zip(words.iter())
                        .map(|(m, v)| vec![Op::As(m.clone(), Scope::Global, Value::scalar(v.as_str()), None)])
                        .collect();
                    let e = self.go_on(&per);
                    self.out.push(if e == 0 { "r0".into() } else { "r2".into() });
                    0
                }
                "RET" => return 2,
                "T" => {
                    self.n.apply(&Op::PushV);
                    let sc = if st.pre.iter().any(|o| o == "-g") { Scope::Global } else { Scope::Local };
                    let mut e = 0;
                    for t in &st.post {
                        e += self.typeset_field(sc, &st.pre, t) as usize;
                    }
                    self.n.apply(&Op::Pop);
                    self.out.push(if e == 0 { "r0".into() } else { "r1".into() });
                    0
                }
                "TP" => {
                    let (temps, opts): (Vec<String>, Vec<String>) =
                        st.pre.iter().cloned().partition(|t| t.contains('='));
                    self.n.apply(&Op::PushV);
                    if self.run_assigns(&temps, Scope::Volatile, true) {
                        2
                    } else {
                        let sc = if opts.iter().any(|o| o == "-g") { Scope::Global } else { Scope::Local };
                        let mut e = 0;
                        for t in &st.post {
                            e += self.typeset_field(sc, &opts, t) as usize;
                        }
                        self.n.apply(&Op::Pop);
                        self.out.push(if e == 0 { "r0".into() } else { "r1".into() });
                        0
                    }
                }
                "D" => {
                    let Some(b) = st.pre.first() else {
                        self.out.push("bad".into());
                        return 1;
                    };
                    if b != "t" && st.post.iter().any(|n| self.n.get_scoped(n, Scope::Global).is_none()) {
                        self.out.push("x1".into());
                        return 1;
                    }
                    if b == "t" {
                        self.n.apply(&Op::PushV);
                    }
                    let lines = self.print_lines(b, &st.pre[1..], &st.post);
                    self.out.extend(lines);
                    if b == "t" {
                        self.n.apply(&Op::Pop);
                    }
                    0
                }
                "U" | "UV" => {
                    let per: Vec<Vec<Op>> =
                        st.pre.iter().map(|n| vec![Op::Un(n.clone(), Scope::Global)]).collect();
                    (self.go_on(&per) > 0) as u8
                }
                "SP" => 2 * self.run_ops(&[Op::Sp(st.pre.clone())]) as u8,
                "L" | "G" => {
                    let sc = if st.kind == "L" { Scope::Local } else { Scope::Global };
                    self.n.apply(&Op::PushV);
                    let mut e = 0;
                    for t in &st.pre {
                        e += self.typeset_field(sc, &[], t) as usize;
                    }
                    self.n.apply(&Op::Pop);
                    self.out.push(if e == 0 { "r0".into() } else { "r1".into() });
                    0
                }
                "P" | "N" | "X" => {
                    let exp = self.exp();
                    self.n.apply(&Op::PushV);
                    if self.run_assigns(&st.pre, Scope::Volatile, true) {
                        2
                    } else {
                        if st.kind == "P" {
                            self.out.push(self.vline(&exp));
                        } else if st.kind == "X" {
                            self.out.push(format!("e {}", script_env(&View::env(&self.n))));
                        }
                        self.n.apply(&Op::Pop);
                        0
                    }
                }
                "C" => {
                    let Some(body) = st
                        .pre
                        .first()
                        .and_then(|f| self.funs.iter().find(|(n, _)| n == f))
                        .map(|(_, b)| b.clone())
                    else {
                        self.out.push("bad".into());
                        return 1;
                    };
                    self.n.apply(&Op::PushV);
                    if self.run_assigns(&st.pre[1..], Scope::Volatile, true) {
                        2
                    } else if depth > 40 {
                        self.out.push("fuel".into());
                        255
                    } else {
                        self.n.apply(&Op::PushR(st.post.clone()));
                        if self.exec3(&body, depth + 1) == 1 {
                            255 // already reported by the inner statement
                        } else {
                            self.n.apply(&Op::Pop);
                            self.n.apply(&Op::Pop);
                            0
                        }
                    }
                }
                _ => {
                    self.out.push("bad".into());
                    255
                }
            };
            if aborted != 0 {
                if aborted != 255 {
                    self.out.push(format!("x{aborted}"));
                }
                return 1;
            }
            let exp = self.exp();
            self.out.push(self.vline(&exp));
        }
        0
    }
}

/// `x=..,y=..,z=..` of an environment, in the order of SCRIPT_NAMES
fn script_env(env: &[Vec<u8>]) -> String {
    let mut v = vec![];
    for n in SCRIPT_NAMES {
        let prefix = format!("{n}=");
        if let Some(e) = env.iter().find(|e| e.starts_with(prefix.as_bytes())) {
            v.push(String::from_utf8_lossy(e).into_owned());
        }
    }
    v.join(",")
}

/// Runs a script case through the whole shell; returns (observation, oracle).
fn script_case(body: &str) -> (String, String) {
    let Some(parts) = parse_script(body) else {
        return ("bad-case".into(), "-".into());
    };
    let Some(text) = render_script(&parts) else {
        return ("bad-case".into(), "-".into());
    };
    let (outcome, execs) = run_with(
        Config::new(&text),
        |env, state| {
            env.builtins
                .insert("vprobe", Builtin::new(Type::Mandatory, vprobe_main));
            let mut inode = Inode::default();
            inode.body = FileBody::Regular { content: vec![], is_native_executable: true };
            inode.permissions = yash_env::system::Mode::from_bits_retain(0o755);
            state
                .borrow_mut()
                .file_system
                .save("/bin/ext", std::rc::Rc::new(std::cell::RefCell::new(inode)))
                .unwrap();
        },
        |env, state| {
            let st = state.borrow();
            let execs = st
                .processes
                .values()
                .filter_map(|p| p.last_exec().as_ref())
                .map(|(_, _, envs)| {
                    let e: Vec<Vec<u8>> = envs.iter().map(|c| c.to_bytes().to_vec()).collect();
                    script_env(&e)
                })
                .collect::<Vec<String>>();
            // the variables the shell is left with when it has ended (all context guards dropped)
            (execs, show_state(&env.variables))
        },
    );
    let (execs, final_state) = match execs {
        Some((e, f)) => (Some(e), f),
        None => (None, "?".to_string()),
    };
    if outcome.stuck {
        return ("TIMEOUT".into(), "FAIL:stuck".into());
    }
    let mut execs = execs.unwrap_or_default().into_iter();
    let mut lines: Vec<String> = vec![];
    let mut ended = false;
    for l in outcome.stdout_str().lines() {
        // output of `typeset -p` / `export -p` / `readonly -p`: keep which variable and which flags
        // (the text format is C07's); `name=(…)` lines carry array values only
        if let Some(rest) = ["typeset ", "export ", "readonly "].iter().find_map(|b| l.strip_prefix(b)) {
            let mut flags = String::new();
            let mut name = "";
            for w in rest.split(' ') {
                match w {
                    "-r" => flags.push('r'),
                    "-x" => flags.push('x'),
                    "--" => {}
                    w => {
                        name = w.split('=').next().unwrap_or("");
                        break;
                    }
                }
            }
            if SCRIPT_NAMES.contains(&name) {
                lines.push(if flags.is_empty() { format!("p {name}") } else { format!("p {name} {flags}") });
            }
            continue;
        }
        // second line of `typeset IFS=' \t\n'`
        if l == "'" {
            continue;
        }
        if l.split_once("=(").map(|(n, _)| n.chars().all(|c| c.is_alphanumeric() || c == '_')).unwrap_or(false) {
            continue;
        }
        lines.push(l.to_string());
        if l == "@X" {
            lines.push(format!("e {}", execs.next().unwrap_or_else(|| "?".into())));
        }
        if l == "@END" {
            ended = true;
        }
    }
    // a refused temporary assignment before /bin/ext means no exec: drop the placeholder
    if !ended {
        if lines.last().map(|l| l == "e ?").unwrap_or(false) {
            lines.pop();
        }
        // the exit status the shell ended with and the variables it was left with
        lines.push(format!("x{}", outcome.exit_status));
        lines.push(format!("abort {final_state}"));
    }
    let obs = lines.join(" | ");
    // oracle: the naive stack of maps predicts every line
    let mut ns = NaiveScript { funs: &parts, n: Naive::new(), out: vec![] };
    let main = parts.iter().find(|(n, _)| n == "main").map(|(_, b)| b.clone()).unwrap_or_default();
    let aborted = ns.exec(&main, 0);
    if aborted {
        for _ in 0..8 {
            ns.n.apply(&Op::Pop);
        }
        let st = show_state(&ns.n);
        ns.out.push(format!("abort {st}"));
    } else {
        ns.out.push("@END".into());
    }
    let oracle = if ns.out.join(" | ") == obs { "ok".into() } else { "FAIL:naive-script".to_string() };
    (obs, oracle)
}

fn random_script(r: &mut Rng) -> String {
    let vals = ["1", "2", "T", "Q", ""];
    let avals = ["1", "2", "T", "Q", "", "@a.b", "@", "@c", "$x", "$y", "$z", "$x", "$y"];
    // assignments of the command language may be arrays; operands of built-ins are scalars
    let operand_assign = |r: &mut Rng| format!("{}={}", r.pick(&SCRIPT_NAMES), r.pick(&vals));
    let assign = |r: &mut Rng| format!("{}={}", r.pick(&SCRIPT_NAMES), r.pick(&avals));
    let temps = |r: &mut Rng| -> String {
        let k = [1, 1, 2, 2, 3, 0][r.below(6)];
        (0..k).map(|_| assign(r)).collect::<Vec<_>>().join(" ")
    };
    let operand = |r: &mut Rng| {
        if r.chance(1, 2) { operand_assign(r) } else { r.pick(&SCRIPT_NAMES).to_string() }
    };
    let operands = |r: &mut Rng| {
        let k = 1 + r.below(2);
        (0..k).map(|_| operand(r)).collect::<Vec<_>>().join(" ")
    };
    let names = |r: &mut Rng| {
        let k = r.below(3);
        (0..k).map(|_| r.pick(&SCRIPT_NAMES).to_string()).collect::<Vec<_>>().join(" ")
    };
    let topts = |r: &mut Rng| {
        let all = ["-g", "-r", "-x", "-X", "+x", "+r"];
        let k = [0, 1, 1, 1, 2, 2, 3][r.below(7)];
        let mut v: Vec<&str> = vec![];
        for _ in 0..k {
            // read-only marks make most later statements abort: keep them rarer
            let o = *r.pick(&all);
            if o == "-r" && r.chance(1, 2) {
                continue;
            }
            v.push(o);
        }
        v.join(" ")
    };
    let stmt = |r: &mut Rng, callee: Option<&str>, in_fn: bool| -> String {
        loop {
            // wave 3, second half: the other assigning paths of the language, and `unset` with several
            // operands (the built-ins go on after a refused operand)
            if r.chance(1, 7) {
                let m = *r.pick(&SCRIPT_NAMES);
                let s = match r.below(8) {
                    0 => format!("FOR {m} -- {} {}", r.pick(&["1", "2", "T"]), r.pick(&["1", "2", "Q"])),
                    1 => format!("AR {m} -- {}", r.pick(&["1", "2", "7"])),
                    2 => format!("DEF {m} -- {}", r.pick(&["1", "Q", "7"])),
                    3 => format!("RD {m} -- {}", r.pick(&["a", "b", "1"])),
                    4 => format!(
                        "RD {m} {} -- {} {}",
                        r.pick(&SCRIPT_NAMES),
                        r.pick(&["a", "b", "1"]),
                        r.pick(&["c", "2"])
                    ),
                    5 => format!("U {m} {} {}", r.pick(&SCRIPT_NAMES), r.pick(&["", "x", "z"])),
                    6 => format!("GO {m}"),
                    _ => format!("UF {m}"),
                };
                return s.split_whitespace().collect::<Vec<_>>().join(" ");
            }
            let k = r.below(if in_fn { 34 } else { 29 });
            let s = match k {
                0 | 1 | 2 => {
                    let k = [1, 1, 2, 3][r.below(4)];
                    format!("A {}", (0..k).map(|_| assign(r)).collect::<Vec<_>>().join(" "))
                }
                3 | 4 => format!("P {}", temps(r)),
                5 | 6 => {
                    let k = [1, 2, 2][r.below(3)];
                    format!("S {}", (0..k).map(|_| assign(r)).collect::<Vec<_>>().join(" "))
                }
                7 => format!("E {} -- {}", temps(r), operand(r)),
                8 | 9 | 10 => match callee {
                    Some(f) => format!(
                        "C {f} {} -- {}",
                        temps(r),
                        r.pick(&["", "a", "a b", "c"])
                    ),
                    None => continue,
                },
                11 => format!("N {}", temps(r)),
                12 | 13 => format!("X {}", temps(r)),
                14 => format!("EX {}", operands(r)),
                15 => {
                    if r.chance(1, 3) { format!("R {}", operands(r)) } else { continue }
                }
                20 | 21 => format!("T {} -- {}", topts(r), operands(r)),
                22 => {
                    // wave 3: the same with temporary assignments in front (half of them naming an operand)
                    let o = operands(r);
                    let t = if r.chance(1, 2) {
                        format!("{}={} {}", split_assign(o.split(' ').next().unwrap_or("x")).0, r.pick(&avals), temps(r))
                    } else {
                        temps(r)
                    };
                    format!("TP {} {} -- {}", t, topts(r), o)
                }
                23 | 24 => format!("D t {} -- {}", topts(r).replace("-r", "+x"), names(r)),
                25 => format!("D e -- {}", names(r)),
                26 => format!("D r -- {}", names(r)),
                27 => format!("UV {}", r.pick(&SCRIPT_NAMES)),
                28 => format!("T {} -- {}", topts(r), operand(r)),
                29 | 30 => {
                    if r.chance(1, 2) { "RET".to_string() } else { continue }
                }
                16 | 17 => format!("U {}", r.pick(&SCRIPT_NAMES)),
                18 => format!("G {}", operand(r)),
                19 => format!("SP {}", r.pick(&["", "p", "p q"])),
                _ => format!("L {}", operand(r)),
            };
            return s.split_whitespace().collect::<Vec<_>>().join(" ");
        }
    };
    let body = |r: &mut Rng, callee: Option<&str>, in_fn: bool, n: usize| -> String {
        let mut v: Vec<String> = (0..n).map(|_| stmt(r, callee, in_fn)).collect();
        // motifs that need a function context: a local shadowing an outer variable that is then
        // unset / marked read-only / exported from inside the function
        if in_fn && r.chance(1, 3) {
            let m = r.pick(&SCRIPT_NAMES).to_string();
            let motif: Vec<String> = match r.below(5) {
                0 => vec![format!("L {m}=1"), format!("U {m}")],
                1 => vec![format!("L {m}"), format!("UV {m}")],
                2 => vec![format!("R {m}")],
                3 => vec![format!("R {m}=Q")],
                _ => vec![format!("L {m}=2"), format!("EX {m}")],
            };
            let at = r.below(v.len() + 1);
            for (k, st) in motif.into_iter().enumerate() {
                v.insert(at + k, st);
            }
        }
        v.join(" , ")
    };
    let ng = 1 + r.below(4);
    let nf = 1 + r.below(5);
    let nm = 2 + r.below(7);
    format!(
        "sh g: {} ; f: {} ; main: {}",
        body(r, None, true, ng),
        body(r, Some("g"), true, nf),
        body(r, Some("f"), false, nm)
    )
}

// ---------------------------------------------------------------------------------------------
// generators
// ---------------------------------------------------------------------------------------------

const X: &str = "78";
const Y: &str = "79";
const LINENO: &str = "4c494e454e4f";
const IFS: &str = "494653";

/// a location for `xp`: a few codes with newlines, sometimes behind one or two alias substitutions
fn random_loc(r: &mut Rng) -> String {
    let seg = |r: &mut Rng| {
        let text = *r.pick(&["61", "610a620a63", "0a0a0a", "-", "610a", "c3a90a780a79"]);
        format!("{}:{}:{}", 1 + r.below(9), r.below(8), text)
    };
    let k = [1, 1, 2, 3][r.below(4)];
    (0..k).map(|_| seg(r)).collect::<Vec<_>>().join("@")
}

fn alphabet(thorough: bool) -> Vec<String> {
    let mut ops: Vec<String> = vec!["pr".into(), "pv".into(), "pop".into()];
    for s in ["g", "l", "v"] {
        ops.push(format!("as {X} {s} s:31 1"));
        ops.push(format!("as {X} {s} s:32 2"));
        ops.push(format!("ex {X} {s} 1"));
        ops.push(format!("ro {X} {s} 7"));
        ops.push(format!("un {X} {s}"));
        ops.push(format!("gn {X} {s}"));
    }
    ops.push(format!("as {Y} g s:33 3"));
    ops.push(format!("as {Y} v s:34 4"));
    ops.push(format!("un {Y} l"));
    ops.push(format!("sq {X} l L"));
    if thorough {
        // (`init` is not in the breadth-first alphabet: six more names in every observation; one
        // random history in five starts with it)
        ops.push(format!("sq {X} v L"));
        ops.push(format!("sq {X} g -"));
        ops.push("pr 61".into());
        ops.push(format!("ex {X} g 0"));
        ops.push(format!("as {Y} l a:35,36 5"));
        ops.push(format!("ro {Y} g 8"));
        ops.push(format!("ex {Y} v 1"));
        ops.push(format!("ee {X} 39"));
    }
    ops
}

fn random_case(r: &mut Rng, thorough: bool) -> String {
    let names = [X, Y, "653d71", "7a00"]; // x, y, "e=q", "z\0"
    let values = [
        "s:31", "s:32", "s:-", "s:612062", "s:760077", "a:", "a:61", "a:61,62", "a:-,63",
    ];
    let len = 4 + r.below(if thorough { 60 } else { 36 });
    let mut ops: Vec<String> = vec![];
    let mut kinds: Vec<bool> = vec![true]; // true = regular
    let mut next_loc = 1;
    // one history in five starts like the shell does (`init`), and then also works on LINENO / IFS
    let with_init = r.chance(1, 5);
    if with_init {
        ops.push("init".to_string());
    }
    for _ in 0..len {
        let name = if with_init && r.chance(1, 2) {
            *r.pick(&[LINENO, LINENO, IFS])
        } else if r.chance(3, 5) {
            X
        } else {
            *r.pick(&names)
        };
        // mostly a scope that makes sense here, sometimes any
        let top_vol = !*kinds.last().unwrap();
        let scope = if r.chance(1, 8) {
            *r.pick(&["g", "l", "v"])
        } else if top_vol {
            *r.pick(&["g", "l", "v", "v"])
        } else {
            *r.pick(&["g", "l", "l"])
        };
        let op = match r.below(24) {
            20 | 21 => format!("sq {name} {scope} {}", if r.chance(3, 4) { "L" } else { "-" }),
            22 => format!("xp {name} {}", random_loc(r)),
            23 => {
                if r.chance(1, 4) { "init".to_string() } else { format!("xp {name} {}", random_loc(r)) }
            }
            0 | 1 => {
                kinds.push(true);
                if r.chance(1, 2) { "pr".to_string() } else { format!("pr {}", r.pick(&["61", "61 62", "-"])) }
            }
            2 | 3 | 4 => {
                kinds.push(false);
                "pv".to_string()
            }
            5 | 6 | 7 => {
                if kinds.len() > 1 {
                    kinds.pop();
                }
                "pop".to_string()
            }
            8 | 9 | 10 | 11 | 12 => {
                next_loc += 1;
                let l = if r.chance(1, 4) { "-".to_string() } else { next_loc.to_string() };
                format!("as {name} {scope} {} {l}", r.pick(&values))
            }
            13 | 14 => format!("ex {name} {scope} {}", if r.chance(3, 4) { 1 } else { 0 }),
            15 => {
                next_loc += 1;
                format!("ro {name} {scope} {next_loc}")
            }
            16 | 17 => format!("un {name} {scope}"),
            18 => {
                if r.chance(1, 2) { format!("gn {name} {scope}") } else { format!("ee {name} {}", r.pick(&["31", "-", "37"])) }
            }
            _ => format!("sp {}", r.pick(&["", "61", "62 63"])).trim().to_string(),
        };
        ops.push(op);
    }
    ops.join("; ")
}

fn main() {
    quiet_panics();
    let o = Opts::from_args();
    let (fixed, only) = o.fixed_cases();
    for c in &fixed {
        let (obs, oracle, _) = run_guarded(c);
        emit(c, &obs, &oracle);
    }
    if only {
        return;
    }
    // breadth-first over histories, deduplicating on the full state of the naive stack of maps
    let depth = if o.thorough() { 5 } else { 4 };
    let alpha = alphabet(o.thorough());
    let mut seen: HashSet<String> = HashSet::new();
    let mut queue: VecDeque<(String, usize)> = VecDeque::new();
    queue.push_back((String::new(), 0));
    seen.insert(Naive::new().key());
    let mut edges = 0usize;
    while let Some((hist, d)) = queue.pop_front() {
        if d >= depth {
            continue;
        }
        for op in &alpha {
            let case = if hist.is_empty() { op.clone() } else { format!("{hist}; {op}") };
            let (obs, oracle, key) = run_guarded(&case);
            edges += 1;
            if edges % o.shard.1 == o.shard.0 {
                emit(&case, &obs, &oracle);
            }
            if seen.insert(key) {
                queue.push_back((case, d + 1));
            }
        }
    }
    // random long histories: more names (one with `=`, one with NUL), arrays, NUL in values
    let mut rng = Rng::new(o.seed ^ 0xC16);
    let n = if o.thorough() { 60_000 } else { 3_000 };
    for k in 0..n {
        if k % o.shard.1 != o.shard.0 {
            rng.next();
            continue;
        }
        let mut r = rng.fork();
        let case = random_case(&mut r, o.thorough());
        let (obs, oracle, _) = run_guarded(&case);
        emit(&case, &obs, &oracle);
    }
    // scripts through the whole shell
    let mut rng = Rng::new(o.seed ^ 0x5C16);
    let n = if o.thorough() { 20_000 } else { 1_000 };
    for k in 0..n {
        if k % o.shard.1 != o.shard.0 {
            rng.next();
            continue;
        }
        let mut r = rng.fork();
        let case = random_script(&mut r);
        let (obs, oracle, _) = run_guarded(&case);
        emit(&case, &obs, &oracle);
    }
}
