//! C16 — variable scope, lifetime and attributes: histories of operations against the real
//! `VariableSet` (yash-env/src/variable.rs), in lock-step with a naive stack-of-maps.
//!
//! Case line: operations separated by `;` (syntax in /verif/lean/YashModel/Variable/Main.lean);
//! a case starting with `sh ` is a script run through the whole shell (see `script_case`).
//! Observation: after every operation its result, `get`/`get_scoped` of every name mentioned,
//! `iter` per scope (sorted), `env_c_strings` (sorted), positional parameters.
//! Oracle: (1) the same observation computed on a naive stack of maps written here in Rust,
//! (2) environment = exported visible variables with their current values, evaluated through
//! `get`, (3) a failed `assign`/`unset` (read-only) changes nothing.
//!
//! `push_context` returns an RAII guard and there is no public pop, so the operation sequence is
//! interpreted recursively: `p*` recurses with the guard alive, `pop` returns (unmatched pops are
//! ignored), the end of the case drops every guard without further observation.

use std::collections::{BTreeMap, HashSet, VecDeque};
use yash_env::source::Location;
use yash_env::variable::{Context, PositionalParams, Scope, Value, Variable, VariableSet};
use yverif::proto::{Opts, dec_str, emit, enc_bytes, enc_str, guarded, quiet_panics};
use yverif::rng::Rng;

#[derive(Clone, Debug)]
enum Op {
    PushR(Vec<String>),
    PushV,
    Pop,
    Gn(String, Scope),
    As(String, Scope, Value, Option<u64>),
    Ex(String, Scope, bool),
    Ro(String, Scope, u64),
    Un(String, Scope),
    Sp(Vec<String>),
}

fn parse_scope(t: &str) -> Option<Scope> {
    Some(match t {
        "g" => Scope::Global,
        "l" => Scope::Local,
        "v" => Scope::Volatile,
        _ => return None,
    })
}

fn parse_value(t: &str) -> Option<Value> {
    if let Some(r) = t.strip_prefix("s:") {
        return Some(Value::Scalar(dec_str(r)?));
    }
    let r = t.strip_prefix("a:")?;
    if r.is_empty() {
        return Some(Value::Array(vec![]));
    }
    Some(Value::Array(
        r.split(',').map(dec_str).collect::<Option<Vec<_>>>()?,
    ))
}

fn parse_op(t: &str) -> Option<Op> {
    let w: Vec<&str> = t.split_whitespace().collect();
    let strs = |ws: &[&str]| ws.iter().map(|s| dec_str(s)).collect::<Option<Vec<_>>>();
    Some(match w.as_slice() {
        ["pr", ps @ ..] => Op::PushR(strs(ps)?),
        ["pv"] => Op::PushV,
        ["pop"] => Op::Pop,
        ["gn", n, s] => Op::Gn(dec_str(n)?, parse_scope(s)?),
        ["as", n, s, v, l] => Op::As(
            dec_str(n)?,
            parse_scope(s)?,
            parse_value(v)?,
            if *l == "-" { None } else { Some(l.parse().ok()?) },
        ),
        ["ex", n, s, b] => Op::Ex(dec_str(n)?, parse_scope(s)?, b.parse::<u32>().ok()? != 0),
        ["ro", n, s, l] => Op::Ro(dec_str(n)?, parse_scope(s)?, l.parse().ok()?),
        ["un", n, s] => Op::Un(dec_str(n)?, parse_scope(s)?),
        ["sp", ps @ ..] => Op::Sp(strs(ps)?),
        _ => return None,
    })
}

fn loc(n: u64) -> Location {
    Location::dummy(n.to_string())
}

fn show_loc(l: &Option<Location>) -> String {
    match l {
        Some(l) => l.code.value.borrow().clone(),
        None => "-".into(),
    }
}

fn show_value(v: &Option<Value>) -> String {
    match v {
        None => "~".into(),
        Some(Value::Scalar(s)) => format!("s:{}", enc_str(s)),
        Some(Value::Array(vs)) => format!(
            "a:{}",
            vs.iter().map(|s| enc_str(s)).collect::<Vec<_>>().join(",")
        ),
    }
}

fn show_var(v: &Variable) -> String {
    format!(
        "{}/{}/{}/{}",
        show_value(&v.value),
        v.is_exported as u8,
        show_loc(&v.read_only_location),
        show_loc(&v.last_assigned_location)
    )
}

fn show_opt_var(v: Option<&Variable>) -> String {
    v.map(show_var).unwrap_or_else(|| "-".into())
}

/// What a state offers to an observer (the real set and the naive one both implement it).
trait View {
    fn get(&self, n: &str) -> Option<Variable>;
    fn get_scoped(&self, n: &str, s: Scope) -> Option<Variable>;
    fn iter(&self, s: Scope) -> Vec<(String, Variable)>;
    fn env(&self) -> Vec<Vec<u8>>;
    fn params(&self) -> Vec<String>;
}

impl View for VariableSet {
    fn get(&self, n: &str) -> Option<Variable> {
        VariableSet::get(self, n).cloned()
    }
    fn get_scoped(&self, n: &str, s: Scope) -> Option<Variable> {
        VariableSet::get_scoped(self, n, s).cloned()
    }
    fn iter(&self, s: Scope) -> Vec<(String, Variable)> {
        VariableSet::iter(self, s)
            .map(|(n, v)| (n.to_string(), v.clone()))
            .collect()
    }
    fn env(&self) -> Vec<Vec<u8>> {
        self.env_c_strings()
            .into_iter()
            .map(|c| c.into_bytes())
            .collect()
    }
    fn params(&self) -> Vec<String> {
        self.positional_params().values.clone()
    }
}

fn show_env(mut e: Vec<Vec<u8>>) -> String {
    let mut v: Vec<String> = e
        .drain(..)
        .map(|b| match b.iter().position(|c| *c == b'=') {
            Some(p) => format!("{}={}", enc_bytes(&b[..p]), enc_bytes(&b[p + 1..])),
            None => format!("?{}", enc_bytes(&b)),
        })
        .collect();
    v.sort();
    v.join(",")
}

fn observe<V: View + ?Sized>(s: &V, r: &str, names: &[String]) -> String {
    let mut out = format!("r={r}");
    for n in names {
        out.push_str(&format!(
            " {}={}|{}|{}|{}",
            enc_str(n),
            show_opt_var(s.get(n).as_ref()),
            show_opt_var(s.get_scoped(n, Scope::Global).as_ref()),
            show_opt_var(s.get_scoped(n, Scope::Local).as_ref()),
            show_opt_var(s.get_scoped(n, Scope::Volatile).as_ref()),
        ));
    }
    for (tag, sc) in [("ig", Scope::Global), ("il", Scope::Local), ("iv", Scope::Volatile)] {
        let mut v: Vec<String> = s
            .iter(sc)
            .iter()
            .map(|(n, v)| format!("{}={}", enc_str(n), show_var(v)))
            .collect();
        v.sort();
        out.push_str(&format!(" {tag}={}", v.join(",")));
    }
    out.push_str(&format!(" env={}", show_env(s.env())));
    out.push_str(&format!(
        " pp={}",
        s.params().iter().map(|p| enc_str(p)).collect::<Vec<_>>().join(",")
    ));
    out
}

// ---------------------------------------------------------------------------------------------
// the naive stack of maps (bottom first), written from the documentation, not from the code
// ---------------------------------------------------------------------------------------------

#[derive(Clone, Debug)]
struct NCtx {
    regular: bool,
    params: Vec<String>,
    vars: BTreeMap<String, Variable>,
}

#[derive(Clone, Debug)]
struct Naive {
    ctxs: Vec<NCtx>,
}

impl Naive {
    fn new() -> Naive {
        Naive {
            ctxs: vec![NCtx { regular: true, params: vec![], vars: BTreeMap::new() }],
        }
    }
    fn top_regular(&self) -> usize {
        self.ctxs.iter().rposition(|c| c.regular).unwrap_or(0)
    }
    fn first_ctx(&self, s: Scope) -> usize {
        match s {
            Scope::Global => 0,
            Scope::Local => self.top_regular(),
            Scope::Volatile => self.top_regular() + 1,
        }
    }
    /// index of the context whose variable is visible
    fn defining(&self, n: &str) -> Option<usize> {
        self.ctxs.iter().rposition(|c| c.vars.contains_key(n))
    }
    fn visible_mut(&mut self, n: &str) -> Option<&mut Variable> {
        let i = self.defining(n)?;
        self.ctxs[i].vars.get_mut(n)
    }
    /// returns false for the documented panic
    fn get_or_new(&mut self, n: &str, s: Scope) -> bool {
        match s {
            Scope::Global | Scope::Local => {
                let target = self.first_ctx(s);
                let mut carried: Option<Variable> = None;
                for i in (target..self.ctxs.len()).rev() {
                    if self.ctxs[i].regular {
                        if let Some(v) = self.ctxs[i].vars.get_mut(n) {
                            if let Some(c) = carried {
                                *v = c;
                            }
                            return true;
                        }
                    } else if let Some(v) = self.ctxs[i].vars.remove(n) {
                        carried.get_or_insert(v);
                    }
                }
                self.ctxs[target]
                    .vars
                    .insert(n.to_string(), carried.unwrap_or_default());
                true
            }
            Scope::Volatile => {
                if self.ctxs.last().unwrap().regular {
                    return false;
                }
                let vis = self.get(n).unwrap_or_default();
                self.ctxs
                    .last_mut()
                    .unwrap()
                    .vars
                    .entry(n.to_string())
                    .or_insert(vis);
                true
            }
        }
    }
    fn apply(&mut self, op: &Op) -> String {
        match op {
            Op::PushR(ps) => {
                self.ctxs.push(NCtx { regular: true, params: ps.clone(), vars: BTreeMap::new() });
                "done".into()
            }
            Op::PushV => {
                self.ctxs.push(NCtx { regular: false, params: vec![], vars: BTreeMap::new() });
                "done".into()
            }
            Op::Pop => {
                if self.ctxs.len() > 1 {
                    self.ctxs.pop();
                }
                "done".into()
            }
            Op::Gn(n, s) => {
                if self.get_or_new(n, *s) { "done".into() } else { "novol".into() }
            }
            Op::As(n, s, v, l) => {
                if !self.get_or_new(n, *s) {
                    return "novol".into();
                }
                let var = self.visible_mut(n).unwrap();
                if var.read_only_location.is_some() {
                    return format!("ro({})", show_loc(&var.read_only_location));
                }
                let old = var.value.replace(v.clone());
                let old_loc = std::mem::replace(&mut var.last_assigned_location, l.map(loc));
                format!("as({},{})", show_value(&old), show_loc(&old_loc))
            }
            Op::Ex(n, s, b) => {
                if !self.get_or_new(n, *s) {
                    return "novol".into();
                }
                self.visible_mut(n).unwrap().is_exported = *b;
                "done".into()
            }
            Op::Ro(n, s, l) => {
                if !self.get_or_new(n, *s) {
                    return "novol".into();
                }
                let var = self.visible_mut(n).unwrap();
                if var.read_only_location.is_none() {
                    var.read_only_location = Some(loc(*l));
                }
                "done".into()
            }
            Op::Un(n, s) => {
                let from = self.first_ctx(*s).min(self.ctxs.len());
                for c in self.ctxs[from..].iter().rev() {
                    if let Some(v) = c.vars.get(n) {
                        if v.read_only_location.is_some() {
                            return format!("ro({})", show_loc(&v.read_only_location));
                        }
                    }
                }
                let mut top = None;
                for c in self.ctxs[from..].iter_mut().rev() {
                    if let Some(v) = c.vars.remove(n) {
                        top.get_or_insert(v);
                    }
                }
                format!("un({})", show_opt_var(top.as_ref()))
            }
            Op::Sp(ps) => {
                let i = self.top_regular();
                self.ctxs[i].params = ps.clone();
                "done".into()
            }
        }
    }
    fn key(&self) -> String {
        let mut s = String::new();
        for c in &self.ctxs {
            s.push_str(if c.regular { "R" } else { "V" });
            s.push_str(&c.params.join("\u{1}"));
            s.push('{');
            for (n, v) in &c.vars {
                s.push_str(&format!("{}={};", enc_str(n), show_var(v)));
            }
            s.push('}');
        }
        s
    }
}

impl View for Naive {
    fn get(&self, n: &str) -> Option<Variable> {
        self.defining(n).map(|i| self.ctxs[i].vars[n].clone())
    }
    fn get_scoped(&self, n: &str, s: Scope) -> Option<Variable> {
        let i = self.defining(n)?;
        (i >= self.first_ctx(s)).then(|| self.ctxs[i].vars[n].clone())
    }
    fn iter(&self, s: Scope) -> Vec<(String, Variable)> {
        let mut names: Vec<&String> = self.ctxs.iter().flat_map(|c| c.vars.keys()).collect();
        names.sort();
        names.dedup();
        names
            .into_iter()
            .filter_map(|n| self.get_scoped(n, s).map(|v| (n.clone(), v)))
            .collect()
    }
    fn env(&self) -> Vec<Vec<u8>> {
        self.iter(Scope::Global)
            .into_iter()
            .filter_map(|(n, v)| env_entry(&n, &v))
            .collect()
    }
    fn params(&self) -> Vec<String> {
        self.ctxs[self.top_regular()].params.clone()
    }
}

/// "the environment handed to executed programs is exactly the exported variables with their
/// current values" (names with `=` and strings with NUL cannot be passed and are left out)
fn env_entry(n: &str, v: &Variable) -> Option<Vec<u8>> {
    if !v.is_exported || n.contains('=') {
        return None;
    }
    let val = match v.value.as_ref()? {
        Value::Scalar(s) => s.clone(),
        Value::Array(vs) => vs.join(":"),
    };
    let s = format!("{n}={val}");
    if s.contains('\0') { None } else { Some(s.into_bytes()) }
}

// ---------------------------------------------------------------------------------------------
// running a history on the real set
// ---------------------------------------------------------------------------------------------

struct Run<'a> {
    ops: &'a [Op],
    names: Vec<String>,
    i: usize,
    obs: Vec<String>,
    naive: Naive,
    verdict: Option<String>,
}

impl Run<'_> {
    /// records the observation of operation `k` (result `r`) and evaluates the oracle
    fn after(&mut self, vs: &VariableSet, k: usize, r: &str, before: Option<&str>) {
        let nr = self.naive.apply(&self.ops[k]);
        let o = observe(vs, r, &self.names);
        if self.verdict.is_none() {
            let no = observe(&self.naive, &nr, &self.names);
            if no != o {
                self.verdict = Some(format!("FAIL:naive@{k}"));
            } else {
                // environment = exported visible variables with their current values (via `get`)
                let mut want: Vec<Vec<u8>> = vs
                    .iter(Scope::Global)
                    .filter_map(|(n, _)| env_entry(n, VariableSet::get(vs, n)?))
                    .collect();
                want.sort();
                let mut have = View::env(vs);
                have.sort();
                if want != have {
                    self.verdict = Some(format!("FAIL:env@{k}"));
                }
                // a refused assignment / unset leaves everything as it was
                if r.starts_with("ro(") && matches!(self.ops[k], Op::Un(..)) {
                    if let Some(b) = before {
                        if strip_r(b) != strip_r(&o) {
                            self.verdict = Some(format!("FAIL:readonly-unset-changed@{k}"));
                        }
                    }
                }
                if r.starts_with("ro(") {
                    if let Op::As(n, ..) = &self.ops[k] {
                        let v = VariableSet::get(vs, n);
                        if !v.map(|v| v.is_read_only()).unwrap_or(false) {
                            self.verdict = Some(format!("FAIL:readonly-assign@{k}"));
                        }
                    }
                }
            }
        }
        self.obs.push(o);
    }
}

fn strip_r(o: &str) -> &str {
    o.split_once(' ').map(|x| x.1).unwrap_or("")
}

fn apply_real(vs: &mut VariableSet, op: &Op) -> String {
    let r = guarded(|| match op {
        Op::Gn(n, s) => {
            vs.get_or_new(n.as_str(), *s);
            "done".into()
        }
        Op::As(n, s, v, l) => {
            let mut var = vs.get_or_new(n.as_str(), *s);
            match var.assign(v.clone(), l.map(loc)) {
                Ok((old, old_loc)) => format!("as({},{})", show_value(&old), show_loc(&old_loc)),
                Err(e) => format!("ro({})", show_loc(&Some(e.read_only_location))),
            }
        }
        Op::Ex(n, s, b) => {
            vs.get_or_new(n.as_str(), *s).export(*b);
            "done".into()
        }
        Op::Ro(n, s, l) => {
            vs.get_or_new(n.as_str(), *s).make_read_only(loc(*l));
            "done".into()
        }
        Op::Un(n, s) => match vs.unset(n, *s) {
            Ok(v) => format!("un({})", show_opt_var(v.as_ref())),
            Err(e) => format!("ro({})", show_loc(&Some(e.read_only_location.clone()))),
        },
        Op::Sp(ps) => {
            vs.positional_params_mut().values = ps.clone();
            "done".into()
        }
        Op::PushR(_) | Op::PushV | Op::Pop => unreachable!(),
    });
    // the documented panic of `get_or_new(_, Scope::Volatile)` without a volatile top context
    if r.starts_with("PANIC") && r.contains("no volatile context to store the variable") {
        "novol".into()
    } else {
        r
    }
}

/// returns true when it ended with a `pop` (whose observation the caller makes after the drop)
fn exec(vs: &mut VariableSet, run: &mut Run, depth: usize) -> bool {
    while run.i < run.ops.len() {
        let k = run.i;
        run.i += 1;
        let ops = run.ops;
        match &ops[k] {
            Op::PushR(_) | Op::PushV => {
                let ctx = match &ops[k] {
                    Op::PushR(ps) => Context::Regular {
                        positional_params: PositionalParams {
                            values: ps.clone(),
                            last_modified_location: None,
                        },
                    },
                    _ => Context::Volatile,
                };
                let mut g = vs.push_context(ctx);
                run.after(&*g, k, "done", None);
                let popped = exec(&mut *g, run, depth + 1);
                let r = guarded(|| {
                    drop(g);
                    "done".into()
                });
                if !popped {
                    return false;
                }
                let kp = run.i - 1;
                run.after(vs, kp, &r, None);
            }
            Op::Pop => {
                if depth > 0 {
                    return true;
                }
                run.after(vs, k, "done", None);
            }
            op => {
                let before = observe(&*vs, "", &run.names);
                let r = apply_real(vs, op);
                run.after(vs, k, &r, Some(&before));
            }
        }
    }
    false
}

fn names_of(ops: &[Op]) -> Vec<String> {
    let mut v: Vec<String> = ops
        .iter()
        .filter_map(|op| match op {
            Op::Gn(n, _) | Op::As(n, ..) | Op::Ex(n, ..) | Op::Ro(n, ..) | Op::Un(n, _) => {
                Some(n.clone())
            }
            _ => None,
        })
        .collect();
    v.sort_by_key(|n| enc_str(n));
    v.dedup();
    v
}

/// Runs one history; returns (observation, oracle, full naive state after the last op).
fn run_case(case: &str) -> (String, String, String) {
    let ops: Option<Vec<Op>> = case
        .split(';')
        .map(|s| s.trim())
        .filter(|s| !s.is_empty())
        .map(parse_op)
        .collect();
    let Some(ops) = ops else {
        return ("bad-case".into(), "-".into(), String::new());
    };
    let mut run = Run {
        names: names_of(&ops),
        ops: &ops,
        i: 0,
        obs: vec![],
        naive: Naive::new(),
        verdict: None,
    };
    let mut vs = VariableSet::new();
    exec(&mut vs, &mut run, 0);
    let key = run.naive.key();
    (
        run.obs.join(" | "),
        run.verdict.unwrap_or_else(|| "ok".into()),
        key,
    )
}

fn run_guarded(case: &str) -> (String, String, String) {
    let mut out = (String::new(), String::new(), String::new());
    let o = guarded(|| {
        out = run_case(case);
        out.0.clone()
    });
    if o.starts_with("PANIC") {
        (o.clone(), format!("FAIL:{o}"), String::new())
    } else {
        out
    }
}

// ---------------------------------------------------------------------------------------------
// generators
// ---------------------------------------------------------------------------------------------

const X: &str = "78";
const Y: &str = "79";

fn alphabet(thorough: bool) -> Vec<String> {
    let mut ops: Vec<String> = vec!["pr".into(), "pv".into(), "pop".into()];
    for s in ["g", "l", "v"] {
        ops.push(format!("as {X} {s} s:31 1"));
        ops.push(format!("as {X} {s} s:32 2"));
        ops.push(format!("ex {X} {s} 1"));
        ops.push(format!("ro {X} {s} 7"));
        ops.push(format!("un {X} {s}"));
        ops.push(format!("gn {X} {s}"));
    }
    ops.push(format!("as {Y} g s:33 3"));
    ops.push(format!("as {Y} v s:34 4"));
    ops.push(format!("un {Y} l"));
    if thorough {
        ops.push("pr 61".into());
        ops.push(format!("ex {X} g 0"));
        ops.push(format!("as {Y} l a:35,36 5"));
        ops.push(format!("ro {Y} g 8"));
        ops.push(format!("ex {Y} v 1"));
    }
    ops
}

fn random_case(r: &mut Rng, thorough: bool) -> String {
    let names = [X, Y, "653d71", "7a00"]; // x, y, "e=q", "z\0"
    let values = [
        "s:31", "s:32", "s:-", "s:612062", "s:760077", "a:", "a:61", "a:61,62", "a:-,63",
    ];
    let len = 4 + r.below(if thorough { 60 } else { 36 });
    let mut ops: Vec<String> = vec![];
    let mut kinds: Vec<bool> = vec![true]; // true = regular
    let mut next_loc = 1;
    for _ in 0..len {
        let name = if r.chance(3, 5) {
            X
        } else {
            *r.pick(&names)
        };
        // mostly a scope that makes sense here, sometimes any
        let top_vol = !*kinds.last().unwrap();
        let scope = if r.chance(1, 8) {
            *r.pick(&["g", "l", "v"])
        } else if top_vol {
            *r.pick(&["g", "l", "v", "v"])
        } else {
            *r.pick(&["g", "l", "l"])
        };
        let op = match r.below(20) {
            0 | 1 => {
                kinds.push(true);
                if r.chance(1, 2) { "pr".to_string() } else { format!("pr {}", r.pick(&["61", "61 62", "-"])) }
            }
            2 | 3 | 4 => {
                kinds.push(false);
                "pv".to_string()
            }
            5 | 6 | 7 => {
                if kinds.len() > 1 {
                    kinds.pop();
                }
                "pop".to_string()
            }
            8 | 9 | 10 | 11 | 12 => {
                next_loc += 1;
                let l = if r.chance(1, 4) { "-".to_string() } else { next_loc.to_string() };
                format!("as {name} {scope} {} {l}", r.pick(&values))
            }
            13 | 14 => format!("ex {name} {scope} {}", if r.chance(3, 4) { 1 } else { 0 }),
            15 => {
                next_loc += 1;
                format!("ro {name} {scope} {next_loc}")
            }
            16 | 17 => format!("un {name} {scope}"),
            18 => format!("gn {name} {scope}"),
            _ => format!("sp {}", r.pick(&["", "61", "62 63"])).trim().to_string(),
        };
        ops.push(op);
    }
    ops.join("; ")
}

fn main() {
    quiet_panics();
    let o = Opts::from_args();
    let (fixed, only) = o.fixed_cases();
    for c in &fixed {
        let (obs, oracle, _) = run_guarded(c);
        emit(c, &obs, &oracle);
    }
    if only {
        return;
    }
    // breadth-first over histories, deduplicating on the full state of the naive stack of maps
    let depth = if o.thorough() { 5 } else { 4 };
    let alpha = alphabet(o.thorough());
    let mut seen: HashSet<String> = HashSet::new();
    let mut queue: VecDeque<(String, usize)> = VecDeque::new();
    queue.push_back((String::new(), 0));
    seen.insert(Naive::new().key());
    let mut edges = 0usize;
    while let Some((hist, d)) = queue.pop_front() {
        if d >= depth {
            continue;
        }
        for op in &alpha {
            let case = if hist.is_empty() { op.clone() } else { format!("{hist}; {op}") };
            let (obs, oracle, key) = run_guarded(&case);
            edges += 1;
            if edges % o.shard.1 == o.shard.0 {
                emit(&case, &obs, &oracle);
            }
            if seen.insert(key) {
                queue.push_back((case, d + 1));
            }
        }
    }
    // random long histories: more names (one with `=`, one with NUL), arrays, NUL in values
    let mut rng = Rng::new(o.seed ^ 0xC16);
    let n = if o.thorough() { 60_000 } else { 3_000 };
    for k in 0..n {
        if k % o.shard.1 != o.shard.0 {
            rng.next();
            continue;
        }
        let mut r = rng.fork();
        let case = random_case(&mut r, o.thorough());
        let (obs, oracle, _) = run_guarded(&case);
        emit(&case, &obs, &oracle);
    }
}
