//! C19 — the simulated OS (`VirtualSystem`) and the real OS (`RealSystem` on this Linux kernel) give the
//! shell the same observable behaviour.  Three-way check against the Lean pivot `Kernel.Model`.
//!
//! Two kinds of case (see /verif/lean/YashModel/Kernel/Main.lean):
//!
//! * `S <class> lim=<N>; <op>; <op>; …` — a sequence of system calls made through the `System` traits of
//!   yash-env on (1) a fresh `VirtualSystem` and (2) `RealSystem` in a forked child whose working
//!   directory is a fresh scratch tree under `std::env::temp_dir()`.  Observation = one token per
//!   operation (`=<value>`, `ok`, or the errno NAME) + the final state (tree, descriptor table, cwd,
//!   umask).  impl column = the VirtualSystem's observation; oracle = `FAIL:real-differs(...)` when the
//!   RealSystem's differs; model column (Lean) = the pivot's.
//! * `H <tag> <hex script> real=<observation>` — a deterministic script over the built-ins of the real
//!   binary, run once by `yverif::shell` on the virtual system and once by the real `yash3` binary
//!   (built from /repo at start-up) in a scratch directory.  Observation = stdout, exit status, final
//!   file tree.  The real observation travels in the case (the Lean driver echoes it: the pivot has no
//!   shell interpreter), impl column = virtual, oracle as above.
//!
//! The real legs only ever use relative paths below the scratch root; a path that would lexically
//! climb above it is answered `ESCAPE` by all three parties without being executed.

use futures_util::FutureExt as _;
use std::cell::RefCell;
use std::ffi::CString;
use std::io::{Read as _, SeekFrom};
use std::os::unix::fs::PermissionsExt as _;
use std::os::unix::process::CommandExt as _;
use std::path::{Path as StdPath, PathBuf as StdPathBuf};
use std::rc::Rc;
use yash_env::io::Fd;
use yash_env::system::real::RealSystem;
use yash_env::system::resource::{LimitPair, Resource, SetRlimit};
use yash_env::system::r#virtual::{FileBody, Inode, SystemState, VirtualSystem};
use yash_env::system::{
    Chdir, Close, Dir as _, Dup, Errno, Fcntl, FdFlag, FileType, Fstat, GetCwd, Mode, OfdAccess,
    Open, OpenFlag, Read, Seek, Stat as _, Umask, Write,
};
use yverif::proto::{Opts, dec_str, emit, enc_bytes, enc_str, guarded, quiet_panics};
use yverif::rng::Rng;

// ------------------------------------------------------------------------------------------
// common

fn errno_name(e: Errno) -> String {
    let table: [(Errno, &str); 18] = [
        (Errno::EBADF, "EBADF"),
        (Errno::ENOENT, "ENOENT"),
        (Errno::ENOTDIR, "ENOTDIR"),
        (Errno::EISDIR, "EISDIR"),
        (Errno::EEXIST, "EEXIST"),
        (Errno::EMFILE, "EMFILE"),
        (Errno::EINVAL, "EINVAL"),
        (Errno::EACCES, "EACCES"),
        (Errno::ESPIPE, "ESPIPE"),
        (Errno::EAGAIN, "EAGAIN"),
        (Errno::EPIPE, "EPIPE"),
        (Errno::ELOOP, "ELOOP"),
        (Errno::ENOTSUP, "ENOTSUP"),
        (Errno::EOVERFLOW, "EOVERFLOW"),
        (Errno::ENFILE, "ENFILE"),
        (Errno::EPERM, "EPERM"),
        (Errno::ESRCH, "ESRCH"),
        (Errno::ECHILD, "ECHILD"),
    ];
    for (k, n) in table {
        if k == e {
            return n.to_string();
        }
    }
    format!("E{}", e.0)
}

/// The initial tree of both kinds of case: (relative path, Some(content) | None = directory).
fn initial_tree(shell: bool) -> Vec<(&'static str, Option<&'static [u8]>)> {
    let (f1, g): (&[u8], &[u8]) = if shell { (b"hello\n", b"abc\n") } else { (b"hello", b"abc") };
    vec![
        ("f1", Some(f1)),
        ("f2", Some(b"")),
        ("d1", None),
        ("d1/g", Some(g)),
        ("d1/dd", None),
        ("d2", None),
    ]
}

fn dir_inode() -> Rc<RefCell<Inode>> {
    Rc::new(RefCell::new(Inode {
        body: FileBody::Directory { files: Default::default() },
        permissions: Mode::from_bits_retain(0o755),
    }))
}

fn populate_virtual(state: &RefCell<SystemState>, root: &str, shell: bool) {
    let mut st = state.borrow_mut();
    if !root.is_empty() {
        st.file_system.save(root, dir_inode()).unwrap();
    }
    for (p, c) in initial_tree(shell) {
        let path = format!("{root}/{p}");
        let inode = match c {
            Some(bytes) => Rc::new(RefCell::new(Inode::new(bytes.to_vec()))),
            None => dir_inode(),
        };
        st.file_system.save(path.as_str(), inode).unwrap();
    }
}

fn populate_real(root: &StdPath, shell: bool) {
    std::fs::create_dir_all(root).unwrap();
    std::fs::set_permissions(root, std::fs::Permissions::from_mode(0o755)).unwrap();
    for (p, c) in initial_tree(shell) {
        let path = root.join(p);
        match c {
            Some(bytes) => {
                std::fs::write(&path, bytes).unwrap();
                std::fs::set_permissions(&path, std::fs::Permissions::from_mode(0o644)).unwrap();
            }
            None => {
                std::fs::create_dir(&path).unwrap();
                std::fs::set_permissions(&path, std::fs::Permissions::from_mode(0o755)).unwrap();
            }
        }
    }
}

/// `path:kind:mode:hex` lines of everything below `dir`, unsorted
fn dump_real_tree(dir: &StdPath, prefix: &str, out: &mut Vec<String>) {
    let Ok(rd) = std::fs::read_dir(dir) else { return };
    for e in rd.flatten() {
        let name = e.file_name().to_string_lossy().into_owned();
        let key = if prefix.is_empty() { name.clone() } else { format!("{prefix}/{name}") };
        let Ok(md) = std::fs::symlink_metadata(e.path()) else { continue };
        let mode = md.permissions().mode() & 0o7777;
        if md.is_dir() {
            out.push(format!("{key}:dir:{mode:o}:-"));
            dump_real_tree(&e.path(), &key, out);
        } else if md.is_file() {
            let c = std::fs::read(e.path()).unwrap_or_default();
            out.push(format!("{key}:reg:{mode:o}:{}", enc_bytes(&c)));
        } else if md.file_type().is_symlink() {
            let t = std::fs::read_link(e.path()).map(|t| t.to_string_lossy().into_owned()).unwrap_or_default();
            out.push(format!("{key}:link:{}", enc_str(&t)));
        } else {
            out.push(format!("{key}:other:{mode:o}:-"));
        }
    }
}

/// symbolic links added to the shell-level tree when the script mentions them (`lnk…` names)
const LINKS: [(&str, &str); 4] = [("lnkf", "f1"), ("lnkd", "d1"), ("lnkloop", "lnkloop"), ("lnkbad", "nofile")];

fn wants_links(script: &str) -> bool {
    script.contains("lnk")
}

fn dump_virtual_tree(inode: &Rc<RefCell<Inode>>, prefix: &str, skip_top: &[&str], out: &mut Vec<String>) {
    let node = inode.borrow();
    let FileBody::Directory { files } = &node.body else { return };
    for (name, child) in files {
        let name = String::from_utf8_lossy(name.as_bytes()).into_owned();
        if prefix.is_empty() && skip_top.contains(&name.as_str()) {
            continue;
        }
        let key = if prefix.is_empty() { name.clone() } else { format!("{prefix}/{name}") };
        let c = child.borrow();
        let mode = c.permissions.bits() & 0o7777;
        match &c.body {
            FileBody::Directory { .. } => {
                out.push(format!("{key}:dir:{mode:o}:-"));
                drop(c);
                dump_virtual_tree(child, &key, skip_top, out);
            }
            FileBody::Regular { content, .. } => out.push(format!("{key}:reg:{mode:o}:{}", enc_bytes(content))),
            FileBody::Symlink { target } => {
                let t = String::from_utf8_lossy(target.as_unix_str().as_bytes()).into_owned();
                out.push(format!("{key}:link:{}", enc_str(&t)))
            }
            _ => out.push(format!("{key}:other:{mode:o}:-")),
        }
    }
}

fn join_sorted(mut v: Vec<String>) -> String {
    v.sort();
    v.join(" ")
}

static COUNTER: std::sync::atomic::AtomicUsize = std::sync::atomic::AtomicUsize::new(0);

/// A fresh scratch directory under the system temporary directory (removed by `Scratch::drop`).
struct Scratch {
    base: StdPathBuf,
}

impl Scratch {
    fn new() -> Scratch {
        let n = COUNTER.fetch_add(1, std::sync::atomic::Ordering::Relaxed);
        let base = std::env::temp_dir().join(format!("yverif-c19-{}-{}", std::process::id(), n));
        let _ = std::fs::remove_dir_all(&base);
        std::fs::create_dir_all(&base).unwrap();
        Scratch { base }
    }
    fn root(&self) -> StdPathBuf {
        self.base.join("root")
    }
}

impl Drop for Scratch {
    fn drop(&mut self) {
        let _ = std::fs::remove_dir_all(&self.base);
    }
}

// ------------------------------------------------------------------------------------------
// system-call leg

/// lexical position of `cwd` below `root` (components, `..` cancelling); None if not below
fn rel_components(cwd: &str, root: &str) -> Option<Vec<String>> {
    let rest = cwd.strip_prefix(root)?;
    if !rest.is_empty() && !rest.starts_with('/') {
        return None;
    }
    let mut v: Vec<String> = vec![];
    for c in rest.split('/') {
        match c {
            "" | "." => {}
            ".." => {
                v.pop()?;
            }
            _ => v.push(c.to_string()),
        }
    }
    Some(v)
}

fn escapes(mut depth: usize, path: &str) -> bool {
    if path.is_empty() || path.starts_with('/') {
        return true; // an absolute path is never below the scratch root
    }
    for c in path.split('/') {
        match c {
            "" | "." => {}
            ".." => {
                if depth == 0 {
                    return true;
                }
                depth -= 1;
            }
            _ => depth += 1,
        }
    }
    false
}

fn now<T>(f: impl Future<Output = Result<T, Errno>>) -> Result<T, Errno> {
    match f.now_or_never() {
        Some(r) => r,
        None => Err(Errno::EAGAIN),
    }
}

fn show_stat<St: yash_env::system::Stat>(st: &St) -> String {
    let mode = st.mode().bits() & 0o7777;
    match st.r#type() {
        FileType::Regular => format!("=reg:{mode:o}:{}", st.size()),
        FileType::Directory => format!("=dir:{mode:o}"),
        FileType::Fifo => "=fifo".to_string(),
        _ => format!("=other:{mode:o}"),
    }
}

fn show_access(a: OfdAccess) -> &'static str {
    match a {
        OfdAccess::ReadOnly => "r",
        OfdAccess::WriteOnly => "w",
        OfdAccess::ReadWrite => "rw",
        _ => "x",
    }
}

/// Runs the operations through the `System` traits; returns (per-op observations, descriptor table,
/// `cwd=… umask=…`).  `root` is the absolute path of the scratch root as this system sees it.
fn run_ops<S>(
    sys: &S,
    root: &str,
    limit: u64,
    ops: &[&str],
    init: bool,
    hook: &mut dyn FnMut(&S, &str) -> Option<String>,
) -> (Vec<String>, String, String)
where
    S: Open
        + Read
        + Write
        + Seek
        + Dup
        + Close
        + Fcntl
        + Fstat
        + Chdir
        + GetCwd
        + Umask
        + SetRlimit
        + yash_env::system::Pipe
        + yash_env::system::Select
        + yash_env::system::IsExecutableFile
        + yash_env::system::resource::GetRlimit,
{
    let cstr = |p: &str| CString::new(p).unwrap();
    let cwd_rel = |sys: &S| -> Option<Vec<String>> {
        let cwd = sys.getcwd().ok()?;
        let s = String::from_utf8_lossy(cwd.as_unix_str().as_bytes()).into_owned();
        rel_components(&s, root)
    };
    let cwd_show = |sys: &S| -> String {
        match sys.getcwd() {
            Ok(cwd) => {
                let s = String::from_utf8_lossy(cwd.as_unix_str().as_bytes()).into_owned();
                match s.strip_prefix(root) {
                    Some("") => "/".to_string(),
                    Some(r) if r.starts_with('/') => r.to_string(),
                    _ => "OUTSIDE".to_string(),
                }
            }
            Err(e) => errno_name(e),
        }
    };
    let guard = |sys: &S, path: &str| -> bool {
        match cwd_rel(sys) {
            Some(v) => escapes(v.len(), path),
            None => true,
        }
    };
    let res_fd = |r: Result<Fd, Errno>| match r {
        Ok(fd) => format!("={}", fd.0),
        Err(e) => errno_name(e),
    };
    let unit = |r: Result<(), Errno>| match r {
        Ok(()) => "ok".to_string(),
        Err(e) => errno_name(e),
    };
    let is_dir_fd = |sys: &S, fd: Fd| sys.fstat(fd).is_ok_and(|st| st.r#type() == FileType::Directory);

    // `init = false`: a forked child (`X` cases) continues from what it inherited
    if init {
        sys.chdir(&cstr(root)).expect("chdir to scratch root");
        sys.umask(Mode::from_bits_retain(0o022));
        let hard = sys_hard_limit(limit);
        sys.setrlimit(Resource::NOFILE, LimitPair { soft: limit as _, hard: hard as _ }).expect("setrlimit");
    }

    let mut outs = Vec::with_capacity(ops.len());
    // descriptors that refer to an anonymous temporary file (`tmp`): its mode is not observable by a script
    // and differs (0600 from the tempfile crate, 0644 on the simulator), so `fstat` prints `=tmp:<size>`
    let mut tmp_fds: std::collections::BTreeSet<i32> = Default::default();
    for op in ops {
        let w: Vec<&str> = op.split_whitespace().collect();
        let fdarg = |i: usize| w.get(i).and_then(|s| s.parse::<i32>().ok()).map(Fd);
        let o = match w.as_slice() {
            ["open", p, a, fl, m] => {
                let access = match *a {
                    "r" => OfdAccess::ReadOnly,
                    "w" => OfdAccess::WriteOnly,
                    _ => OfdAccess::ReadWrite,
                };
                let mut flags = enumset::EnumSet::empty();
                for c in fl.chars() {
                    match c {
                        'c' => flags |= OpenFlag::Create,
                        'x' => flags |= OpenFlag::Exclusive,
                        't' => flags |= OpenFlag::Truncate,
                        'a' => flags |= OpenFlag::Append,
                        'e' => flags |= OpenFlag::CloseOnExec,
                        'd' => flags |= OpenFlag::Directory,
                        _ => {}
                    }
                }
                let mode = Mode::from_bits_retain(u32::from_str_radix(m, 8).unwrap_or(0) as _);
                if guard(sys, p) { "ESCAPE".to_string() } else { res_fd(now(sys.open(&cstr(p), access, flags, mode))) }
            }
            ["read", _, n] => match (fdarg(1), n.parse::<usize>()) {
                (Some(fd), Ok(n)) => {
                    let mut buf = vec![0u8; n];
                    match now(sys.read(fd, &mut buf)) {
                        Ok(k) => format!("={}", enc_bytes(&buf[..k])),
                        Err(e) => errno_name(e),
                    }
                }
                _ => "?".into(),
            },
            ["write", _, h] => match (fdarg(1), yverif::proto::dec_bytes(h)) {
                (Some(fd), Some(bs)) => match now(sys.write(fd, &bs)) {
                    Ok(k) => format!("={k}"),
                    Err(e) => errno_name(e),
                },
                _ => "?".into(),
            },
            ["seek", _, wh, d] => match (fdarg(1), d.parse::<i64>()) {
                (Some(fd), Ok(d)) => {
                    if is_dir_fd(sys, fd) {
                        // where a directory stream stands is file-system specific; rewinding it is not
                        match sys.lseek(fd, SeekFrom::Start(0)) {
                            Ok(0) => "dir".to_string(),
                            Ok(n) => format!("dir!{n}"),
                            Err(e) => errno_name(e),
                        }
                    } else {
                        let pos = match *wh {
                            "s" if d >= 0 => Some(SeekFrom::Start(d as u64)),
                            "s" => None,
                            "c" => Some(SeekFrom::Current(d)),
                            _ => Some(SeekFrom::End(d)),
                        };
                        match pos {
                            // SeekFrom::Start cannot express a negative offset; lseek(fd, -n, SEEK_SET) is EINVAL
                            None => match sys.lseek(fd, SeekFrom::Current(0)) {
                                Ok(_) => "EINVAL".to_string(),
                                Err(e) => errno_name(e), // EBADF, ESPIPE
                            },
                            Some(p) => match sys.lseek(fd, p) {
                                Ok(n) => format!("={n}"),
                                Err(e) => errno_name(e),
                            },
                        }
                    }
                }
                _ => "?".into(),
            },
            ["dup", _, _, c] => match (fdarg(1), fdarg(2)) {
                (Some(fd), Some(min)) => {
                    let fl = if *c == "e" { FdFlag::CloseOnExec.into() } else { enumset::EnumSet::empty() };
                    res_fd(sys.dup(fd, min, fl))
                }
                _ => "?".into(),
            },
            ["dup2", _, _] => match (fdarg(1), fdarg(2)) {
                (Some(a), Some(b)) => res_fd(sys.dup2(a, b)),
                _ => "?".into(),
            },
            ["close", _] => match fdarg(1) {
                Some(fd) => unit(sys.close(fd)),
                None => "?".into(),
            },
            ["getfd", _] => match fdarg(1) {
                Some(fd) => match sys.fcntl_getfd(fd) {
                    Ok(f) => if f.contains(FdFlag::CloseOnExec) { "=e".into() } else { "=-".into() },
                    Err(e) => errno_name(e),
                },
                None => "?".into(),
            },
            ["setfd", _, c] => match fdarg(1) {
                Some(fd) => {
                    let fl = if *c == "e" { FdFlag::CloseOnExec.into() } else { enumset::EnumSet::empty() };
                    unit(sys.fcntl_setfd(fd, fl))
                }
                None => "?".into(),
            },
            ["chdir", p] => {
                if guard(sys, p) { "ESCAPE".to_string() } else { unit(sys.chdir(&cstr(p))) }
            }
            ["umask", m] => {
                let old = sys.umask(Mode::from_bits_retain(u32::from_str_radix(m, 8).unwrap_or(0) as _));
                format!("={:o}", old.bits())
            }
            // `Open::open_tmpfile` (here-documents)
            ["tmp"] => {
                let dir = yash_env::path::PathBuf::from(root);
                res_fd(sys.open_tmpfile(&dir))
            }
            ["fstat", _] => match fdarg(1) {
                Some(fd) => match sys.fstat(fd) {
                    Ok(st) if tmp_fds.contains(&fd.0) => format!("=tmp:{}", st.size()),
                    Ok(st) => show_stat(&st),
                    Err(e) => errno_name(e),
                },
                None => "?".into(),
            },
            ["stat", p] => {
                if guard(sys, p) {
                    "ESCAPE".to_string()
                } else {
                    match sys.fstatat(yash_env::system::AT_FDCWD, &cstr(p), true) {
                        Ok(st) => show_stat(&st),
                        Err(e) => errno_name(e),
                    }
                }
            }
            ["ls", p] => {
                if guard(sys, p) {
                    "ESCAPE".to_string()
                } else {
                    match sys.opendir(&cstr(p)) {
                        Ok(mut dir) => {
                            let mut names = vec![];
                            let mut guard_n = 0;
                            while let Ok(Some(e)) = dir.next() {
                                let n = String::from_utf8_lossy(e.name.as_bytes()).into_owned();
                                if n != "." && n != ".." {
                                    names.push(n);
                                }
                                guard_n += 1;
                                if guard_n > 10_000 {
                                    break;
                                }
                            }
                            names.sort();
                            if names.is_empty() { "=-".to_string() } else { format!("={}", names.join(",")) }
                        }
                        Err(e) => errno_name(e),
                    }
                }
            }
            // `IsExecutableFile::is_executable_file` (command search); `-` is the empty path
            ["isx", p] => {
                if *p == "-" {
                    format!("={}", sys.is_executable_file(&cstr("")) as u8)
                } else if guard(sys, p) {
                    "ESCAPE".to_string()
                } else {
                    format!("={}", sys.is_executable_file(&cstr(p)) as u8)
                }
            }
            ["cwd"] => format!("={}", cwd_show(sys)),
            // a pipe, both ends switched to non-blocking mode at once (a blocking read would hang the real leg)
            ["pipe"] => match sys.pipe() {
                Ok((r, w)) => {
                    let _ = sys.get_and_set_nonblocking(r, true);
                    let _ = sys.get_and_set_nonblocking(w, true);
                    format!("={},{}", r.0, w.0)
                }
                Err(e) => errno_name(e),
            },
            ["nb", _] => match fdarg(1) {
                Some(fd) => match sys.get_and_set_nonblocking(fd, true) {
                    Ok(b) => format!("={}", b as u8),
                    Err(e) => errno_name(e),
                },
                None => "?".into(),
            },
            // fill a (non-blocking) pipe until the kernel refuses more: the capacities differ (1024 bytes on the
            // simulator, 64 KiB on Linux), the state "full" is what is compared
            ["fill", _] => match fdarg(1) {
                Some(fd) => {
                    // 256-byte chunks until refused, then single bytes until even one byte is refused
                    let chunk = [b'x'; 256];
                    let mut size = 256;
                    let mut rounds = 0;
                    loop {
                        rounds += 1;
                        match now(sys.write(fd, &chunk[..size])) {
                            Ok(_) if rounds < 200_000 => continue,
                            Ok(_) => break "NEVERFULL".to_string(),
                            Err(Errno::EAGAIN) if size > 1 => size = 1,
                            Err(Errno::EAGAIN) => break "full".to_string(),
                            Err(e) => break errno_name(e),
                        }
                    }
                }
                None => "?".into(),
            },
            // select with a zero timeout on one descriptor: is it ready for reading / writing?
            ["sel", _, dir] => match fdarg(1) {
                Some(fd) => {
                    use yash_env::system::FdSet as _;
                    let mut readers = S::FdSet::new();
                    let mut writers = S::FdSet::new();
                    if *dir == "r" { readers.insert(fd) } else { writers.insert(fd) }
                    let r = sys
                        .select(&mut readers, &mut writers, Some(std::time::Duration::ZERO), None)
                        .now_or_never();
                    match r {
                        None => "BLOCKED".to_string(),
                        Some(Err(e)) => errno_name(e),
                        Some(Ok(_)) => {
                            let ready = if *dir == "r" { readers.contains(fd) } else { writers.contains(fd) };
                            format!("={}", ready as u8)
                        }
                    }
                }
                None => "?".into(),
            },
            ["rlim"] => match sys.getrlimit(Resource::NOFILE) {
                Ok(l) => format!("={}", l.soft),
                Err(e) => errno_name(e),
            },
            ["acc", _] => match fdarg(1) {
                Some(fd) => match sys.ofd_access(fd) {
                    Ok(a) => format!("={}", show_access(a)),
                    Err(e) => errno_name(e),
                },
                None => "?".into(),
            },
            _ => hook(sys, op).unwrap_or_else(|| "?".to_string()),
        };
        // keep track of which descriptor numbers name a temporary file
        let new_fd = o.strip_prefix('=').and_then(|n| n.parse::<i32>().ok());
        match (w.first().copied(), new_fd) {
            (Some("tmp"), Some(n)) => {
                tmp_fds.insert(n);
            }
            (Some("dup"), Some(n)) | (Some("dup2"), Some(n)) => {
                let src = w.get(1).and_then(|s| s.parse::<i32>().ok()).unwrap_or(-1);
                if src != n {
                    if tmp_fds.contains(&src) {
                        tmp_fds.insert(n);
                    } else {
                        tmp_fds.remove(&n);
                    }
                }
            }
            (Some("open"), Some(n)) => {
                tmp_fds.remove(&n);
            }
            (Some("close"), _) => {
                if let Some(fd) = w.get(1).and_then(|s| s.parse::<i32>().ok()) {
                    tmp_fds.remove(&fd);
                }
            }
            (Some("pipe"), _) => {
                if let Some((a, b)) = o.strip_prefix('=').and_then(|p| p.split_once(',')) {
                    for n in [a, b] {
                        if let Ok(n) = n.parse::<i32>() {
                            tmp_fds.remove(&n);
                        }
                    }
                }
            }
            _ => {}
        }
        outs.push(o);
    }

    // final descriptor table
    let mut fds = vec![];
    for n in 0..(limit.min(256) as i32) {
        let fd = Fd(n);
        let Ok(fl) = sys.fcntl_getfd(fd) else { continue };
        let acc = sys.ofd_access(fd).map(show_access).unwrap_or("?");
        let off = if is_dir_fd(sys, fd) {
            "d".to_string()
        } else {
            match sys.lseek(fd, SeekFrom::Current(0)) {
                Ok(n) => n.to_string(),
                Err(e) => errno_name(e),
            }
        };
        fds.push(format!("{n}:{acc}:{}:{off}", if fl.contains(FdFlag::CloseOnExec) { "e" } else { "-" }));
    }
    let m = sys.umask(Mode::empty());
    sys.umask(m);
    (outs, fds.join(" "), format!("cwd={} umask={:o}", cwd_show(sys), m.bits()))
}

/// hard limit to pass along with the soft one: the current hard limit of this process (never raised)
fn sys_hard_limit(soft: u64) -> u64 {
    let mut r = libc::rlimit { rlim_cur: 0, rlim_max: 0 };
    // SAFETY: plain getrlimit on a local struct
    let ok = unsafe { libc::getrlimit(libc::RLIMIT_NOFILE, &mut r) } == 0;
    if ok { (r.rlim_max as u64).max(soft) } else { soft }
}

fn compose(outs: &[String], tree: &str, fds: &str, tail: &str) -> String {
    format!("{} | T {} | F {} | {}", outs.join(" "), tree, fds, tail)
}

fn seq_virtual(limit: u64, ops: &[&str]) -> String {
    let sys = VirtualSystem::new();
    populate_virtual(&sys.state, "/w", false);
    let (outs, fds, tail) = run_ops(&sys, "/w", limit, ops, true, &mut |_, _| None);
    let mut lines = vec![];
    let root = sys.state.borrow().file_system.get("/w").unwrap();
    dump_virtual_tree(&root, "", &[], &mut lines);
    compose(&outs, &join_sorted(lines), &fds, &tail)
}

/// Makes the calling process independent of what the check's parent did to it: every signal that can
/// be reset goes back to SIG_DFL (a non-interactive shell starts background jobs with SIGINT and SIGQUIT
/// ignored, `nohup` ignores SIGHUP, …), and the inherited signal mask is cleared.  Only async-signal-safe
/// calls: also used between fork and exec.  `keep_pipe_ignored`: the harness itself and the system-call
/// leg want EPIPE instead of a fatal SIGPIPE.
fn reset_inherited_signal_state(keep_pipe_ignored: bool) {
    // SAFETY: signal(2), sigemptyset(3), sigprocmask(2) on local data
    unsafe {
        for sig in 1..65 {
            if sig == libc::SIGKILL || sig == libc::SIGSTOP || (32..34).contains(&sig) {
                continue; // not settable / reserved by the C library
            }
            libc::signal(sig, libc::SIG_DFL);
        }
        if keep_pipe_ignored {
            libc::signal(libc::SIGPIPE, libc::SIG_IGN);
        }
        let mut empty = std::mem::MaybeUninit::<libc::sigset_t>::uninit();
        libc::sigemptyset(empty.as_mut_ptr());
        libc::sigprocmask(libc::SIG_SETMASK, empty.as_ptr(), std::ptr::null_mut());
    }
}

/// The rest of the inherited process state a real leg must not depend on: own session (no controlling
/// terminal, own process group), explicit file creation mask, no core files, descriptors >= 3 that were
/// inherited without close-on-exec closed (`keep` is spared), standard input from /dev/null.
/// Async-signal-safe calls only.
fn detach_from_parent_state(umask: libc::mode_t, keep: i32) {
    // SAFETY: plain system calls on integers and static strings
    unsafe {
        libc::setsid();
        libc::umask(umask);
        let no_core = libc::rlimit { rlim_cur: 0, rlim_max: 0 };
        libc::setrlimit(libc::RLIMIT_CORE, &no_core);
        for fd in 3..1024 {
            if fd == keep {
                continue;
            }
            let flags = libc::fcntl(fd, libc::F_GETFD);
            if flags >= 0 && flags & libc::FD_CLOEXEC == 0 {
                libc::close(fd);
            }
        }
        let null = libc::open(c"/dev/null".as_ptr(), libc::O_RDWR);
        if null >= 0 {
            if null != 0 {
                libc::dup2(null, 0);
                libc::close(null);
            }
        }
    }
}

static RESULT_FD_CELL: std::sync::atomic::AtomicI32 = std::sync::atomic::AtomicI32::new(300);

/// descriptor on which a real-leg child reports (far above anything a case uses)
fn result_fd() -> i32 {
    RESULT_FD_CELL.load(std::sync::atomic::Ordering::Relaxed)
}

/// The inherited RLIMIT_NOFILE must not matter: raise the soft limit to the hard limit (at most 4096) and
/// put the result descriptor just below it if that is lower than 300.
fn normalize_descriptor_limit() {
    let mut lim = libc::rlimit { rlim_cur: 0, rlim_max: 0 };
    // SAFETY: get/setrlimit on a local struct
    unsafe {
        if libc::getrlimit(libc::RLIMIT_NOFILE, &mut lim) == 0 {
            lim.rlim_cur = if lim.rlim_max == libc::RLIM_INFINITY { 4096 } else { lim.rlim_max.min(4096) };
            libc::setrlimit(libc::RLIMIT_NOFILE, &lim);
            if lim.rlim_cur <= 300 {
                RESULT_FD_CELL.store(lim.rlim_cur as i32 - 1, std::sync::atomic::Ordering::Relaxed);
            }
        }
    }
}

static REAL_CHILDREN: std::sync::atomic::AtomicUsize = std::sync::atomic::AtomicUsize::new(0);
static REAL_PROC_CHILDREN: std::sync::atomic::AtomicUsize = std::sync::atomic::AtomicUsize::new(0);

/// How a forked real-leg child leaves.  Normally `_exit` (nothing of the harness's own state is
/// flushed twice).  In a coverage-instrumented run (`LLVM_PROFILE_FILE` set by tools/coverage.py) the
/// first 200 children of each real leg leave through `exit`, so that the profile runtime's atexit hook writes their
/// counters: otherwise everything the real leg executes (real.rs, real/*.rs) would be invisible to
/// the coverage measurement.  One profile file per such child, hence the cap.
fn leave_child(ordinal: usize) -> ! {
    if ordinal < 200 && std::env::var_os("LLVM_PROFILE_FILE").is_some() {
        // SAFETY: single-threaded child; stdout was flushed before the fork
        unsafe { libc::exit(0) }
    }
    // SAFETY: plain _exit
    unsafe { libc::_exit(0) }
}

fn seq_real(limit: u64, ops: &[&str]) -> String {
    seq_real_kind(limit, ops, 0)
}

/// `x_case`: an `X` case (fork / wait): the child of the harness additionally gets a pipe on the two descriptors
/// below the result descriptor, on which its own children report, and a watchdog alarm
fn seq_real_kind(limit: u64, ops: &[&str], kind: u8) -> String {
    let x_case = kind == 1;
    let scratch = Scratch::new();
    let root = scratch.root();
    populate_real(&root, false);
    if kind == 2 {
        for (name, target) in LINKS {
            std::os::unix::fs::symlink(target, root.join(name)).unwrap();
        }
    }
    let std_dir = scratch.base.join("std");
    std::fs::create_dir(&std_dir).unwrap();
    for n in ["0", "1", "2"] {
        std::fs::write(std_dir.join(n), b"").unwrap();
        std::fs::set_permissions(std_dir.join(n), std::fs::Permissions::from_mode(0o644)).unwrap();
    }
    // canonical form of the root as getcwd will report it
    let root_str = std::fs::canonicalize(&root).unwrap().to_string_lossy().into_owned();

    let mut pipe_fds = [0i32; 2];
    // SAFETY: plain pipe(2)
    assert_eq!(unsafe { libc::pipe(pipe_fds.as_mut_ptr()) }, 0);
    use std::io::Write as _;
    std::io::stdout().flush().unwrap();
    // SAFETY: the harness is single-threaded; the child only uses async-signal-unsafe functions of
    // its own copy of the address space and leaves through _exit
    let ordinal = REAL_CHILDREN.fetch_add(1, std::sync::atomic::Ordering::Relaxed);
    let pid = unsafe { libc::fork() };
    assert!(pid >= 0, "fork failed");
    if pid == 0 {
        // ---- child: private descriptor table, cwd, umask, limits
        reset_inherited_signal_state(true);
        unsafe {
            libc::setsid();
            libc::dup2(pipe_fds[1], result_fd());
            for n in ["0", "1", "2"] {
                let p = CString::new(std_dir.join(n).to_string_lossy().as_bytes()).unwrap();
                let fd = libc::open(p.as_ptr(), libc::O_RDWR | libc::O_APPEND);
                let target: i32 = n.parse().unwrap();
                if fd != target {
                    libc::dup2(fd, target);
                    libc::close(fd);
                }
            }
            for fd in 3..result_fd() {
                libc::close(fd);
            }
            if x_case {
                let mut p = [0i32; 2];
                if libc::pipe(p.as_mut_ptr()) == 0 {
                    libc::dup2(p[0], result_fd() - 2);
                    libc::dup2(p[1], result_fd() - 1);
                    libc::close(p[0]);
                    libc::close(p[1]);
                }
                libc::alarm(30);
            }
        }
        let text = guarded(|| {
            // SAFETY: the only RealSystem instance of this (child) process
            let sys = unsafe { RealSystem::new() };
            let (outs, fds, tail) = if kind == 2 {
                (run_link_ops(&sys, &root_str, ops), String::new(), String::new())
            } else if x_case {
                x_real_body(&sys, &root_str, limit, ops)
            } else {
                run_ops(&sys, &root_str, limit, ops, true, &mut |_, _| None)
            };
            format!("{}\n{}\n{}", outs.join(" "), fds, tail)
        });
        unsafe {
            let b = text.as_bytes();
            let mut off = 0;
            while off < b.len() {
                let n = libc::write(result_fd(), b[off..].as_ptr().cast(), b.len() - off);
                if n <= 0 {
                    break;
                }
                off += n as usize;
            }
        }
        leave_child(ordinal);
    }
    // ---- parent
    unsafe { libc::close(pipe_fds[1]) };
    let mut text = String::new();
    {
        use std::os::fd::FromRawFd as _;
        // SAFETY: read end of the pipe created above, owned from here on
        let mut f = unsafe { std::fs::File::from_raw_fd(pipe_fds[0]) };
        let _ = f.read_to_string(&mut text);
    }
    let mut status = 0;
    unsafe { libc::waitpid(pid, &mut status, 0) };
    let mut lines = vec![];
    dump_real_tree(&root, "", &mut lines);
    let tree = join_sorted(lines);
    let parts: Vec<&str> = text.split('\n').collect();
    if parts.len() == 3 && kind == 2 {
        return parts[0].to_string();
    }
    if parts.len() == 3 {
        format!("{} | T {} | F {} | {}", parts[0], tree, parts[1], parts[2])
    } else {
        format!("CHILD({}:{})", status, text.replace(['\n', '\t'], " "))
    }
}

fn first_difference(a: &str, b: &str) -> String {
    let (pa, pb): (Vec<&str>, Vec<&str>) = (a.split(' ').collect(), b.split(' ').collect());
    for i in 0..pa.len().max(pb.len()) {
        let (x, y) = (pa.get(i).copied().unwrap_or("<end>"), pb.get(i).copied().unwrap_or("<end>"));
        if x != y {
            let clip = |s: &str| if s.len() > 80 { format!("{}…", &s[..80]) } else { s.to_string() };
            return format!("{i}: virtual={}, real={}", clip(x), clip(y));
        }
    }
    "?".to_string()
}

fn run_seq_case(case: &str) {
    let mut parts = case.split(';').map(|s| s.trim());
    let head = parts.next().unwrap_or("");
    let limit: u64 = head
        .split_whitespace()
        .find_map(|w| w.strip_prefix("lim=").and_then(|n| n.parse().ok()))
        .unwrap_or(64);
    let ops: Vec<&str> = parts.filter(|s| !s.is_empty()).collect();
    yverif::proto::watch_case(case, 120);
    let v = guarded(|| seq_virtual(limit, &ops));
    let r = seq_real(limit, &ops);
    let oracle = if v == r { "ok".to_string() } else { format!("FAIL:real-differs({})", first_difference(&v, &r)) };
    if std::env::var("C19_IMPL").as_deref() == Ok("real") {
        // validation of the pivot against the real kernel (`C19_IMPL=real c19 … | m_c19`): not used by check.py
        emit(case, &r, "-");
        return;
    }
    emit(case, &v, &oracle);
}


// ------------------------------------------------------------------------------------------
// fork / wait leg: `X <class> lim=N; op; …; fork[op, op, …]; spawn[op, …]; wz; kz <SIG|0>; setlim N; …`
//
// The operations of the system-call leg and the non-terminating ones of the process/signal leg, in one process
// that forks: `fork[…]` = fork, the child runs the body (continuing from what it inherited) and exits, the
// parent waits -> `{tok tok … | F <child's descriptor table> | cwd=… umask=… lim=…}x<N>`; `spawn[…]` = the same
// without the wait (the parent only synchronises on the child's termination: the child is a zombie) -> `{…}`;
// `wz` = wait(pid of the most recent child) -> x<N> | s<SIG> | ECHILD; `kz <SIG|0>` = kill(that pid, SIG | null
// signal) -> ok | ESRCH; `setlim N` = setrlimit(RLIMIT_NOFILE, soft N) -> ok.

fn x_body(op: &str) -> Option<(bool, Vec<String>)> {
    for (kind, wait) in [("fork[", true), ("spawn[", false)] {
        if let Some(body) = op.strip_prefix(kind) {
            let body = body.split(']').next().unwrap_or("");
            return Some((wait, body.split(',').map(|s| s.trim().to_string()).filter(|s| !s.is_empty()).collect()));
        }
    }
    None
}

/// `setlim` and the signal operations (which complete at once: the generator never lets a signal terminate or
/// stop the process)
fn x_plain_op<S>(sys: &S, op: &str, pending: &dyn Fn() -> Vec<&'static str>) -> Option<String>
where
    S: yash_env::system::Sigmask
        + yash_env::system::Sigaction
        + yash_env::system::SendSignal
        + yash_env::system::CaughtSignals
        + yash_env::system::GetPid
        + SetRlimit,
{
    let w: Vec<&str> = op.split_whitespace().collect();
    match w.as_slice() {
        ["setlim", n] => {
            let n: u64 = n.parse().ok()?;
            let hard = sys_hard_limit(n);
            Some(match sys.setrlimit(Resource::NOFILE, LimitPair { soft: n as _, hard: hard as _ }) {
                Ok(()) => "ok".to_string(),
                Err(e) => errno_name(e),
            })
        }
        // a soft limit above the hard limit: EINVAL, nothing changes
        ["badlim", n] => {
            let n: u64 = n.parse().ok()?;
            Some(match sys.setrlimit(Resource::NOFILE, LimitPair { soft: (n + 1) as _, hard: n as _ }) {
                Ok(()) => "ok".to_string(),
                Err(e) => errno_name(e),
            })
        }
        ["klast", ..] | ["kgrp", ..] | ["kpar", ..] | ["kself", ..] => None,
        _ => match sig_op(sys, op, pending, None).now_or_never() {
            Some(t) => t,
            None => Some("BLOCKED".to_string()),
        },
    }
}

fn x_tail<S: yash_env::system::resource::GetRlimit>(sys: &S, tail: &str) -> String {
    let lim = match sys.getrlimit(Resource::NOFILE) {
        Ok(l) => l.soft.to_string(),
        Err(e) => errno_name(e),
    };
    format!("{tail} lim={lim}")
}

/// the body of a forked child: (report text, exit status)
fn x_child<S>(sys: &S, root: &str, limit: u64, body: &[String], pending: &dyn Fn() -> Vec<&'static str>) -> (String, i32)
where
    S: Open
        + Read
        + Write
        + Seek
        + Dup
        + Close
        + Fcntl
        + Fstat
        + Chdir
        + GetCwd
        + Umask
        + SetRlimit
        + yash_env::system::Pipe
        + yash_env::system::Select
        + yash_env::system::IsExecutableFile
        + yash_env::system::resource::GetRlimit
        + yash_env::system::Sigmask
        + yash_env::system::Sigaction
        + yash_env::system::SendSignal
        + yash_env::system::CaughtSignals
        + yash_env::system::GetPid,
{
    let mut code = 0;
    let mut ops: Vec<&str> = vec![];
    for b in body {
        if let Some(n) = b.strip_prefix("exit ") {
            code = n.trim().parse().unwrap_or(0);
            break;
        }
        ops.push(b);
    }
    let (outs, fds, tail) = run_ops(sys, root, limit, &ops, false, &mut |s: &S, op: &str| x_plain_op(s, op, pending));
    (format!("{} | F {} | {}", outs.join(" "), fds, x_tail(sys, &tail)), code)
}

fn x_virtual(limit: u64, ops: &[&str]) -> String {
    use yash_env::system::{Exit as _, Fork as _, SendSignal as _, Wait as _};
    let system = VirtualSystem::new();
    populate_virtual(&system.state, "/w", false);
    let executor = yash_executor::Executor::new();
    system.state.borrow_mut().executor = Some(Rc::new(executor.spawner()));
    let mut last_child: Option<yash_env::job::Pid> = None;
    let mut hook = |sys: &VirtualSystem, op: &str| -> Option<String> {
        if let Some((wait, body)) = x_body(op) {
            let out: Rc<RefCell<String>> = Rc::new(RefCell::new(String::new()));
            let (res, _) = sys.run_in_child_process(
                (Rc::clone(&out), body, limit),
                async move |csys: VirtualSystem, (out, body, limit): (Rc<RefCell<String>>, Vec<String>, u64)| {
                    let c2 = csys.clone();
                    let (text, code) = x_child(&csys, "/w", limit, &body, &move || virtual_pending(&c2));
                    *out.borrow_mut() = text;
                    csys.exit(yash_env::semantics::ExitStatus(code)).await;
                },
            );
            return Some(match res {
                Err(e) => errno_name(e),
                Ok(pid) => {
                    last_child = Some(pid);
                    // the parent is not a task of the executor: run the child to its end
                    for _ in 0..10_000 {
                        executor.run_until_stalled();
                        if executor.wake_count() == 0 {
                            break;
                        }
                    }
                    let rep = format!("{{{}}}", out.borrow());
                    if wait {
                        match sys.wait(pid) {
                            Ok(Some((_, st))) => format!("{rep}{}", show_wait::<VirtualSystem>(st)),
                            Ok(None) => format!("{rep}RUNNING"),
                            Err(e) => format!("{rep}{}", errno_name(e)),
                        }
                    } else {
                        rep
                    }
                }
            });
        }
        let w: Vec<&str> = op.split_whitespace().collect();
        match w.as_slice() {
            ["wself"] => Some(match sys.wait(yash_env::system::GetPid::getpid(sys)) {
                Ok(Some((_, st))) => show_wait::<VirtualSystem>(st),
                Ok(None) => "RUNNING".to_string(),
                Err(e) => errno_name(e),
            }),
            ["wz"] => Some(match last_child {
                None => "?".to_string(),
                Some(pid) => match sys.wait(pid) {
                    Ok(Some((_, st))) => show_wait::<VirtualSystem>(st),
                    Ok(None) => "RUNNING".to_string(),
                    Err(e) => errno_name(e),
                },
            }),
            ["kz", s] => Some(match last_child {
                None => "?".to_string(),
                Some(pid) => {
                    let sig = if *s == "0" { None } else { Some(signum::<VirtualSystem>(s)?) };
                    match sys.kill(pid, sig).now_or_never() {
                        Some(Ok(())) => "ok".to_string(),
                        Some(Err(e)) => errno_name(e),
                        None => "BLOCKED".to_string(),
                    }
                }
            }),
            _ => {
                let s2 = sys.clone();
                x_plain_op(sys, op, &move || virtual_pending(&s2))
            }
        }
    };
    let (outs, fds, tail) = run_ops(&system, "/w", limit, ops, true, &mut hook);
    let s2 = system.clone();
    let pending = move || virtual_pending(&s2);
    let mask = x_plain_op(&system, "mask", &pending).unwrap_or_default();
    let pend = x_plain_op(&system, "pend", &pending).unwrap_or_default();
    let mut lines = vec![];
    let root = system.state.borrow().file_system.get("/w").unwrap();
    dump_virtual_tree(&root, "", &[], &mut lines);
    format!("{} | mask{mask} pend{pend}", compose(&outs, &join_sorted(lines), &fds, &x_tail(&system, &tail)))
}

fn read_report_line(fd: i32) -> String {
    let mut v = vec![];
    let mut b = [0u8; 1];
    loop {
        // SAFETY: plain read(2) of one byte
        let n = unsafe { libc::read(fd, b.as_mut_ptr().cast(), 1) };
        if n == 1 && b[0] != b'\n' {
            v.push(b[0]);
        } else if n < 0 && std::io::Error::last_os_error().raw_os_error() == Some(libc::EINTR) {
            continue;
        } else {
            break;
        }
    }
    String::from_utf8_lossy(&v).into_owned()
}

/// the operations of an `X` case in the forked-off process of the real leg
fn x_real_body(sys: &RealSystem, root: &str, limit: u64, ops: &[&str]) -> (Vec<String>, String, String) {
    use yash_env::system::{Exit as _, Fork as _, SendSignal as _, Wait as _};
    let (rep_r, rep_w) = (result_fd() - 2, result_fd() - 1);
    let mut last_child: Option<yash_env::job::Pid> = None;
    let root_owned = root.to_string();
    let mut hook = |sys: &RealSystem, op: &str| -> Option<String> {
        if let Some((wait, body)) = x_body(op) {
            let (res, _) = sys.run_in_child_process(
                (body, root_owned.clone(), limit),
                async move |csys: RealSystem, (body, root, limit): (Vec<String>, String, u64)| {
                    // SAFETY: watchdog
                    unsafe { libc::alarm(20) };
                    let (text, code) = x_child(&csys, &root, limit, &body, &real_pending);
                    let line = format!("{text}\n");
                    let b = line.as_bytes();
                    let mut off = 0;
                    while off < b.len() {
                        // SAFETY: plain write(2) on the report pipe
                        let n = unsafe { libc::write(rep_w, b[off..].as_ptr().cast(), b.len() - off) };
                        if n <= 0 {
                            break;
                        }
                        off += n as usize;
                    }
                    csys.exit(yash_env::semantics::ExitStatus(code)).await;
                },
            );
            return Some(match res {
                Err(e) => errno_name(e),
                Ok(pid) => {
                    last_child = Some(pid);
                    let rep = format!("{{{}}}", read_report_line(rep_r));
                    // until the child has terminated — without reaping it
                    let mut info = std::mem::MaybeUninit::<libc::siginfo_t>::zeroed();
                    loop {
                        // SAFETY: waitid on a local siginfo
                        let r = unsafe { libc::waitid(libc::P_PID, pid.0 as libc::id_t, info.as_mut_ptr(), libc::WEXITED | libc::WNOWAIT) };
                        if r == 0 || std::io::Error::last_os_error().raw_os_error() != Some(libc::EINTR) {
                            break;
                        }
                    }
                    if wait {
                        match sys.wait(pid) {
                            Ok(Some((_, st))) => format!("{rep}{}", show_wait::<RealSystem>(st)),
                            Ok(None) => format!("{rep}RUNNING"),
                            Err(e) => format!("{rep}{}", errno_name(e)),
                        }
                    } else {
                        rep
                    }
                }
            });
        }
        let w: Vec<&str> = op.split_whitespace().collect();
        match w.as_slice() {
            ["wself"] => Some(match sys.wait(yash_env::system::GetPid::getpid(sys)) {
                Ok(Some((_, st))) => show_wait::<RealSystem>(st),
                Ok(None) => "RUNNING".to_string(),
                Err(e) => errno_name(e),
            }),
            ["wz"] => Some(match last_child {
                None => "?".to_string(),
                Some(pid) => match sys.wait(pid) {
                    Ok(Some((_, st))) => show_wait::<RealSystem>(st),
                    Ok(None) => "RUNNING".to_string(),
                    Err(e) => errno_name(e),
                },
            }),
            ["kz", s] => Some(match last_child {
                None => "?".to_string(),
                Some(pid) => {
                    let sig = if *s == "0" { None } else { Some(signum::<RealSystem>(s)?) };
                    match sys.kill(pid, sig).now_or_never() {
                        Some(Ok(())) => "ok".to_string(),
                        Some(Err(e)) => errno_name(e),
                        None => "BLOCKED".to_string(),
                    }
                }
            }),
            _ => x_plain_op(sys, op, &real_pending),
        }
    };
    let (outs, fds, tail) = run_ops(sys, root, limit, ops, true, &mut hook);
    let mask = x_plain_op(sys, "mask", &real_pending).unwrap_or_default();
    let pend = x_plain_op(sys, "pend", &real_pending).unwrap_or_default();
    (outs, fds, format!("{} | mask{mask} pend{pend}", x_tail(sys, &tail)))
}

fn run_x_case(case: &str) {
    let mut parts = case.split(';').map(|s| s.trim());
    let head = parts.next().unwrap_or("");
    let limit: u64 = head
        .split_whitespace()
        .find_map(|w| w.strip_prefix("lim=").and_then(|n| n.parse().ok()))
        .unwrap_or(64);
    let ops: Vec<&str> = parts.filter(|s| !s.is_empty()).collect();
    yverif::proto::watch_case(case, 120);
    let v = guarded(|| x_virtual(limit, &ops));
    let r = seq_real_kind(limit, &ops, 1);
    let oracle = if v == r { "ok".to_string() } else { format!("FAIL:real-differs({})", first_difference(&v, &r)) };
    if std::env::var("C19_IMPL").as_deref() == Ok("real") {
        emit(case, &r, "-");
        return;
    }
    emit(case, &v, &oracle);
}


// ------------------------------------------------------------------------------------------
// link leg: `L <kind>; stat p; lstat p; openr p; openw p; opena p; openc p; openx p; ls p; cd p; cwd` over the
// tree of the system-call leg plus the links LINKS, which exist beforehand (the traits cannot create one).
// Kinds: `real` — the observation column is what RealSystem answers, compared strictly with the pivot
// Kernel/Symlink.lean (ties the link model to the real kernel); `agree` — only stat/lstat, on which the simulator
// follows links as the kernel does: three-way as usual; `kf-symlink-not-followed` — open/opendir/chdir through a
// link: the simulator column differs (known finding K9 = D17), the pivot column is still the kernel's answer.

fn run_link_ops<S>(sys: &S, root: &str, ops: &[&str]) -> Vec<String>
where
    S: Open + Close + Fstat + Chdir + GetCwd,
{
    let cstr = |p: &str| CString::new(p).unwrap();
    sys.chdir(&cstr(root)).expect("chdir to scratch root");
    let mut outs = vec![];
    for op in ops {
        let w: Vec<&str> = op.split_whitespace().collect();
        let open_with = |p: &str, access: OfdAccess, flags: enumset::EnumSet<OpenFlag>| -> String {
            match now(sys.open(&cstr(p), access, flags, Mode::from_bits_retain(0o644))) {
                Ok(fd) => {
                    let _ = sys.close(fd);
                    "ok".to_string()
                }
                Err(e) => errno_name(e),
            }
        };
        let kind = |st: Result<S::Stat, Errno>| -> String {
            use yash_env::system::Stat as _;
            match st {
                Ok(st) => match st.r#type() {
                    FileType::Regular => "=reg".to_string(),
                    FileType::Directory => "=dir".to_string(),
                    FileType::Symlink => "=lnk".to_string(),
                    _ => "=other".to_string(),
                },
                Err(e) => errno_name(e),
            }
        };
        let o = match w.as_slice() {
            ["stat", p] => kind(sys.fstatat(yash_env::system::AT_FDCWD, &cstr(p), true)),
            ["lstat", p] => kind(sys.fstatat(yash_env::system::AT_FDCWD, &cstr(p), false)),
            ["openr", p] => open_with(p, OfdAccess::ReadOnly, enumset::EnumSet::empty()),
            ["openw", p] => open_with(p, OfdAccess::WriteOnly, enumset::EnumSet::empty()),
            ["opena", p] => open_with(p, OfdAccess::WriteOnly, OpenFlag::Append.into()),
            ["openc", p] => open_with(p, OfdAccess::WriteOnly, OpenFlag::Create.into()),
            ["openx", p] => open_with(p, OfdAccess::WriteOnly, OpenFlag::Create | OpenFlag::Exclusive),
            ["ls", p] => match sys.opendir(&cstr(p)) {
                Ok(mut dir) => {
                    let mut names = vec![];
                    let mut n = 0;
                    while let Ok(Some(e)) = dir.next() {
                        let name = String::from_utf8_lossy(e.name.as_bytes()).into_owned();
                        if name != "." && name != ".." {
                            names.push(name);
                        }
                        n += 1;
                        if n > 10_000 {
                            break;
                        }
                    }
                    names.sort();
                    if names.is_empty() { "=-".to_string() } else { format!("={}", names.join(",")) }
                }
                Err(e) => errno_name(e),
            },
            ["cd", p] => match sys.chdir(&cstr(p)) {
                Ok(()) => "ok".to_string(),
                Err(e) => errno_name(e),
            },
            ["cwd"] => match sys.getcwd() {
                Ok(cwd) => {
                    let s = String::from_utf8_lossy(cwd.as_unix_str().as_bytes()).into_owned();
                    match s.strip_prefix(root) {
                        Some("") => "=/".to_string(),
                        Some(r) if r.starts_with('/') => format!("={r}"),
                        _ => "=OUTSIDE".to_string(),
                    }
                }
                Err(e) => errno_name(e),
            },
            _ => "?".to_string(),
        };
        outs.push(o);
    }
    outs
}

fn link_virtual(ops: &[&str]) -> String {
    let sys = VirtualSystem::new();
    populate_virtual(&sys.state, "/w", false);
    for (name, target) in LINKS {
        let inode = Inode { body: FileBody::Symlink { target: target.into() }, permissions: Mode::from_bits_retain(0o777) };
        sys.state.borrow_mut().file_system.save(format!("/w/{name}").as_str(), Rc::new(RefCell::new(inode))).unwrap();
    }
    run_link_ops(&sys, "/w", ops).join(" ")
}

fn run_link_case(case: &str) {
    let mut parts = case.split(';').map(|s| s.trim());
    let head = parts.next().unwrap_or("");
    let ops: Vec<&str> = parts.filter(|s| !s.is_empty()).collect();
    yverif::proto::watch_case(case, 120);
    let r = seq_real_kind(64, &ops, 2);
    if head == "L real" {
        emit(case, &r, "-");
        return;
    }
    let v = guarded(|| link_virtual(&ops));
    let oracle = if v == r { "ok".to_string() } else { format!("FAIL:real-differs({})", first_difference(&v, &r)) };
    emit(case, &v, &oracle);
}

/// (operations, kind) — physical working directory tracked so that no path leaves the scratch root
fn gen_link(rng: &mut Rng, kind: &str) -> String {
    const FROM_ROOT: [&str; 18] = [
        "lnkf", "lnkd", "lnkbad", "lnkloop", "lnkd/g", "lnkd/dd", "lnkf/", "lnkd/", "lnkbad/", "lnkd/../f1", "lnkd/nofile", "f1", "d1",
        "nofile2", "lnkf/x", "lnkloop/x", "./lnkd/./g", "lnkd//dd/..",
    ];
    const FROM_D1: [&str; 8] = ["../lnkf", "../lnkd/g", "g", "dd", "../lnkbad", "../lnkd", "../lnkloop", "../lnkd/dd/"];
    const FROM_DD: [&str; 4] = ["../../lnkf", "../../lnkd", "../g", "../../lnkbad"];
    let mut depth = 0usize; // 0 = root, 1 = d1, 2 = d1/dd
    let mut ops: Vec<String> = vec![];
    let n = 3 + rng.below(8);
    for _ in 0..n {
        // `agree`: a link only as the FINAL component (or no link at all) — the simulator's `fstatat` follows that
        // one; a link in any other position is not followed by the simulator in any call (part of K9)
        let p = match (kind, depth) {
            ("agree", 0) => *rng.pick(&["lnkf", "lnkd", "lnkbad", "lnkloop", "f1", "d1", "nofile2", "d1/g", "./lnkf", "d1/../lnkd"]),
            ("agree", 1) => *rng.pick(&["../lnkf", "../lnkbad", "../lnkd", "../lnkloop", "g", "dd"]),
            ("agree", _) => *rng.pick(&["../../lnkf", "../../lnkd", "../../lnkbad", "../g"]),
            (_, 0) => *rng.pick(&FROM_ROOT),
            (_, 1) => *rng.pick(&FROM_D1),
            _ => *rng.pick(&FROM_DD),
        };
        let verbs: &[&str] = match kind {
            "agree" => &["stat", "lstat"],
            "kf-symlink-not-followed" => &["openr", "openw", "opena", "ls", "ls", "openr", "stat"],
            _ => &["stat", "lstat", "openr", "openw", "opena", "ls"],
        };
        ops.push(format!("{} {p}", rng.pick(verbs)));
        if kind != "agree" && rng.chance(1, 4) {
            let (target, nd) = match depth {
                0 => *rng.pick(&[("lnkd", 1), ("lnkd/dd", 2), ("d1", 1), ("lnkf", 0), ("lnkbad", 0), ("lnkloop", 0), ("lnkd/", 1)]),
                1 => *rng.pick(&[("dd", 2), ("..", 0), ("../lnkd/dd", 2), ("../lnkd", 1)]),
                _ => *rng.pick(&[("..", 1), ("../..", 0), ("../../lnkd", 1)]),
            };
            depth = nd;
            ops.push(format!("cd {target}"));
            ops.push("cwd".to_string());
        }
    }
    // creating opens last (the cases are evaluated on the initial tree)
    if kind != "agree" && depth == 0 && rng.chance(1, 2) {
        ops.push((*rng.pick(&["openx lnkbad", "openx lnkf", "openx lnkd", "openc lnkbad", "openc lnkf", "openx newname", "openc lnkloop"])).to_string());
    }
    format!("L {kind}; {}", ops.join("; "))
}

// ------------------------------------------------------------------------------------------
// system-call generator

const CLASSES: [&str; 16] = [
    "clean", "mkparent", "dirwrite", "emfile", "dotdot", "chdirup", "dup2same", "opendir", "filedot", "lsfull", "pipes",
    "pipefull", "fdflags", "slashcreate", "cmdsearch", "cwdshape",
];

/// the directories of the tree: no operation of the case language adds or removes one (theorem
/// `dirs_never_change`), so the generator can predict the working directory exactly
const DIRS: [&[&str]; 4] = [&[], &["d1"], &["d2"], &["d1", "dd"]];

/// operands of `chdir` that name their target in a non-canonical way (class `cwdshape`): trailing and doubled
/// slashes, `.` components, `..` after a name, and the same shapes on regular files and missing names
const CHDIR_SHAPES: [&str; 30] = [
    "d1/", "d1//", "./d1/", "d1/./", "d1//dd", "d1/dd/", "d1/./dd/.", ".//d1", "dd/", "./dd//", "../d1/", "..//", "../",
    "./", ".//.", "d2/./", "d1/dd/../", "d1/dd/..//dd/", "f1/", "nodir/", "g/", "../d2//", "dd/../dd/.", "d1/dd//../../d2/",
    "./.", "dd/./..", "d2//", "../dd/", "d1/../d1//", "./g/.",
];

struct Gen {
    rng: Rng,
    class: &'static str,
    limit: u64,
    cwd: Vec<&'static str>,
    /// upper bound of the number of open descriptors (never decremented)
    upper: u64,
    ops: Vec<String>,
}

/// (absolute-in-root path, kind): 'f' existing file, 'd' directory, 'm' missing with existing parent,
/// 'n' below a regular file, 'p' missing parent directory, 'q' existing file or directory (or an error)
/// named through `.`, `..`, a doubled slash or a regular file used as a directory, 'z' `<regular file>/.`
/// (ENOTDIR; was divergence D12 until fixed), 's' any of these followed by one or more slashes (the name must
/// then be a directory; with O_CREAT Linux answers EISDIR whatever it is — the simulator creates a regular
/// file, divergence D19, so O_CREAT on these is only generated in class `slashcreate`)
const TARGETS: [(&str, char); 38] = [
    // `..` after a missing directory: ENOENT for every flag combination, O_CREAT included (nothing is created)
    ("nd/..", 'q'),
    ("f1", 'f'),
    ("f2", 'f'),
    ("d1/g", 'f'),
    ("d1", 'd'),
    ("d2", 'd'),
    ("d1/dd", 'd'),
    ("m1", 'm'),
    ("m2", 'm'),
    ("d1/m", 'm'),
    ("d2/n", 'm'),
    ("d1/dd/k", 'm'),
    ("f1/x", 'n'),
    ("d1/g/y", 'n'),
    ("nd/x", 'p'),
    ("nd/nd2/y", 'p'),
    ("d1/nd/z", 'p'),
    ("f1/.", 'z'),
    ("f1/..", 'q'),
    ("f1/../f2", 'q'),
    ("d1/g/.", 'z'),
    ("d1/g/../g", 'q'),
    ("d1/.", 'q'),
    ("d1/dd/..", 'q'),
    ("d1/dd/../g", 'q'),
    ("./f1", 'q'),
    ("d1//g", 'q'),
    ("d2/../f2", 'q'),
    ("f1/", 's'),
    ("d1/", 's'),
    ("m1/", 's'),
    ("d1/dd//", 's'),
    ("d2/n/", 's'),
    ("d1/g/", 's'),
    ("nd/x/", 's'),
    ("d1/dd/../", 's'),
    // names that nothing ever creates (every O_CREAT through a slash fails): the only ones O_CREAT|O_EXCL is
    // used on, because an existing regular file / O_EXCL on an existing directory differ in the errno
    ("ms/", 's'),
    ("d1/ms//", 's'),
];

impl Gen {
    /// the path of `target` as seen from the predicted cwd, and whether it needs `..`
    fn rel(&self, target: &str) -> (String, bool) {
        let t: Vec<&str> = target.split('/').collect();
        let mut common = 0;
        while common < self.cwd.len() && common < t.len() && self.cwd[common] == t[common] {
            common += 1;
        }
        let ups = self.cwd.len() - common;
        let mut parts: Vec<&str> = vec![".."; ups];
        parts.extend(&t[common..]);
        if parts.is_empty() {
            parts.push(".");
        }
        if parts[0].is_empty() {
            parts.insert(0, "."); // `d1//g` seen from d1 is `.//g`, never the absolute `/g`
        }
        (parts.join("/"), ups > 0)
    }

    /// `chdir operand` with the working directory the three parties must end up in predicted from `DIRS`
    fn push_chdir(&mut self, operand: &str) {
        let mut cur: Vec<&'static str> = self.cwd.clone();
        let mut ok = true;
        for c in operand.split('/') {
            match c {
                "" | "." => {}
                ".." => {
                    if cur.pop().is_none() {
                        ok = false; // the guard answers ESCAPE
                        break;
                    }
                }
                name => {
                    let mut next: Vec<&str> = cur.clone();
                    next.push(name);
                    match DIRS.iter().find(|d| d[..] == next[..]) {
                        Some(d) => cur = d.to_vec(),
                        None => {
                            ok = false;
                            break;
                        }
                    }
                }
            }
        }
        if ok {
            self.cwd = cur;
        }
        self.ops.push(format!("chdir {operand}"));
    }

    /// a target
    fn target(&mut self) -> (&'static str, char) {
        loop {
            let t = *self.rng.pick(&TARGETS);
            // `<regular file>/.` was the divergence D12 (fixed in /repo): an ordinary target now
            return t;
        }
    }

    fn push_ls(&mut self, path: &str) {
        // `opendir` at a full table was the divergence D13 (fixed in /repo): no restriction any more
        self.ops.push(format!("ls {path}"));
    }

    fn some_fd(&mut self) -> i64 {
        let top = (self.upper + 1).min(self.limit + 2) as usize;
        match self.rng.below(20) {
            0 => 9,
            1 => 70,
            2 => self.rng.below(3) as i64,
            _ => 3 + self.rng.below(top.saturating_sub(2).max(1)) as i64,
        }
    }

    fn clean_open(&mut self) {
        // stays away from the two catalogued divergences only: O_CREAT below a missing directory (D1) and
        // O_CREAT of a missing file through `..` (D4)
        for _ in 0..20 {
            let (target, kind) = self.target();
            let (path, dotdot) = self.rel(target);
            let acc = *self.rng.pick(&["r", "w", "rw", "w", "r"]);
            let writable = acc != "r";
            let mut fl = String::new();
            match kind {
                'd' => {
                    // write access, O_CREAT, O_TRUNC on a directory: EISDIR everywhere
                    match self.rng.below(6) {
                        0 | 1 => fl.push('d'),
                        2 => fl.push('c'),
                        3 if writable => fl.push('t'),
                        4 => fl.push_str("cx"),
                        _ => {}
                    }
                }
                'p' => {} // no create below a missing directory
                's' => {
                    // O_CREAT through a trailing slash (was divergence D19): only where the errno agrees too,
                    // see class `slashcreate`
                    if !dotdot && matches!(target, "ms/" | "d1/ms//" | "d1/" | "d1/dd//") && self.rng.chance(1, 3) {
                        fl.push('c');
                        if matches!(target, "ms/" | "d1/ms//") && self.rng.chance(1, 3) {
                            fl.push('x');
                        }
                    }
                    if writable && self.rng.chance(1, 3) {
                        fl.push('t');
                    }
                    if writable && self.rng.chance(1, 4) {
                        fl.push('a');
                    }
                    // (O_CREAT|O_DIRECTORY is EINVAL on recent kernels: never generated)
                    if !writable && !fl.contains('c') && self.rng.chance(1, 4) {
                        fl.push('d');
                    }
                }
                _ => {
                    if self.rng.chance(3, 5) && !(dotdot && kind == 'm') {
                        fl.push('c');
                        if self.rng.chance(1, 3) {
                            fl.push('x');
                        }
                    }
                    if writable && self.rng.chance(1, 3) {
                        fl.push('t');
                    }
                    if writable && self.rng.chance(1, 3) {
                        fl.push('a');
                    }
                    if !writable && fl.is_empty() && self.rng.chance(1, 8) {
                        fl.push('d');
                    }
                }
            }
            if self.rng.chance(1, 5) {
                fl.push('e');
            }
            let mode = *self.rng.pick(&["666", "644", "600", "777", "0", "640"]);
            let fl = if fl.is_empty() { "-".to_string() } else { fl };
            self.ops.push(format!("open {path} {acc} {fl} {mode}"));
            self.upper += 1;
            return;
        }
    }

    fn any_open(&mut self) {
        let (target, kind) = *self.rng.pick(&TARGETS[..11]);
        let (path, dotdot) = self.rel(target);
        let acc = *self.rng.pick(&["r", "w", "rw"]);
        let fl = *self.rng.pick(&["-", "c", "ct", "ca", "cx", "t"]);
        let fl = if acc == "r" && fl.contains('t') { "c" } else { fl };
        // creating a missing file through `..` is the catalogued divergence D4 (class `dotdot`)
        let fl = if dotdot && kind == 'm' && fl.contains('c') { "-" } else { fl };
        self.ops.push(format!("open {path} {acc} {fl} 666"));
        self.upper += 1;
    }

    fn data(&mut self) -> String {
        let n = 1 + self.rng.below(6);
        let bytes: Vec<u8> = (0..n).map(|_| b'A' + self.rng.below(26) as u8).collect();
        enc_bytes(&bytes)
    }

    fn step(&mut self) {
        let r = self.rng.below(100);
        let fd = self.some_fd();
        match r {
            0..=27 => self.clean_open(),
            28..=37 => {
                let n = self.rng.below(8);
                self.ops.push(format!("read {fd} {n}"))
            }
            38..=51 => {
                let d = self.data();
                self.ops.push(format!("write {fd} {d}"))
            }
            52..=59 => {
                let wh = *self.rng.pick(&["s", "c", "e"]);
                let d = self.rng.below(12) as i64 - 4;
                self.ops.push(format!("seek {fd} {wh} {d}"))
            }
            60..=65 => {
                let min = *self.rng.pick(&[0, 0, 3, 5, 10]);
                let min = if (min as u64) < self.limit { min } else { 0 };
                let c = if self.rng.chance(1, 3) { "e" } else { "-" };
                self.ops.push(format!("dup {fd} {min} {c}"));
                self.upper += 1;
            }
            66..=71 => {
                let to = if self.rng.chance(1, 8) { fd } else { self.some_fd() };
                self.ops.push(format!("dup2 {fd} {to}"));
                self.upper += 1;
            }
            72..=79 => self.ops.push(format!("close {fd}")),
            80..=82 => self.ops.push(format!("getfd {fd}")),
            83..=85 => {
                let c = if self.rng.chance(1, 2) { "e" } else { "-" };
                self.ops.push(format!("setfd {fd} {c}"))
            }
            86..=88 if self.rng.chance(1, 3) => {
                // an operand that is not written canonically (also in class `clean`)
                let p = *self.rng.pick(&CHDIR_SHAPES);
                self.push_chdir(p);
                if self.rng.chance(1, 2) {
                    self.ops.push("cwd".to_string());
                }
            }
            86..=88 => {
                let opts: Vec<&'static str> = match self.cwd.as_slice() {
                    [] => vec!["d1", "d2", "d1/dd", "f1", "nodir", ".", "..", "d1/..", "f1/.", "f1/..", "d1/dd/..", "./d1", "./d1/./dd"],
                    ["d1"] => vec!["dd", "g", "nodir", "..", ".", "dd/..", "g/..", "../d2"],
                    ["d1", "dd"] => vec!["nodir", "..", ".", "../..", "../g"],
                    _ => vec!["nodir", "g", "..", "."],
                };
                let p = *self.rng.pick(&opts);
                match p {
                    "d1" | "d2" | "dd" => self.cwd.push(p),
                    "./d1" => self.cwd.push("d1"),
                    "./d1/./dd" => {
                        self.cwd.push("d1");
                        self.cwd.push("dd");
                    }
                    "d1/dd" => {
                        self.cwd.push("d1");
                        self.cwd.push("dd");
                    }
                    "d1/dd/.." => self.cwd.push("d1"),
                    ".." => {
                        self.cwd.pop();
                    }
                    "../.." => {
                        self.cwd.pop();
                        self.cwd.pop();
                    }
                    "../d2" => {
                        self.cwd.pop();
                        self.cwd.push("d2");
                    }
                    _ => {}
                }
                self.ops.push(format!("chdir {p}"))
            }
            89..=91 => {
                let m = *self.rng.pick(&["22", "77", "27", "0", "2", "137"]);
                self.ops.push(format!("umask {m}"))
            }
            92..=94 => self.ops.push(format!("fstat {fd}")),
            95..=96 => {
                let (target, _) = self.target();
                let (path, _) = self.rel(target);
                self.ops.push(format!("stat {path}"))
            }
            97 => {
                let (target, _) = self.target();
                let (path, _) = self.rel(target);
                self.push_ls(&path)
            }
            98 => {
                let op = match self.rng.below(9) {
                    8 => {
                        let (target, _) = self.target();
                        let (path, _) = self.rel(target);
                        format!("isx {path}")
                    }
                    0 => "cwd".to_string(),
                    1 => "rlim".to_string(),
                    2 => format!("nb {fd}"),
                    6 | 7 => {
                        self.upper += 1;
                        "tmp".to_string()
                    }
                    _ => {
                        self.upper += 2;
                        "pipe".to_string()
                    }
                };
                self.ops.push(op)
            }
            _ => self.ops.push(format!("acc {fd}")),
        }
    }

    /// one operation of the kind this class emphasises (`mkparent`, `dotdot`: the catalogued divergences D1,
    /// D4; the other classes were divergences D2, D3, D5, D6, D7 until they were fixed in /repo and are
    /// ordinary cases now)
    fn special(&mut self) {
        match self.class {
            "mkparent" => {
                let t = *self.rng.pick(&["nd/x", "nd/nd2/y", "d1/nd/z"]);
                let (path, _) = self.rel(t);
                let fl = *self.rng.pick(&["c", "ct", "ca", "cx"]);
                self.ops.push(format!("open {path} w {fl} 666"));
                self.upper += 1;
            }
            "dirwrite" => {
                let t = *self.rng.pick(&["d1", "d2", "d1/dd"]);
                let (path, _) = self.rel(t);
                let (acc, fl) = *self.rng.pick(&[("w", "-"), ("rw", "-"), ("w", "ct"), ("r", "c"), ("w", "ca")]);
                self.ops.push(format!("open {path} {acc} {fl} 666"));
                self.upper += 1;
            }
            "emfile" => self.any_open(),
            "dotdot" => {
                let inner = *self.rng.pick(&["d1/../m1", "d1/dd/../m", "d2/../d1/m"]);
                if self.cwd.is_empty() {
                    self.ops.push(format!("open {inner} w c 666"));
                } else {
                    let (path, _) = self.rel("m2");
                    self.ops.push(format!("open {path} w c 666"));
                }
                self.upper += 1;
            }
            "chdirup" => {
                if self.cwd.is_empty() {
                    self.ops.push("chdir d1".to_string());
                    self.cwd.push("d1");
                } else {
                    self.ops.push("chdir ..".to_string());
                    self.cwd.pop();
                    self.ops.push("cwd".to_string());
                }
            }
            // the working directory after a `chdir` whose operand is not written canonically
            "cwdshape" => {
                let p = *self.rng.pick(&CHDIR_SHAPES);
                self.push_chdir(p);
                if self.rng.chance(2, 3) {
                    self.ops.push("cwd".to_string());
                }
                if self.rng.chance(1, 3) {
                    // what a relative path means afterwards
                    let t = *self.rng.pick(&["f1", "d1/g", "d1/dd", "m1", "d2/n"]);
                    let (path, dotdot) = self.rel(t);
                    if dotdot || !matches!(t, "m1" | "d2/n") {
                        self.ops.push(format!("stat {path}"));
                    } else {
                        self.ops.push(format!("open {path} w c 644"));
                        self.upper += 1;
                    }
                }
            }
            "dup2same" => {
                let fd = 3 + self.rng.below(3);
                self.ops.push(format!("setfd {fd} e"));
                self.ops.push(format!("dup2 {fd} {fd}"));
                self.ops.push(format!("getfd {fd}"));
            }
            "opendir" => {
                let t = *self.rng.pick(&["d1", "d2", ".", "d1/dd", "f1", "nodir"]);
                self.push_ls(t);
            }
            "filedot" => {
                let t = *self.rng.pick(&["f1/.", "d1/g/.", "f2/."]);
                let (path, _) = self.rel(t);
                if self.rng.chance(1, 2) {
                    self.ops.push(format!("stat {path}"));
                } else {
                    let acc = *self.rng.pick(&["r", "w", "rw"]);
                    self.ops.push(format!("open {path} {acc} - 666"));
                    self.upper += 1;
                }
            }
            // flags of every descriptor-creating call: open (with/without cloexec), open_tmpfile, pipe, dup
            // with/without cloexec, dup2 — each followed by fcntl_getfd
            "fdflags" => {
                let src = self.some_fd();
                let (op, n) = match self.rng.below(7) {
                    0 => ("tmp".to_string(), 1),
                    1 => ("pipe".to_string(), 2),
                    2 => (format!("dup {src} 0 e"), 1),
                    3 => (format!("dup {src} 0 -"), 1),
                    4 => (format!("dup2 {src} {}", self.some_fd()), 1),
                    5 => ("open f1 r e 0".to_string(), 1),
                    _ => ("open f1 r - 0".to_string(), 1),
                };
                self.ops.push(op);
                self.upper += n;
                for _ in 0..1 + self.rng.below(2) {
                    let fd = self.some_fd();
                    self.ops.push(format!("getfd {fd}"));
                }
            }
            "pipes" => {
                let fd = self.some_fd();
                let op = match self.rng.below(10) {
                    0..=2 => {
                        self.upper += 2;
                        "pipe".to_string()
                    }
                    3..=5 => format!("write {fd} {}", self.data()),
                    6..=7 => format!("read {fd} {}", self.rng.below(8)),
                    8 => format!("close {fd}"),
                    _ => format!("fstat {fd}"),
                };
                self.ops.push(op);
            }
            // O_CREAT on a path that ends in a slash: EISDIR on Linux whatever the name is (divergence D19)
            "slashcreate" => {
                // (was divergence D19 until fixed.)  Three shapes still differ in the errno only — nothing is
                // created on either side and a script sees status 2 on both — and are left to the shell leg:
                // an existing regular file (`f1/`: ENOTDIR, Linux EISDIR), an existing directory with O_EXCL
                // (`d2/` cx: EEXIST, Linux EISDIR), a missing parent (`nd/x/`: EISDIR, Linux ENOENT)
                let t = *self.rng.pick(&["ms/", "ms2//", "d1/ms/", "d2/", "d1/dd/ms/", "d1/dd//", "f1/x/", "d2/ms//"]);
                let (path, dotdot) = self.rel(t);
                if dotdot {
                    return; // creating through `..` is the catalogued divergence D4
                }
                let acc = *self.rng.pick(&["r", "w", "rw", "w"]);
                let fl = *self.rng.pick(&["c", "ct", "ca", "cx", "ce"]);
                let fl = if acc == "r" && fl == "ct" { "c" } else { fl };
                let fl = if fl == "cx" && (t == "d2/" || t == "d1/dd//") { "c" } else { fl };
                let mode = *self.rng.pick(&["666", "644", "600"]);
                self.ops.push(format!("open {path} {acc} {fl} {mode}"));
                self.upper += 1;
                if self.rng.chance(1, 2) {
                    let (p2, _) = self.rel(t.trim_end_matches('/'));
                    self.ops.push(format!("stat {p2}"));
                }
            }
            // `is_executable_file` (command search): regular files with and without execute bits, directories,
            // missing files, paths through a regular file, trailing slashes, the empty path (was divergence D21)
            "cmdsearch" => {
                if self.rng.chance(1, 3) {
                    // make an executable (or not) regular file: mode & ~umask decides
                    let t = *self.rng.pick(&["m1", "m2", "d1/m", "d2/n"]);
                    let (path, dotdot) = self.rel(t);
                    if !dotdot {
                        let mode = *self.rng.pick(&["777", "755", "700", "100", "10", "1", "644", "666", "711"]);
                        self.ops.push(format!("open {path} w c {mode}"));
                        self.upper += 1;
                    }
                }
                let t = *self.rng.pick(&[
                    "m1", "m2", "d1/m", "d2/n", "d1", "d2", "d1/dd", "f1", "d1/g", "nofile", "f1/x", "m1/", "d1/", "m1/.",
                    "d1/../m1", "./m2", "d1//m", "-", "-", ".", "..", "d1/dd/..",
                ]);
                if t == "-" {
                    self.ops.push("isx -".to_string());
                } else {
                    let (path, _) = self.rel(t);
                    self.ops.push(format!("isx {path}"));
                }
            }
            "lsfull" => {
                if self.upper < self.limit {
                    self.any_open();
                } else {
                    let t = *self.rng.pick(&["f1", "nodir", "d1/g", "f1/x", "nd/x"]);
                    let (path, _) = self.rel(t);
                    self.push_ls(&path);
                }
            }
            _ => {}
        }
    }
}

/// Class `pipefull`: readiness (`select` with a zero timeout) of a pipe that is filled to capacity, before
/// and after its read end goes away.  Structured, because `fill`/`sel` need to know which descriptor is
/// which end: 3/4 are the first pipe, 5 possibly a duplicate of one end.  A descriptor is only ever
/// selected for the direction it is open for (select for reading on a write-only descriptor is "ready"
/// on the simulator and not on Linux — outside what the shell does, see notes/C19.md).
fn gen_pipefull(rng: &mut Rng) -> String {
    let mut ops: Vec<String> = vec!["pipe".into()];
    if rng.chance(1, 2) {
        ops.push("sel 3 r".into());
        ops.push("sel 4 w".into());
    }
    if rng.chance(1, 2) {
        ops.push(format!("write 4 {}", enc_bytes(b"AB")));
        ops.push("sel 3 r".into());
    }
    let dup_reader = rng.chance(1, 3);
    let dup_writer = !dup_reader && rng.chance(1, 3);
    if dup_reader {
        ops.push("dup 3 0 -".into()); // 5 = second descriptor on the read end
    }
    if dup_writer {
        ops.push("dup 4 0 e".into()); // 5 = second descriptor on the write end
    }
    ops.push("fill 4".into());
    ops.push("sel 4 w".into());
    if rng.chance(1, 2) {
        ops.push(format!("write {} 41", if dup_writer { 5 } else { 4 }));
    }
    if rng.chance(1, 3) {
        ops.push("sel 3 r".into());
    }
    // the reader goes away without draining the pipe
    ops.push("close 3".into());
    ops.push("sel 4 w".into());
    if dup_reader {
        ops.push("write 4 41".into());
        ops.push("close 5".into());
        ops.push("sel 4 w".into());
    }
    ops.push(format!("write {} 41", if dup_writer { 5 } else { 4 }));
    if dup_writer {
        ops.push("sel 5 w".into());
    }
    match rng.below(3) {
        0 => {
            // a second pipe: the writer goes away, the reader sees data then end-of-file
            // descriptor 3 is free again (and 5 unless it duplicates the first write end)
            let w2 = if dup_writer { 6 } else { 5 };
            ops.push("pipe".into());
            ops.push(format!("fill {w2}"));
            ops.push(format!("close {w2}"));
            ops.push("sel 3 r".into());
            ops.push("read 3 3".into());
        }
        1 => {
            ops.push("open f1 rw - 0".into());
            ops.push("sel 3 w".into());
            ops.push("sel 3 r".into());
            ops.push("sel 9 w".into());
            ops.push("sel 9 r".into());
        }
        _ => {}
    }
    format!("S pipefull lim=64; {}", ops.join("; "))
}

fn gen_seq(rng: &mut Rng, class: &'static str, thorough: bool) -> String {
    if class == "pipefull" {
        return gen_pipefull(rng);
    }
    let limit = match class {
        "emfile" | "lsfull" => *rng.pick(&[4u64, 5, 6]),
        "pipes" => *rng.pick(&[64u64, 12, 8, 5]),
        _ => *rng.pick(&[64u64, 64, 8, 12]),
    };
    let mut g = Gen { rng: rng.fork(), class, limit, cwd: vec![], upper: 3, ops: vec![] };
    let n = 4 + g.rng.below(if thorough { 36 } else { 22 });
    // make sure some descriptors exist early
    g.clean_open();
    g.clean_open();
    for _ in 0..n {
        if class != "clean" && g.rng.chance(1, if class == "pipes" { 2 } else { 5 }) {
            g.special();
        } else {
            g.step();
        }
    }
    if class != "clean" {
        g.special();
        g.step();
        g.step();
    }
    format!("S {class} lim={limit}; {}", g.ops.join("; "))
}



// ---- generator of fork / wait cases

const XSIGS: [&str; 5] = ["USR1", "USR2", "TERM", "URG", "WINCH"];

/// what the generator knows about the signal state of the top-level process: it must never be terminated
struct XSim {
    mask: Vec<&'static str>,
    pend: Vec<&'static str>,
    /// signals the top-level process catches: never raised while unblocked, because a caught signal that the
    /// parent has not collected yet is reported by `caught_signals()` in a forked child of RealSystem as well
    /// (its record is a static array that fork copies — D14, a property of RealSystem, not of the kernel)
    catch: Vec<&'static str>,
}

fn x_filter(ops: &mut Vec<String>) -> Vec<String> {
    // no pipes (which ends are open is judged per process by the pivot) and no anonymous files in these cases
    ops.drain(..).filter(|o| !["pipe", "tmp", "fill", "sel", "nb"].iter().any(|k| o == k || o.starts_with(&format!("{k} ")))).collect()
}

fn x_parent_op(g: &mut Gen, sim: &mut XSim, out: &mut Vec<String>) {
    match g.rng.below(10) {
        0..=4 => {
            g.step();
            out.extend(x_filter(&mut g.ops));
        }
        5 => {
            let n = *g.rng.pick(&[5u64, 6, 8, 12, 20, 64]);
            g.limit = n; // `dup fd min`: min >= limit differs in the errno only (EINVAL / EMFILE), not generated
            out.push(format!("setlim {n}"));
        }
        6 => {
            let s = *g.rng.pick(&XSIGS);
            if !sim.mask.contains(&s) {
                sim.mask.push(s);
            }
            out.push(format!("blk {s}"));
        }
        7 => {
            // only a blocked signal (it stays pending) or one whose default action is to ignore it
            let cands: Vec<&'static str> = XSIGS.iter().copied().filter(|s| sim.mask.contains(s)).collect();
            if let Some(s) = cands.first().map(|_| *g.rng.pick(&cands)) {
                if !sim.pend.contains(&s) {
                    sim.pend.push(s);
                }
                out.push(format!("raise {s}"));
            } else if !sim.catch.contains(&"WINCH") {
                out.push("raise WINCH".to_string());
            }
        }
        8 => {
            // never on a pending signal (setting SIG_IGN discards it on a real kernel: divergence D15, not generated)
            let s = *g.rng.pick(&XSIGS);
            if !sim.pend.contains(&s) {
                let d = *g.rng.pick(&["i", "c", "d"]);
                sim.catch.retain(|x| *x != s);
                if d == "c" {
                    sim.catch.push(s);
                }
                out.push(format!("act {s} {d}"));
            }
        }
        _ => out.push((*g.rng.pick(&["mask", "pend", "cwd", "rlim", "umask 27", "umask 77", "umask 2", "badlim 9", "wself", "badlim 3"])).to_string()),
    }
}

fn x_child_body(g: &mut Gen, class: &str) -> Vec<String> {
    let mut body: Vec<String> = vec![];
    // what the child inherited
    let nq = 2 + g.rng.below(5);
    for _ in 0..nq {
        let fd = g.some_fd();
        let q = match g.rng.below(9) {
            0 => "cwd".to_string(),
            1 => "rlim".to_string(),
            2 => format!("getfd {fd}"),
            3 => format!("acc {fd}"),
            4 => "pend".to_string(),
            5 => "mask".to_string(),
            6 => format!("get {}", g.rng.pick(&XSIGS)),
            7 => format!("umask {}", g.rng.pick(&["0", "22", "77", "137"])),
            _ => "caught".to_string(),
        };
        body.push(q);
    }
    // what it does with it: stays in the child, except for files and shared offsets
    let saved_cwd = g.cwd.clone();
    let saved_limit = g.limit;
    let nm = if class == "zombie" { g.rng.below(3) } else { 1 + g.rng.below(7) };
    for _ in 0..nm {
        match g.rng.below(12) {
            0..=6 => {
                g.step();
                body.extend(x_filter(&mut g.ops));
            }
            7 => {
                let n = *g.rng.pick(&[4u64, 5, 7, 9, 30]);
                g.limit = n;
                body.push(format!("setlim {n}"))
            }
            8 => body.push(format!("blk {}", g.rng.pick(&XSIGS))),
            // nothing is pending in a fresh child, so unblocking delivers nothing (if the simulator let the child
            // inherit a pending signal, this is where it would die)
            9 => body.push((*g.rng.pick(&["unb USR1+USR2+TERM", "set -", "unb URG+WINCH", "set URG"])).to_string()),
            // only signals the child never raises: setting SIG_IGN on a pending signal discards it on a real kernel
            // and not on the simulator (divergence D15, documented, not generated)
            10 => body.push(format!("act {} {}", g.rng.pick(&["USR1", "USR2", "TERM"]), g.rng.pick(&["i", "c"]))),
            _ => body.push((*g.rng.pick(&["raise URG", "raise WINCH", "caught", "pend", "badlim 6"])).to_string()),
        }
    }
    g.cwd = saved_cwd;
    g.limit = saved_limit;
    if g.rng.chance(1, 2) {
        let n = if g.rng.chance(1, 4) { *g.rng.pick(&EXIT_BIG) } else { *g.rng.pick(&EXIT_SMALL) };
        body.push(format!("exit {n}"));
    }
    body
}

fn gen_x(rng: &mut Rng, class: &'static str) -> String {
    let limit = *rng.pick(&[64u64, 64, 8, 12]);
    let mut g = Gen { rng: rng.fork(), class: "clean", limit, cwd: vec![], upper: 3, ops: vec![] };
    let mut sim = XSim { mask: vec![], pend: vec![], catch: vec![] };
    let mut out: Vec<String> = vec![];
    g.clean_open();
    g.clean_open();
    out.extend(x_filter(&mut g.ops));
    for _ in 0..2 + g.rng.below(7) {
        x_parent_op(&mut g, &mut sim, &mut out);
    }
    let children = 1 + g.rng.below(2);
    for _ in 0..children {
        let wait = match class {
            "zombie" => false,
            "inherit" => g.rng.chance(4, 5),
            _ => g.rng.chance(1, 2),
        };
        let body = x_child_body(&mut g, class);
        out.push(format!("{}[{}]", if wait { "fork" } else { "spawn" }, body.join(", ")));
        // the parent afterwards: its own state is untouched, shared offsets and files are not
        for _ in 0..1 + g.rng.below(4) {
            let fd = g.some_fd();
            let q = match g.rng.below(8) {
                0 => "cwd".to_string(),
                1 => "rlim".to_string(),
                2 => format!("getfd {fd}"),
                3 => format!("seek {fd} c 0"),
                4 => format!("read {fd} 3"),
                5 => "mask".to_string(),
                6 => "pend".to_string(),
                _ => format!("get {}", g.rng.pick(&XSIGS)),
            };
            out.push(q);
        }
        // zombie accounting
        let nz = if wait { g.rng.below(3) } else { 2 + g.rng.below(4) };
        let mut waited = wait;
        for _ in 0..nz {
            let z = match g.rng.below(5) {
                0 | 1 => {
                    waited = true;
                    "wz".to_string()
                }
                2 => "kz 0".to_string(),
                _ => format!("kz {}", g.rng.pick(&["TERM", "USR1", "URG", "KILL", "0"])),
            };
            out.push(z);
        }
        if !waited && g.rng.chance(2, 3) {
            out.push("wz".to_string());
        }
        for _ in 0..g.rng.below(3) {
            x_parent_op(&mut g, &mut sim, &mut out);
        }
    }
    format!("X {class} lim={limit}; {}", out.join("; "))
}

// ------------------------------------------------------------------------------------------
// process/signal leg: `P <class>; op; op; fork[op, op, …]; …`
//
// Operations (in the top-level process P0 or, inside `fork[…]`, in a forked child):
//   blk/unb/set <A+B|->   sigprocmask SIG_BLOCK / SIG_UNBLOCK / SIG_SETMASK          -> ok
//   act <S> d|i|c         sigaction(S, default | ignore | catch)                     -> =<old d|i|c>
//   get <S>               current disposition                                         -> =d|i|c
//   raise <S>, kself <S>  raise(S), kill(getpid(), S)                                 -> ok
//   kgrp <S>, kpar <S>    kill(0, S) (own process group = P0 and its child), kill(getppid(), S)
//   pend, mask, caught    sigpending, current mask, caught_signals() (as a set)       -> =A+B | =-
//   exit <N>              (child only)
//   fork[…]               fork; the child runs the operations and exits (0 unless `exit N`); the parent
//                         waits for it                                          -> {tok,tok,…}x<N> | …}s<SIG>
// An operation that does not return (the process is terminated by the signal) leaves no token; a
// terminated P0 ends the observation with `DIED:s<SIG>`, otherwise the final state of P0 follows `|`.

/// in increasing Linux signal number
const PSIGS: [&str; NSIG] = [
    "HUP", "INT", "QUIT", "ILL", "TRAP", "ABRT", "BUS", "FPE", "KILL", "USR1", "SEGV", "USR2", "PIPE", "ALRM", "TERM", "CHLD", "URG", "XCPU", "XFSZ", "VTALRM", "PROF", "WINCH", "IO", "SYS",
];
const NSIG: usize = 24;
const I_KILL: usize = 8;
const I_CHLD: usize = 15;

fn signum<S: yash_env::system::Signals>(name: &str) -> Option<yash_env::signal::Number> {
    Some(match name {
        "HUP" => S::SIGHUP,
        "INT" => S::SIGINT,
        "QUIT" => S::SIGQUIT,
        "ILL" => S::SIGILL,
        "TRAP" => S::SIGTRAP,
        "ABRT" => S::SIGABRT,
        "BUS" => S::SIGBUS,
        "FPE" => S::SIGFPE,
        "KILL" => S::SIGKILL,
        "USR1" => S::SIGUSR1,
        "SEGV" => S::SIGSEGV,
        "USR2" => S::SIGUSR2,
        "PIPE" => S::SIGPIPE,
        "ALRM" => S::SIGALRM,
        "TERM" => S::SIGTERM,
        "CHLD" => S::SIGCHLD,
        "URG" => S::SIGURG,
        "XCPU" => S::SIGXCPU,
        "XFSZ" => S::SIGXFSZ,
        "VTALRM" => S::SIGVTALRM,
        "PROF" => S::SIGPROF,
        "WINCH" => S::SIGWINCH,
        "IO" => S::SIGIO?,
        "SYS" => S::SIGSYS,
        _ => return None,
    })
}

fn signame<S: yash_env::system::Signals>(n: yash_env::signal::Number) -> String {
    for name in PSIGS {
        if signum::<S>(name) == Some(n) {
            return name.to_string();
        }
    }
    format!("{}", n.as_raw())
}

fn show_names(mut v: Vec<&'static str>) -> String {
    v.sort_by_key(|n| PSIGS.iter().position(|x| x == n));
    v.dedup();
    if v.is_empty() { "-".to_string() } else { v.join("+") }
}

fn show_disp(d: yash_env::system::Disposition) -> &'static str {
    match d {
        yash_env::system::Disposition::Default => "d",
        yash_env::system::Disposition::Ignore => "i",
        yash_env::system::Disposition::Catch => "c",
    }
}

fn show_wait<S: yash_env::system::Signals>(st: yash_env::job::ProcessState) -> String {
    use yash_env::job::{ProcessResult, ProcessState};
    match st {
        ProcessState::Halted(ProcessResult::Exited(e)) => format!("x{}", e.0),
        ProcessState::Halted(ProcessResult::Signaled { signal, .. }) => format!("s{}", signame::<S>(signal)),
        other => format!("?{other:?}").replace([' ', '\t'], ""),
    }
}

/// every operation except `fork[…]` and `exit`; `None` = unknown operation
async fn sig_op<S>(
    sys: &S,
    op: &str,
    pending: &dyn Fn() -> Vec<&'static str>,
    last_child: Option<yash_env::job::Pid>,
) -> Option<String>
where
    S: yash_env::system::Sigmask
        + yash_env::system::Sigaction
        + yash_env::system::SendSignal
        + yash_env::system::CaughtSignals
        + yash_env::system::GetPid,
{
    use yash_env::system::{Disposition, SigmaskOp, Sigset as _};
    let w: Vec<&str> = op.split_whitespace().collect();
    let set_of = |l: &str| -> S::Sigset {
        let mut set = S::Sigset::new();
        if l != "-" {
            for n in l.split('+') {
                if let Some(k) = signum::<S>(n) {
                    let _ = set.insert(k);
                }
            }
        }
        set
    };
    let unit = |r: Result<(), Errno>| match r {
        Ok(()) => "ok".to_string(),
        Err(e) => errno_name(e),
    };
    Some(match w.as_slice() {
        ["blk", l] => unit(sys.sigmask(Some((SigmaskOp::Add, &set_of(l))), None).await),
        ["unb", l] => unit(sys.sigmask(Some((SigmaskOp::Remove, &set_of(l))), None).await),
        ["set", l] => unit(sys.sigmask(Some((SigmaskOp::Set, &set_of(l))), None).await),
        ["act", s, d] => {
            let disp = match *d {
                "i" => Disposition::Ignore,
                "c" => Disposition::Catch,
                _ => Disposition::Default,
            };
            match sys.sigaction(signum::<S>(s)?, disp) {
                Ok(old) => format!("={}", show_disp(old)),
                Err(e) => errno_name(e),
            }
        }
        ["get", s] => match sys.get_sigaction(signum::<S>(s)?) {
            Ok(d) => format!("={}", show_disp(d)),
            Err(e) => errno_name(e),
        },
        ["raise", s] => unit(sys.raise(signum::<S>(s)?).await),
        ["kself", s] => unit(sys.kill(sys.getpid(), Some(signum::<S>(s)?)).await),
        ["kgrp", s] => unit(sys.kill(yash_env::job::Pid::MY_PROCESS_GROUP, Some(signum::<S>(s)?)).await),
        ["kpar", s] => unit(sys.kill(sys.getppid(), Some(signum::<S>(s)?)).await),
        // kill(pid of the most recent child, S) — `0` = the null signal; every child has been waited for by the
        // time the parent gets here, so the pid names no process any more (ESRCH on a real kernel)
        ["klast", s] => match last_child {
            None => "?".to_string(),
            Some(pid) => {
                let sig = if *s == "0" { None } else { Some(signum::<S>(s)?) };
                unit(sys.kill(pid, sig).await)
            }
        },
        ["pend"] => format!("={}", show_names(pending())),
        ["mask"] => {
            let mut old = S::Sigset::new();
            match sys.sigmask(None, Some(&mut old)).await {
                Ok(()) => {
                    let v = PSIGS
                        .iter()
                        .copied()
                        .filter(|n| signum::<S>(n).is_some_and(|k| old.contains(k) == Ok(true)))
                        .collect();
                    format!("={}", show_names(v))
                }
                Err(e) => errno_name(e),
            }
        }
        ["caught"] => {
            let v = sys.caught_signals();
            let names = PSIGS.iter().copied().filter(|n| signum::<S>(n).is_some_and(|k| v.contains(&k))).collect();
            format!("={}", show_names(names))
        }
        _ => return None,
    })
}

fn fork_body(op: &str) -> Option<Vec<String>> {
    let body = op.strip_prefix("fork[")?;
    let body = body.split(']').next().unwrap_or("");
    Some(body.split(',').map(|s| s.trim().to_string()).filter(|s| !s.is_empty()).collect())
}

async fn final_dump<S>(sys: &S, pending: &dyn Fn() -> Vec<&'static str>) -> String
where
    S: yash_env::system::Sigmask
        + yash_env::system::Sigaction
        + yash_env::system::SendSignal
        + yash_env::system::CaughtSignals
        + yash_env::system::GetPid,
{
    let pend = sig_op(sys, "pend", pending, None).await.unwrap_or_default();
    let mask = sig_op(sys, "mask", pending, None).await.unwrap_or_default();
    let caught = sig_op(sys, "caught", pending, None).await.unwrap_or_default();
    let mut disp = String::new();
    for n in PSIGS {
        disp.push_str(sig_op(sys, &format!("get {n}"), pending, None).await.unwrap_or_default().trim_start_matches('='));
    }
    format!("| pend{pend} mask{mask} caught{caught} disp={disp}")
}

struct YieldNow(bool);
impl Future for YieldNow {
    type Output = ();
    fn poll(mut self: std::pin::Pin<&mut Self>, cx: &mut std::task::Context<'_>) -> std::task::Poll<()> {
        if self.0 {
            std::task::Poll::Ready(())
        } else {
            self.0 = true;
            cx.waker().wake_by_ref();
            std::task::Poll::Pending
        }
    }
}

fn virtual_pending(sys: &VirtualSystem) -> Vec<&'static str> {
    let p = sys.current_process();
    let set = p.pending_signals();
    PSIGS.iter().copied().filter(|n| signum::<VirtualSystem>(n).is_some_and(|k| set.iter().any(|x| *x == k))).collect()
}

fn proc_virtual(ops: &[String]) -> String {
    use std::cell::Cell;
    use yash_env::system::{Exit as _, Fork as _, Wait as _};
    let system = VirtualSystem::new();
    let state = Rc::clone(&system.state);
    let main_pid = system.process_id;
    let executor = yash_executor::Executor::new();
    state.borrow_mut().executor = Some(Rc::new(executor.spawner()));
    let toks: Rc<RefCell<Vec<String>>> = Rc::new(RefCell::new(vec![]));
    let done = Rc::new(Cell::new(false));
    let (toks2, done2, ops2) = (Rc::clone(&toks), Rc::clone(&done), ops.to_vec());
    let main = async move {
        let sys = system;
        let mut last_child: Option<yash_env::job::Pid> = None;
        for op in &ops2 {
            if let Some(cops) = fork_body(op) {
                let out: Rc<RefCell<Vec<String>>> = Rc::new(RefCell::new(vec![]));
                let (res, _) = sys.run_in_child_process(
                    (Rc::clone(&out), cops),
                    async move |csys: VirtualSystem, (out, cops): (Rc<RefCell<Vec<String>>>, Vec<String>)| {
                        let mut code = 0;
                        for cop in &cops {
                            if let Some(n) = cop.strip_prefix("exit ") {
                                code = n.trim().parse().unwrap_or(0);
                                break;
                            }
                            let c2 = csys.clone();
                            let t = sig_op(&csys, cop, &move || virtual_pending(&c2), None).await;
                            out.borrow_mut().push(t.unwrap_or_else(|| "?".into()));
                        }
                        csys.exit(yash_env::semantics::ExitStatus(code)).await;
                    },
                );
                let tok = match res {
                    Err(e) => errno_name(e),
                    Ok(pid) => {
                        last_child = Some(pid);
                        let mut rounds = 0;
                        let st = loop {
                            match sys.wait(pid) {
                                Ok(Some((_, st))) => break show_wait::<VirtualSystem>(st),
                                Ok(None) => {
                                    rounds += 1;
                                    if rounds > 10_000 {
                                        break "STUCK".to_string();
                                    }
                                    YieldNow(false).await
                                }
                                Err(e) => break errno_name(e),
                            }
                        };
                        format!("{{{}}}{st}", out.borrow().join(","))
                    }
                };
                toks2.borrow_mut().push(tok);
            } else {
                let s2 = sys.clone();
                let t = sig_op(&sys, op, &move || virtual_pending(&s2), last_child).await;
                toks2.borrow_mut().push(t.unwrap_or_else(|| "?".into()));
            }
        }
        let s2 = sys.clone();
        let fin = final_dump(&sys, &move || virtual_pending(&s2)).await;
        toks2.borrow_mut().push(fin);
        done2.set(true);
    };
    // SAFETY: single-threaded, as in yash_env::test_helper::in_virtual_system
    unsafe { executor.spawn_pinned(Box::pin(main)) };
    let mut rounds = 0;
    loop {
        executor.run_until_stalled();
        rounds += 1;
        if done.get() || executor.wake_count() == 0 || rounds > 100_000 {
            break;
        }
    }
    let mut v = toks.borrow().clone();
    if !done.get() {
        let st = state.borrow().processes.get(&main_pid).map(|p| p.state());
        match st {
            Some(st) if !st.is_alive() => v.push(format!("DIED:{}", show_wait::<VirtualSystem>(st))),
            _ => v.push("STUCK".to_string()),
        }
    }
    v.join(" ")
}

fn raw_write(text: &str) {
    let b = text.as_bytes();
    let mut off = 0;
    while off < b.len() {
        // SAFETY: plain write(2) on the result pipe
        let n = unsafe { libc::write(result_fd(), b[off..].as_ptr().cast(), b.len() - off) };
        if n <= 0 {
            break;
        }
        off += n as usize;
    }
}

fn real_pending() -> Vec<&'static str> {
    let mut set = std::mem::MaybeUninit::<libc::sigset_t>::uninit();
    // SAFETY: sigpending fills the set
    unsafe {
        libc::sigemptyset(set.as_mut_ptr());
        libc::sigpending(set.as_mut_ptr());
    }
    PSIGS
        .iter()
        .copied()
        .filter(|n| signum::<RealSystem>(n).is_some_and(|k| unsafe { libc::sigismember(set.as_ptr(), k.as_raw()) } == 1))
        .collect()
}

/// body of the real process P0 (already forked off the harness); writes tokens to the result pipe
fn proc_real_p0(ops: &[String]) {
    use yash_env::system::Wait as _;
    // SAFETY: own process group (so that kill(0, …) reaches P0 and its child only), default dispositions,
    // empty mask, a watchdog alarm
    reset_inherited_signal_state(false);
    detach_from_parent_state(0o022, result_fd());
    unsafe {
        let tmp = std::ffi::CString::new(std::env::temp_dir().to_string_lossy().as_bytes()).unwrap();
        libc::chdir(tmp.as_ptr());
        libc::alarm(20);
        let no_core = libc::rlimit { rlim_cur: 0, rlim_max: 0 };
        libc::setrlimit(libc::RLIMIT_CORE, &no_core);
    }
    // SAFETY: the only RealSystem instance of this process
    let sys = unsafe { RealSystem::new() };
    let mut last_child: Option<yash_env::job::Pid> = None;
    for op in ops {
        if let Some(cops) = fork_body(op) {
            raw_write("{");
            use yash_env::system::{Exit as _, Fork as _};
            // `Fork::run_in_child_process` of RealSystem = fork(2); the child leaves through `Exit::exit`
            let (res, _) = sys.run_in_child_process(cops, async move |csys: RealSystem, cops: Vec<String>| {
                // SAFETY: watchdog
                unsafe { libc::alarm(20) };
                let mut code = 0;
                for cop in &cops {
                    if let Some(n) = cop.strip_prefix("exit ") {
                        code = n.trim().parse().unwrap_or(0);
                        break;
                    }
                    let t = sig_op(&csys, cop, &real_pending, None).await;
                    raw_write(&format!("{},", t.unwrap_or_else(|| "?".into())));
                }
                csys.exit(yash_env::semantics::ExitStatus(code)).await;
            });
            let pid = match res {
                Ok(pid) => {
                    last_child = Some(pid);
                    pid.0
                }
                Err(e) => {
                    raw_write(&format!("}}{} ", errno_name(e)));
                    continue;
                }
            };
            let st = loop {
                match sys.wait(yash_env::job::Pid(pid)) {
                    Ok(Some((_, st))) => break show_wait::<RealSystem>(st),
                    Ok(None) | Err(Errno::EINTR) => unsafe {
                        libc::usleep(50);
                    },
                    Err(e) => break errno_name(e),
                }
            };
            raw_write(&format!("}}{st} "));
        } else {
            let t = futures_executor::block_on(sig_op(&sys, op, &real_pending, last_child));
            raw_write(&format!("{} ", t.unwrap_or_else(|| "?".into())));
        }
    }
    raw_write(&futures_executor::block_on(final_dump(&sys, &real_pending)));
}

fn proc_real(ops: &[String]) -> String {
    let mut pipe_fds = [0i32; 2];
    // SAFETY: plain pipe(2)
    assert_eq!(unsafe { libc::pipe(pipe_fds.as_mut_ptr()) }, 0);
    use std::io::Write as _;
    std::io::stdout().flush().unwrap();
    // SAFETY: the harness is single-threaded; the child leaves through _exit
    let ordinal = REAL_PROC_CHILDREN.fetch_add(1, std::sync::atomic::Ordering::Relaxed);
    let pid = unsafe { libc::fork() };
    assert!(pid >= 0, "fork failed");
    if pid == 0 {
        unsafe {
            libc::dup2(pipe_fds[1], result_fd());
            libc::close(pipe_fds[0]);
            libc::close(pipe_fds[1]);
        }
        let r = std::panic::catch_unwind(std::panic::AssertUnwindSafe(|| proc_real_p0(ops)));
        if r.is_err() {
            raw_write(" PANIC");
        }
        leave_child(ordinal);
    }
    unsafe { libc::close(pipe_fds[1]) };
    let mut text = String::new();
    {
        use std::os::fd::FromRawFd as _;
        // SAFETY: read end of the pipe created above, owned from here on
        let mut f = unsafe { std::fs::File::from_raw_fd(pipe_fds[0]) };
        let _ = f.read_to_string(&mut text);
    }
    let mut status = 0;
    unsafe { libc::waitpid(pid, &mut status, 0) };
    let mut text = text.replace(",}", "}").trim().to_string();
    if libc::WIFSIGNALED(status) {
        let n = libc::WTERMSIG(status);
        let name = PSIGS
            .iter()
            .find(|s| signum::<RealSystem>(s).is_some_and(|k| k.as_raw() == n))
            .map(|s| s.to_string())
            .unwrap_or_else(|| n.to_string());
        if !text.is_empty() {
            text.push(' ');
        }
        text.push_str(&format!("DIED:s{name}"));
    }
    text
}

// ---- generator of process/signal cases, with a small simulation of the POSIX rules so that it can keep
// ---- the sequences deterministic on a real kernel (see the comments at each restriction)

#[derive(Clone)]
struct SimProc {
    mask: [bool; NSIG],
    pend: [bool; NSIG],
    disp: [u8; NSIG], // b'd', b'i', b'c'
    caught: [bool; NSIG],
    alive: bool,
}

const DEFAULT_IGNORED: [bool; NSIG] =
    [false, false, false, false, false, false, false, false, false, false, false, false, false, false, false, true, true, false, false, false, false, true, false, false];

impl SimProc {
    fn new() -> SimProc {
        SimProc { mask: [false; NSIG], pend: [false; NSIG], disp: [b'd'; NSIG], caught: [false; NSIG], alive: true }
    }
    fn deadly(&self, s: usize) -> bool {
        self.disp[s] == b'd' && !DEFAULT_IGNORED[s]
    }
    fn ignoring(&self, s: usize) -> bool {
        self.disp[s] == b'i' || (self.disp[s] == b'd' && DEFAULT_IGNORED[s])
    }
    fn deliver(&mut self, s: usize) {
        if self.disp[s] == b'c' {
            self.caught[s] = true;
        } else if self.deadly(s) {
            self.alive = false;
        }
    }
    fn generate(&mut self, s: usize) {
        if !self.alive {
        } else if s == I_KILL {
            self.alive = false;
        } else if self.mask[s] {
            self.pend[s] = true;
        } else {
            self.deliver(s);
        }
    }
    fn flush(&mut self) {
        for s in 0..NSIG {
            if self.alive && self.pend[s] && !self.mask[s] {
                self.pend[s] = false;
                self.deliver(s);
            }
        }
    }
    fn would_die_on(&self, s: usize) -> bool {
        s == I_KILL || !self.mask[s] && self.deadly(s)
    }
    fn fork(&self) -> SimProc {
        SimProc { mask: self.mask, pend: [false; NSIG], disp: self.disp, caught: [false; NSIG], alive: true }
    }
}

fn names_of(set: &[bool; NSIG]) -> String {
    let v: Vec<&str> = (0..NSIG).filter(|i| set[*i]).map(|i| PSIGS[i]).collect();
    if v.is_empty() { "-".to_string() } else { v.join("+") }
}

/// one operation for process `me` (`parent` = Some while `me` is the forked child); None = nothing suitable
fn gen_sig_op(rng: &mut Rng, me: &mut SimProc, parent: Option<&mut SimProc>, allow_kgrp: bool) -> Option<String> {
    // SIGKILL can only be sent (by a child to itself): it is never put into a mask or given a disposition
    let pick = |rng: &mut Rng| loop {
        let s = rng.below(NSIG);
        if s != I_KILL {
            break s;
        }
    };
    let mut s = pick(rng);
    let in_child = parent.is_some();
    Some(match rng.below(100) {
        0..=13 => {
            let mut set = [false; NSIG];
            for _ in 0..1 + rng.below(3) {
                set[pick(rng)] = true;
            }
            for i in 0..NSIG {
                me.mask[i] |= set[i];
            }
            format!("blk {}", names_of(&set))
        }
        14..=28 => {
            // SIG_UNBLOCK / SIG_SETMASK.  Two pending signals that would both terminate the process are never
            // unblocked together: which one is reported depends on the signal numbering, which POSIX leaves open.
            let setmask = rng.chance(1, 3);
            let mut set = [false; NSIG];
            for _ in 0..1 + rng.below(3) {
                set[pick(rng)] = true;
            }
            let mut new_mask = me.mask;
            for i in 0..NSIG {
                new_mask[i] = if setmask { set[i] } else { me.mask[i] && !set[i] };
            }
            let mut deadly_seen = false;
            for i in 0..NSIG {
                if me.pend[i] && !new_mask[i] && me.deadly(i) {
                    if deadly_seen {
                        new_mask[i] = true;
                        set[i] = setmask;
                    }
                    deadly_seen = true;
                }
            }
            if deadly_seen && !rng.chance(1, if in_child { 3 } else { 8 }) {
                return None;
            }
            me.mask = new_mask;
            me.flush();
            format!("{} {}", if setmask { "set" } else { "unb" }, names_of(&set))
        }
        29..=45 => {
            let d = *rng.pick(&[b'd', b'i', b'c', b'c']);
            let name = PSIGS[s];
            if name == "CHLD" && d == b'i' {
                return None; // SIG_IGN for SIGCHLD makes the kernel reap children itself: `wait` is not comparable
            }
            let mut probe = me.clone();
            probe.disp[s] = d;
            if me.pend[s] && probe.ignoring(s) {
                return None; // would discard a pending signal: simulator divergence D15 (see notes/C19.md)
            }
            me.disp[s] = d;
            format!("act {name} {}", d as char)
        }
        46..=49 => format!("get {}", PSIGS[s]),
        50..=70 => {
            if in_child && rng.chance(1, 12) {
                s = I_KILL;
            }
            let name = PSIGS[s];
            if me.would_die_on(s) && !rng.chance(1, if in_child { 5 } else { 14 }) {
                return None;
            }
            let kind = match (rng.below(10), &parent) {
                (0..=5, _) => "raise",
                (6..=7, _) => "kself",
                _ if s == I_KILL => "kself",
                (8, Some(p)) if !p.would_die_on(s) => "kpar",
                // kill(0, …) also reaches terminated (reaped) members of the group on the simulator, changing their
                // state and sending the parent another SIGCHLD: divergence D16 (see notes/C19.md); only used
                // while no terminated child exists
                (9, Some(p)) if allow_kgrp && !p.would_die_on(s) => "kgrp",
                (9, None) if allow_kgrp => "kgrp",
                _ => "raise",
            };
            match kind {
                "kpar" => parent.unwrap().generate(s),
                "kgrp" => {
                    if let Some(p) = parent {
                        p.generate(s);
                    }
                    me.generate(s)
                }
                _ => me.generate(s),
            }
            format!("{kind} {name}")
        }
        71..=80 => "pend".to_string(),
        81..=86 => "mask".to_string(),
        _ => {
            me.caught = [false; NSIG];
            "caught".to_string()
        }
    })
}

/// exit statuses a child passes to `exit`: up to 255 in the ordinary classes …
const EXIT_SMALL: [u32; 10] = [0, 1, 2, 3, 126, 127, 128, 129, 200, 255];
/// … and beyond 8 bits (a real kernel reports N & 255; the simulator reported N: divergence D18, fixed in
/// /repo) — always in class `exit8`, now and then elsewhere
/// (no status 384+n where n is a signal number on one of the two systems only: a shell that exits with such a
/// status kills itself with signal n instead — `exit_or_raise` — and the two systems number their signals
/// differently by design; 386, 393, 399 = INT, KILL, TERM have the same number on both)
const EXIT_BIG: [u32; 16] = [256, 257, 258, 300, 383, 384, 386, 393, 399, 511, 768, 1000, 4660, 65535, 65536, 2147483647];
/// signals sent to the pid of a reaped child (`0` = the null signal): ESRCH (the simulator answered success:
/// divergence D20, fixed in /repo) — emphasised in class `reaped`
const KLAST: [&str; 10] = ["0", "0", "0", "0", "URG", "CHLD", "WINCH", "USR1", "TERM", "INT"];

/// classes of process/signal cases: `sig` (ordinary), `exit8` (a child exits with a status above 255),
/// `reaped` (the parent signals the pid of a child it has already waited for)
fn gen_proc(rng: &mut Rng, thorough: bool, class: &str) -> String {
    let mut p0 = SimProc::new();
    let mut ops: Vec<String> = vec![];
    let n = 5 + rng.below(if thorough { 22 } else { 14 });
    let mut forks = 0;
    let mut big_used = false;
    while (ops.len() < n || (class != "sig" && forks == 0)) && p0.alive {
        if forks > 0 && rng.chance(1, if class == "reaped" { 4 } else { 14 }) {
            ops.push(format!("klast {}", rng.pick(&KLAST)));
            if rng.chance(1, 2) {
                ops.push("pend".to_string());
            }
            continue;
        }
        if (rng.chance(1, 5) || (class != "sig" && forks == 0 && ops.len() + 2 >= n)) && forks < 4 {
            forks += 1;
            if p0.caught.iter().any(|c| *c) {
                // an uncollected catch record is copied into the child by RealSystem (user-space record):
                // divergence D14 (see notes/C19.md); collect it first
                p0.caught = [false; NSIG];
                ops.push("caught".to_string());
            }
            if rng.chance(1, 2) {
                // make sure the parent often has a blocked, pending signal when it forks
                let s = loop {
                    let s = rng.below(NSIG);
                    if s != I_KILL {
                        break s;
                    }
                };
                p0.mask[s] = true;
                p0.generate(s);
                ops.push(format!("blk {}", PSIGS[s]));
                ops.push(format!("raise {}", PSIGS[s]));
            }
            let mut child = p0.fork();
            let mut cops: Vec<String> = vec![];
            let m = 1 + rng.below(8);
            // the child starts by looking at what it inherited
            for probe in ["pend", "mask", "caught"] {
                if rng.chance(2, 3) {
                    cops.push(probe.to_string());
                }
            }
            let mut tries = 0;
            while cops.len() < m + 3 && child.alive && tries < 60 {
                tries += 1;
                if let Some(op) = gen_sig_op(rng, &mut child, Some(&mut p0), forks == 1) {
                    cops.push(op);
                }
            }
            if class == "exit8" && child.alive && (!big_used || rng.chance(1, 2)) {
                big_used = true;
                cops.push(format!("exit {}", rng.pick(&EXIT_BIG)));
            } else if child.alive && rng.chance(1, 2) {
                if rng.chance(1, 5) {
                    cops.push(format!("exit {}", rng.pick(&EXIT_BIG)));
                } else {
                    cops.push(format!("exit {}", rng.pick(&EXIT_SMALL)));
                }
            }
            p0.generate(I_CHLD); // SIGCHLD
            ops.push(format!("fork[{}]", cops.join(", ")));
        } else if let Some(op) = gen_sig_op(rng, &mut p0, None, forks == 0) {
            ops.push(op);
        }
    }
    if class == "reaped" && forks > 0 && p0.alive {
        ops.push(format!("klast {}", rng.pick(&KLAST)));
        ops.push("pend".to_string());
    }
    format!("P {class}; {}", ops.join("; "))
}

fn run_proc_case(case: &str) {
    let ops: Vec<String> = case.split(';').skip(1).map(|s| s.trim().to_string()).filter(|s| !s.is_empty()).collect();
    yverif::proto::watch_case(case, 120);
    let v = guarded(|| proc_virtual(&ops));
    let r = proc_real(&ops);
    let oracle = if v == r { "ok".to_string() } else { format!("FAIL:real-differs({})", first_difference(&v, &r)) };
    if std::env::var("C19_IMPL").as_deref() == Ok("real") {
        emit(case, &r, "-");
        return;
    }
    emit(case, &v, &oracle);
}

// ------------------------------------------------------------------------------------------
// shell leg

const YASH3: &str = "/verif/harness/target/yash-cli/debug/yash3";

fn build_yash3() {
    if let Ok(p) = std::env::var("C19_YASH3") {
        if StdPath::new(&p).exists() {
            return;
        }
    }
    let out = std::process::Command::new("cargo")
        .args(["build", "--offline", "-p", "yash-cli", "--manifest-path", "/repo/Cargo.toml", "--target-dir"])
        .arg("/verif/harness/target/yash-cli")
        .output()
        .expect("cargo build of yash-cli could not be started");
    if !out.status.success() {
        eprintln!("{}", String::from_utf8_lossy(&out.stderr));
        panic!("cargo build -p yash-cli failed");
    }
}

fn yash3_path() -> String {
    std::env::var("C19_YASH3").ok().filter(|p| StdPath::new(p).exists()).unwrap_or_else(|| YASH3.to_string())
}

fn shell_obs(stdout: &[u8], status: i32, tree: &str) -> String {
    format!("out={} st={} T {}", enc_bytes(stdout), status, tree)
}

type VEnv = yash_env::Env<Rc<yash_env::system::Concurrent<VirtualSystem>>>;

/// The tail of `yash_cli::run_as_shell_process`: read-eval loop, result, EXIT trap
/// (same as the private `yverif::shell::eval_source`).
async fn eval_source(env: &mut VEnv, source: &yash_cli::startup::args::Source) -> i32 {
    use std::ops::ControlFlow::{Break, Continue};
    use yash_env::semantics::Divert;
    let ref_env = RefCell::new(env);
    let lexer = match yash_cli::startup::input::prepare_input(&ref_env, source).await {
        Ok(lexer) => lexer,
        Err(_) => return 127,
    };
    let result = yash_semantics::read_eval_loop(&ref_env, &mut { lexer }).await;
    let env = ref_env.into_inner();
    env.apply_result(result);
    match result {
        Continue(())
        | Break(Divert::Continue { .. })
        | Break(Divert::Break { .. })
        | Break(Divert::Return(_))
        | Break(Divert::Interrupt(_))
        | Break(Divert::Exit(_)) => yash_semantics::trap::run_exit_trap(env).await,
        Break(Divert::Abort(_)) => (),
    }
    env.exit_status.0
}

/// The shell on the virtual system, wired as in `yverif::shell::run_with` (= `yash-cli`), with one
/// difference that `run_with` offers no hook for: the shell process gets the absolute working
/// directory `/` *before* start-up (a `VirtualSystem::new()` process has the empty path as its cwd,
/// which no real process can have; start-up reads it to initialise `$PWD`).
fn shell_virtual(script: &str) -> String {
    use std::cell::Cell;
    use yash_cli::startup::args::{InitFile, Run, Source, Work};
    use yash_cli::startup::configure_environment;
    use yash_env::Env;
    use yash_env::system::Concurrent;

    let system = VirtualSystem::new();
    let state = Rc::clone(&system.state);
    let main_pid = system.process_id;
    populate_virtual(&state, "", true);
    if wants_links(script) {
        for (name, target) in LINKS {
            let inode = Inode { body: FileBody::Symlink { target: target.into() }, permissions: Mode::from_bits_retain(0o777) };
            state.borrow_mut().file_system.save(format!("/{name}").as_str(), Rc::new(RefCell::new(inode))).unwrap();
        }
    }
    system.current_process_mut().chdir("/".into());
    let executor = yash_executor::Executor::new();
    state.borrow_mut().executor = Some(Rc::new(executor.spawner()));

    let env = Env::with_system(Rc::new(Concurrent::new(system)));
    let concurrent = Rc::clone(&env.system);
    let result: Rc<Cell<Option<i32>>> = Rc::new(Cell::new(None));
    let result2 = Rc::clone(&result);
    let script = script.to_string();
    let main = async move {
        let mut env = env;
        let run = Run {
            work: Work { source: Source::String(script), profile: InitFile::None, rcfile: InitFile::None },
            options: vec![],
            arg0: "yash".into(),
            positional_params: vec![],
        };
        let work = configure_environment(&mut env, run).await;
        let status = eval_source(&mut env, &work.source).await;
        result2.set(Some(status));
        // `run_as_shell_process` ends with `exit_or_raise(&env.system, env.exit_status)`: the process state
        // this leaves behind is what an observer of the shell process sees (read below)
        yash_env::semantics::exit_or_raise(&env.system, yash_env::semantics::ExitStatus(status)).await;
    };
    let runner = async move { concurrent.run_virtual(main).await };
    // SAFETY: single-threaded, as in yash_env::test_helper::in_virtual_system
    unsafe { executor.spawn_pinned(Box::pin(runner)) };
    let mut rounds = 0usize;
    let status = loop {
        executor.run_until_stalled();
        if let Some(r) = result.take() {
            break Some(r);
        }
        rounds += 1;
        let mut st = state.borrow_mut();
        if let Some(next) = st.scheduled_wakers.next_wake_time() {
            st.advance_time(next);
        }
        drop(st);
        if executor.wake_count() == 0 || rounds > 20_000 {
            break None;
        }
    };
    let Some(status) = status else { return "STUCK".to_string() };
    // what an observer of the shell process sees is the process state `exit_or_raise` left behind, not the
    // shell's own variable
    let status = {
        use yash_env::job::{ProcessResult, ProcessState};
        match state.borrow().processes.get(&main_pid).map(|p| p.state()) {
            Some(ProcessState::Halted(ProcessResult::Exited(e))) => e.0,
            Some(ProcessState::Halted(ProcessResult::Signaled { signal, .. })) => 384 + signal.as_raw(),
            _ => status,
        }
    };
    let stdout = yverif::shell::read_file(&state, "/dev/stdout").unwrap_or_default();
    let root = Rc::clone(&state.borrow().file_system.root);
    let mut lines = vec![];
    dump_virtual_tree(&root, "", &["dev", "tmp"], &mut lines);
    shell_obs(&stdout, status, &join_sorted(lines))
}

fn shell_real(script: &str) -> String {
    let scratch = Scratch::new();
    let root = scratch.root();
    populate_real(&root, true);
    if wants_links(script) {
        for (name, target) in LINKS {
            std::os::unix::fs::symlink(target, root.join(name)).unwrap();
        }
    }
    let root_str = std::fs::canonicalize(&root).unwrap().to_string_lossy().into_owned();
    let mut cmd = std::process::Command::new(yash3_path());
    cmd.arg("-c").arg(script).current_dir(&root).env_clear();
    cmd.stdin(std::process::Stdio::null()).stdout(std::process::Stdio::piped()).stderr(std::process::Stdio::null());
    // SAFETY: umask is async-signal-safe.  0o644 is the initial file creation mask of a VirtualSystem
    // process (`Mode::default()`), so both shells start from the same state.
    unsafe {
        cmd.pre_exec(|| {
            // nothing of the check's own parent may leak into the real shell: signal dispositions and mask
            // (a shell that inherits SIGINT/SIGQUIT ignored lists them in `trap`), session / controlling
            // terminal / process group (`kill -s SIG 0` must reach the script's processes only), umask,
            // inherited descriptors, descriptor limit (the simulator has none: a generous fixed one)
            reset_inherited_signal_state(false);
            detach_from_parent_state(0o644, -1);
            let mut lim = libc::rlimit { rlim_cur: 0, rlim_max: 0 };
            if libc::getrlimit(libc::RLIMIT_NOFILE, &mut lim) == 0 {
                lim.rlim_cur = if lim.rlim_max == libc::RLIM_INFINITY { 4096 } else { lim.rlim_max.min(4096) };
                libc::setrlimit(libc::RLIMIT_NOFILE, &lim);
            }
            Ok(())
        });
    }
    let mut child = match cmd.spawn() {
        Ok(c) => c,
        Err(e) => return format!("SPAWN({e})"),
    };
    let mut stdout = child.stdout.take().unwrap();
    let reader = std::thread::spawn(move || {
        let mut buf = vec![];
        let _ = stdout.read_to_end(&mut buf);
        buf
    });
    let start = std::time::Instant::now();
    let status = loop {
        match child.try_wait() {
            Ok(Some(st)) => break Some(st),
            Ok(None) => {
                if start.elapsed().as_secs() > 20 {
                    let _ = child.kill();
                    let _ = child.wait();
                    break None;
                }
                std::thread::sleep(std::time::Duration::from_millis(1));
            }
            Err(_) => break None,
        }
    };
    let out = reader.join().unwrap_or_default();
    let Some(status) = status else { return "STUCK".to_string() };
    use std::os::unix::process::ExitStatusExt as _;
    let code = status.code().unwrap_or_else(|| 384 + status.signal().unwrap_or(0));
    // the scratch root is the only absolute path a script can learn (through PWD): print it as empty
    let out = strip_root(&out, &root_str);
    let mut lines = vec![];
    dump_real_tree(&root, "", &mut lines);
    let lines = lines
        .into_iter()
        .map(|l| {
            // file contents may contain the root path too
            let mut parts: Vec<String> = l.rsplitn(2, ':').map(|s| s.to_string()).collect();
            parts.reverse();
            if parts.len() == 2 && parts[1] != "-" {
                if let Some(b) = yverif::proto::dec_bytes(&parts[1]) {
                    parts[1] = enc_bytes(&strip_root(&b, &root_str));
                }
            }
            parts.join(":")
        })
        .collect();
    shell_obs(&out, code, &join_sorted(lines))
}

/// `<root>/x` -> `/x`, a bare `<root>` -> `/`
fn strip_root(text: &[u8], root: &str) -> Vec<u8> {
    let with_slash = format!("{root}/");
    let t = replace_bytes(text, with_slash.as_bytes(), b"/");
    replace_bytes(&t, root.as_bytes(), b"/")
}

fn replace_bytes(hay: &[u8], needle: &[u8], with: &[u8]) -> Vec<u8> {
    if needle.is_empty() {
        return hay.to_vec();
    }
    let mut out = Vec::with_capacity(hay.len());
    let mut i = 0;
    while i < hay.len() {
        if hay[i..].starts_with(needle) {
            out.extend_from_slice(with);
            i += needle.len();
        } else {
            out.push(hay[i]);
            i += 1;
        }
    }
    out
}

fn run_shell_case(tag: &str, script: &str) {
    // a simulator run that stalls is the observation STUCK (the executor has nothing left to wake), which
    // differs from any real observation: a deadlock on the simulator is a concrete violation, not a hang
    // of the check; the watchdog is only the last resort against a busy loop
    yverif::proto::watch_case(&format!("H {tag} {}", enc_str(script)), 120);
    let v = guarded(|| shell_virtual(script));
    let r = shell_real(script);
    let case = format!("H {tag} {} real={r}", enc_str(script));
    let oracle = if v == r { "ok".to_string() } else { format!("FAIL:real-differs({})", first_difference(&v, &r)) };
    emit(&case, &v, &oracle);
}

/// (tag, script template); `%` is replaced by a per-instance suffix.  Tag `clean` = no catalogued
/// divergence is involved.  Only built-ins of the real binary are used (`alias` without aliases is
/// the do-nothing regular built-in, `typeset -p` the printer).
const FRAGMENTS: [(&str, &str); 147] = [
    ("clean", "x%=one; typeset -p x% >o%; x%=two; typeset -p x% >o%; read -r l <o%; typeset -p l"),
    ("clean", "x%=ap; typeset -p x% >>a%; x%=bp; typeset -p x% >>a%; umask >>a%"),
    ("clean", "set -C; alias >f1; s=$?; typeset -p s; typeset -p s >|f1; alias >n%; set +C; read -r l <f1; typeset -p l"),
    ("clean", "x%=v; typeset -p x% 3>d% >&3 3>&-; read -r l <d%; typeset -p l"),
    ("clean", "exec 4>e%; x%=w; typeset -p x% >&4; exec 4>&-; alias >&4; s=$?; typeset -p s"),
    ("clean", "read l <&9; s=$?; typeset -p s; alias >&9; s=$?; typeset -p s"),
    ("clean", "cd d1; for i in *; do typeset -p i; done; typeset -p PWD; alias >c%; cd .."),
    ("clean", "for i in f* d1/* nomatch*; do typeset -p i; done"),
    ("clean", "x%=piped; typeset -p x% | { read -r l; typeset -p l >p%; }; read -r m <p%; typeset -p m"),
    ("clean", "x%=a; typeset -p x% | { read -r l; typeset -p l; } | { read -r l; typeset -p l; }"),
    ("clean", "x%=sub; y=$(typeset -p x%); typeset -p y; z=$(read -r l <f1; typeset -p l); typeset -p z"),
    ("clean", "y=$(alias >cs%; typeset -p nonexistent%); s=$?; typeset -p y s"),
    ("clean", "x%=hd; read -r h <<EOF\nline $x% $(typeset -p x%)\nEOF\ntypeset -p h"),
    ("clean", "read -r h <<'EOF'\nraw $x \\ `x`\nEOF\ntypeset -p h; { read -r a; read -r b; } <<-EOF\n\tone\n\ttwo\nEOF\ntypeset -p a b"),
    ("clean", "trap 'tt=got; typeset -p tt' USR1; kill -s USR1 $$; typeset -p tt; trap - USR1"),
    ("clean", "trap '' USR2; kill -s USR2 $$; s=$?; typeset -p s; trap >t%; trap - USR2"),
    ("clean", "trap 'u%=term; typeset -p u% >>k%' TERM; kill $$; kill -s TERM $$; trap - TERM; read -r a <k%; typeset -p a"),
    ("clean", "(exit 3) & wait $!; s=$?; typeset -p s; (exit 5); s=$?; typeset -p s"),
    ("clean", "(trap 'typeset -p PWD >x%' EXIT; exit 4); s=$?; typeset -p s"),
    ("clean", "umask 027; alias >u%; umask -S >us%; umask 077; alias >v%; umask 644"),
    ("clean", "(umask 022; alias >w%; umask -S); alias >w2%"),
    ("clean", "alias <nofile%; s=$?; typeset -p s; read l <nofile%; s=$?; typeset -p s"),
    ("clean", "alias >f1/x; s=$?; typeset -p s; alias <f1/x; s=$?; typeset -p s; alias <nd/x; s=$?; typeset -p s"),
    ("clean", "read l <d1; s=$?; typeset -p s"),
    ("clean", "cd nodir%; s=$?; typeset -p s; cd f1; s=$?; typeset -p s; command . ./nofile%; s=$?; typeset -p s"),
    ("clean", "typeset -p PWD >dot%; . ./dot%; s=$?; typeset -p s"),
    ("clean", "(ulimit -n 7; alias 8<f1; s=$?; typeset -p s; alias 6<f1; s=$?; typeset -p s)"),
    ("clean", "exec 5<f1; read -r a <&5; read -r b <&5; s=$?; exec 5<&-; typeset -p a s"),
    ("clean", "exec 6<>rw%; x%=rw; typeset -p x% >&6; exec 6>&-; read -r l <rw%; typeset -p l"),
    ("clean", "x%=abc; typeset -p x% >t%; alias >>t%; read -r l <t%; typeset -p l; alias >t%; read -r l <t%; s=$?; typeset -p s l"),
    ("clean", "eval 'alias >ev%'; command alias >cm%; { alias; typeset -p x; } >g% 2>ge%"),
    ("clean", "f%() { typeset -p PWD; alias >fn%; }; cd d2; f% >fo%; cd ..; f% >fo2%"),
    ("mkparent", "alias >nd%/x; s=$?; typeset -p s"),
    ("mkparent", "alias >>nd%/sub/x; s=$?; typeset -p s; set -C; alias >ne%/y; s=$?; typeset -p s; set +C"),
    ("clean", "alias >d2; s=$?; typeset -p s; alias >>d1; s=$?; typeset -p s"),
    ("dotdot", "alias >d1/../up%; s=$?; typeset -p s; cd d1; alias >../up2%; s=$?; typeset -p s; cd .."),
    ("clean", "cd d1/dd; cd -P ..; typeset -p PWD; cd .."),
    // what wave 3 put into the pivot, seen from scripts: fork inheritance, zombies, listing, pipe holders
    ("forkinherit", "umask 027; (umask; umask 077; umask); umask; x%=$(umask); typeset -p x%; umask 644"),
    ("forkinherit", "cd d1; (cd -P .; typeset -p PWD; cd dd; typeset -p PWD); typeset -p PWD; y%=$(cd dd; cd -P .; typeset -p PWD); typeset -p y%; cd .."),
    ("forkinherit", "(ulimit -n 20; ulimit -n; (ulimit -n; ulimit -n 12; ulimit -n); ulimit -n; z%=$(ulimit -n); typeset -p z%)"),
    ("forkinherit", "exec @F<f1; (read -r a <&@F; typeset -p a); read -r b <&@F; s=$?; typeset -p s b; exec @F<&-"),
    ("forkinherit", "trap '' INT; (trap; trap - INT; trap); trap; v%=$(trap); typeset -p v%; trap - INT"),
    ("zombie", "(exit 3) & wait $!; s=$?; wait $!; t=$?; kill -s 0 $!; u=$?; typeset -p s t u"),
    // a process group that does not exist (ESRCH from the group branch of kill)
    ("sigmore", "kill -s 0 -- -2000000000; s=$?; typeset -p s; kill -s TERM -- -2000000001; s=$?; typeset -p s; kill -s 0 0; s=$?; typeset -p s; (kill -s 0 0; s=$?; typeset -p s)"),
    ("zombie", "(exit 5) & p%=$!; wait; kill -s 0 $p%; u=$?; wait $p%; t=$?; typeset -p u t"),
    ("listing", "cd d2; alias >.hid%; alias >vis%; for i in * .h* .* ../d1/.* ../d1/*; do typeset -p i; done; cd .."),
    ("pipeholders", "{ typeset -p PWD; (exec >&-; exit 0); } | { while read -r l; do typeset -p l; done; s=$?; typeset -p s; }"),
    ("pipeholders", "typeset -p PWD | { (exit 0); read -r l; typeset -p l; read -r m; s=$?; typeset -p s; }"),
    ("cwdshape", "cd -P d1/; typeset -p PWD; cd -P .; typeset -p PWD; typeset -p PWD; cd .."),
    ("cwdshape", "cd -P ./d1//dd/.; s=$?; typeset -p s PWD; cd -P .; typeset -p PWD; (cd -P .; typeset -p PWD; cd -P ..//; cd -P .; typeset -p PWD); x%=$(cd -P .; typeset -p PWD); typeset -p x%; cd ../.."),
    ("cwdshape", "cd -P d1//; alias >in%; cd -P .; typeset -p PWD; cd -P dd/; cd -P .; typeset -p PWD; cd -P ../..; cd -P .; typeset -p PWD; typeset -p PWD OLDPWD"),
    ("cwdshape", "cd d1/; typeset -p PWD; cd -P .; typeset -p PWD; typeset -p PWD; cd ./dd//; typeset -p PWD; cd -P .; typeset -p PWD; cd -P .; typeset -p PWD; cd ../..//; typeset -p PWD"),
    ("cwdshape", "cd -P f1/; s=$?; typeset -p s; cd -P nodir%//; s=$?; typeset -p s; cd -P d1/g/.; s=$?; typeset -p s; cd -P .; typeset -p PWD"),
    ("cwdshape", "cd -P d2/./; for i in ../d1/*; do typeset -p i; done; typeset -p PWD | { read -r l; typeset -p l; cd -P .; typeset -p PWD; }; cd .."),
    ("clean", "cd d1; (alias >sub%); y=$(for i in *; do typeset -p i; done); typeset -p y; cd .."),
    ("clean", "cd d2; x%=q; typeset -p x% | { read -r l; typeset -p l >pp%; }; cd .."),
    ("clean", "umask 027; (alias >su%); alias | alias >sv%; umask 644"),
    ("clean", "(ulimit -n 7; (alias 8<f1); s=$?; typeset -p s; (ulimit -n 9; alias 8<f1); s=$?; typeset -p s)"),
    ("clean", "(ulimit -n 3; exec 5>nf%); s=$?; typeset -p s"),
    ("clean", "for i in *; do :; done; for i in d1/*; do :; done; alias <&3; s=$?; typeset -p s; alias <&4; s=$?; typeset -p s"),
    ("clean", "(ulimit -n 5; for i in d1/*; do typeset -p i; done; for i in d1/*; do typeset -p i; done; for i in d1/*; do typeset -p i; done)"),
    ("clean", "x%='p q'; typeset -p x% >w%; typeset -p x% >>w%; while read -r a b; do typeset -p a b; done <w%"),
    ("clean", "( (x%=in; typeset -p x% >n%); read -r l <n%; typeset -p l >>n% ); while read -r l; do typeset -p l; done <n%"),
    ("clean", "x%=keep; exec @F>&1 >ex%; typeset -p x%; exec >&@F @F>&-; read -r l <ex%; typeset -p l"),
    ("clean", "for i in 1 2 3; do typeset -p i >>l%; done; while read -r a; do typeset -p a; done <l%; alias >l%; read -r a <l%; s=$?; typeset -p s"),
    ("clean", "IFS=:; x%=a:b:c; for i in $x%; do typeset -p i; done >i%; unset IFS; read -r l <i%; typeset -p l"),
    ("clean", "readonly r%=1; (r%=2) 2>er%; s=$?; typeset -p s"),
    ("clean", "set -e; (exit 0); x%=alive; typeset -p x%; set +e; (set -e; (exit 7); typeset -p x%); s=$?; typeset -p s"),
    ("clean", "x%=@W; case $(typeset -p x%) in *@W*) typeset -p x% >c1%;; *) typeset -p PWD >c2%;; esac"),
    ("clean", "umask @U; alias >um%; umask >umo%; read -r x% <umo%; typeset -p x%; umask -S; umask 644"),
    ("clean", "cd d1/dd; alias >deep%; typeset -p PWD; cd ..; typeset -p PWD; for i in *; do typeset -p i; done; cd .."),
    ("clean", "exec @F<f1; read -r a <&@F; exec @F<&-; read -r b <&@F; s=$?; typeset -p a s"),
    ("clean", "x%=@W; typeset -p x% >t1%; typeset -p x% @F>t2% >&@F; read -r a <t1%; read -r b <t2%; typeset -p a b"),
    ("clean", "kill -l 15; kill -l TERM; trap 'typeset -p PWD >>tr%' USR1 USR2; kill -s USR1 $$; kill -s USR2 $$; trap - USR1 USR2"),
    ("clean", "(exit 3) & (exit 4) & wait; s=$?; typeset -p s; wait $!; s=$?; typeset -p s"),
    ("clean", "x%=@W; { typeset -p x%; typeset -p x%; } | { read -r a; read -r b; typeset -p a b >pq%; }; while read -r l; do typeset -p l; done <pq%"),
    ("clean", "y=$( (x%=@W; typeset -p x% >cs2%; typeset -p x%) | { read -r l; typeset -p l; } ); typeset -p y"),
    ("clean", "umask @U; x%=$(alias >cu%; umask); typeset -p x%; umask 644"),
    ("clean", "cd d1/dd; (alias >deep2%; typeset -p PWD >pw%); cd ../.."),
    ("clean", "alias <f1/../f2; s=$?; typeset -p s; alias >>f1/..; s=$?; typeset -p s; cd f1/..; s=$?; typeset -p s; cd f1/.; s=$?; typeset -p s"),
    ("clean", "alias <f1/.; s=$?; typeset -p s; read -r l <d1/g/.; s=$?; typeset -p s l"),
    ("clean", "for i in f*/. d1/g*/.; do typeset -p i; done"),
    ("clean", "for i in d[12]/. d[12]/.. f*/.. d1/*/.. d1/g/.; do typeset -p i; done"),
    ("clean", "read -r a <d1/./g; read -r b <d1/dd/../g; read -r c <d2/../f1; typeset -p a b c; typeset -p a >>d1/dd/../g; read -r l <d1/g; typeset -p l"),
    ("clean", "(ulimit -n 4; alias <f1 >t%; s=$?; typeset -p s; alias <f1 >>f2 2>nf%; s=$?; typeset -p s); read -r l <f1; typeset -p l"),
    ("clean", "trap 'tt%=got; typeset -p tt%' USR1; x%=$(kill -s USR1 $$; typeset -p PWD)$(typeset -p PWD); s=$?; typeset -p s x%; trap - USR1"),
    ("clean", "trap 'tt%=got' USR2; (kill -s USR2 $$); (typeset -p PWD >ss%); s=$?; typeset -p s tt%; trap - USR2"),
    ("clean", "trap 'u%=1' TERM; y%=$(kill $$; typeset -p PWD); typeset -p PWD | { read -r l; typeset -p l; }; s=$?; typeset -p s u% y%; trap - TERM"),
    ("clean", "trap 'w%=1' USR1; kill -s USR1 $$; (typeset -p w%); z%=$(typeset -p w%); typeset -p z%; (kill -s USR1 $$; exit 5); s=$?; typeset -p s; trap - USR1"),
    ("clean", "trap '' USR1; (kill -s USR1 $$; typeset -p PWD >ig%); s=$?; typeset -p s; x%=$(kill -s USR1 $$; typeset -p PWD)$(typeset -p PWD); typeset -p x%; trap - USR1"),
    ("clean", "trap 'c%=chld' CHLD; (exit 2); (exit 3); s=$?; typeset -p s c%; trap - CHLD"),
    ("clean", "trap 'a%=1' USR1; trap 'b%=1' USR2; x%=$(kill -s USR1 $$; kill -s USR2 $$; typeset -p PWD)$( (typeset -p PWD) )$(typeset -p PWD | { read -r l; typeset -p l; }); s=$?; typeset -p s a% b% x%; trap - USR1 USR2"),
    ("clean", "cd lnkd; s=$?; typeset -p s PWD; cd ..; typeset -p PWD; cd lnkloop; s=$?; typeset -p s; cd lnkbad; s=$?; typeset -p s; cd lnkf; s=$?; typeset -p s"),
    ("clean", "for i in lnk* lnkz*; do typeset -p i; done"),
    // known finding K9 (= D17): the simulator does not follow a symbolic link in open / opendir / chdir (nor in a
    // non-final component of any path).  Links exist beforehand; one such fragment per script, and it comes last.
    ("symlink", "read -r a <lnkf; s=$?; typeset -p s a"),
    ("symlink", "for i in lnkd/*; do typeset -p i; done"),
    ("symlink", "alias <lnkbad; s=$?; typeset -p s"),
    ("symlink", "alias >lnkbad; s=$?; typeset -p s; for i in nofil*; do typeset -p i; done"),
    ("symlink", "cd lnkd; cd -P .; typeset -p PWD; cd .."),
    ("symlink", "x%=new; typeset -p x% >>lnkf; while read -r l; do typeset -p l; done <f1"),
    ("symlink", "read -r a <lnkd/g; s=$?; typeset -p s a; alias >lnkd/viaw%; for i in d1/via*; do typeset -p i; done"),
    ("symlink", "cd -P lnkd/dd; s=$?; typeset -p s PWD"),
    ("symlink", "alias <lnkloop; s=$?; typeset -p s; alias >lnkloop; s=$?; typeset -p s; for i in lnkloop/*; do typeset -p i; done"),
    ("clean", "v%=xxxxxxxxxxxxxxxx; v%=$v%$v%$v%$v%; v%=$v%$v%$v%$v%; v%=$v%$v%$v%$v%; v%=$v%$v%; typeset -p v% | { read -r l; typeset -p l >big%; }; w%=$(typeset -p v%; typeset -p v%); s=${#w%}; typeset -p s"),
    ("clean", "v%=0123456789abcdef; v%=$v%$v%$v%$v%$v%$v%$v%$v%; v%=$v%$v%$v%$v%$v%$v%$v%$v%; { typeset -p v%; typeset -p v%; typeset -p v%; } | { while read -r l; do n=${#l}; typeset -p n; done; }"),
    ("clean", "(ulimit -n 4; typeset -p PWD | read x; s=$?; typeset -p s); (ulimit -n 3; y=$(typeset -p PWD); s=$?; typeset -p s y); s=$?; typeset -p s"),
    ("clean", "kill -s USR1 999999; s=$?; typeset -p s; kill -s 0 $$; s=$?; typeset -p s; kill -s 0 999999; s=$?; typeset -p s"),
    ("clean", "trap 'g%=1' USR1; kill -s USR1 0; typeset -p g%; trap 'h%=1' USR2; (trap '' USR2; kill -s USR2 0; exit 3); s=$?; typeset -p s h%; trap - USR1 USR2"),
    ("clean", "v%=0123456789abcdef; v%=$v%$v%$v%$v%$v%$v%$v%$v%; v%=$v%$v%$v%$v%$v%$v%$v%$v%; v%=$v%$v%; typeset -p v% | alias; s=$?; typeset -p s; x%=after; typeset -p x%"),
    ("clean", "v%=0123456789abcdef; v%=$v%$v%$v%$v%$v%$v%$v%$v%; v%=$v%$v%$v%$v%$v%$v%$v%$v%; v%=$v%$v%; { typeset -p v%; typeset -p v%; typeset -p v%; } | { read -r l; n=${#l}; typeset -p n; }; s=$?; typeset -p s"),
    ("clean", "v%=0123456789abcdef; v%=$v%$v%$v%$v%$v%$v%$v%$v%; v%=$v%$v%$v%$v%$v%$v%$v%$v%; v%=$v%$v%; typeset -p v% | (exit 3); s=$?; typeset -p s; typeset -p v% | { read -r a; } ; typeset -p v% | alias | alias; s=$?; typeset -p s"),
    ("clean", "v%=0123456789abcdef; v%=$v%$v%$v%$v%$v%$v%$v%$v%; v%=$v%$v%$v%$v%$v%$v%$v%$v%; v%=$v%$v%; y%=$(typeset -p v% | alias; s=$?; typeset -p s); typeset -p y%; (typeset -p v% | alias; exit 6); s=$?; typeset -p s"),
    ("clean", "exec 3<<END\nline% one\nsecond\nEND\nread -r a <&3; s=$?; read -r b <&3; exec 3<&-; t=$?; typeset -p a b s t; read -r c <&3; s=$?; typeset -p s"),
    ("clean", "read -r x% 3<<END <&3\nhd% here\nEND\ns=$?; typeset -p x% s"),
    ("clean", "exec 3<f1; exec 4<<END\nfour%\nEND\nread -r a <&4; read -r b <&3; exec 3<&- 4<&-; s=$?; typeset -p a b s"),
    ("clean", "exec 3<<END\nsub%\nkept\nEND\n(read -r c <&3; typeset -p c); y%=$(read -r d <&3; typeset -p d); typeset -p y%; alias >&3; s=$?; typeset -p s; exec 4<&3 3<&-; read -r e <&4; t=$?; typeset -p e t; exec 4<&-"),
    ("clean", "{ read -r a <&3; read -r b; typeset -p a b; } 3<<E3 <<E0\nthree%\nE3\nzero\nE0\nalias 3<<END 4<&3\nx\nEND\ns=$?; typeset -p s; read -r q <&3; s=$?; typeset -p s"),
    // ---- exit statuses through every kind of subshell.  `@E` is a status above 255 when the fragment is used
    // under its tag `exit8` (a real kernel hands the parent N & 255; the simulator N: divergence D18) and a
    // status up to 255 when the same fragment is used as a `clean` one.
    ("exit8", "(exit @E); s=$?; typeset -p s"),
    ("exit8", "x%=$(exit @E); s=$?; typeset -p s x%; y%=$(typeset -p PWD; exit @E); s=$?; typeset -p s y%"),
    ("exit8", "alias | (exit @E); s=$?; typeset -p s; alias | exit @E; s=$?; typeset -p s; (exit @E) | alias; s=$?; typeset -p s"),
    ("exit8", "(exit @E) & wait $!; s=$?; typeset -p s; (exit 3) & (exit @E) & wait $!; s=$?; wait; typeset -p s"),
    ("exit8", "(exit @E) && typeset -p PWD; (exit @E) || typeset -p PWD >or%; ! (exit @E); s=$?; typeset -p s"),
    ("exit8", "f%() { return @E; }; f%; s=$?; typeset -p s; (f%); s=$?; typeset -p s; y%=$(f%); s=$?; typeset -p s"),
    ("exit8", "( (exit @E); exit ); s=$?; typeset -p s; ( (exit @E) ); s=$?; typeset -p s; ( x%=$(exit @E) ); s=$?; typeset -p s"),
    ("exit8", "(trap 'exit @E' EXIT); s=$?; typeset -p s; (trap 'typeset -p PWD' EXIT; exit @E); s=$?; typeset -p s"),
    ("exit8", "(set -e; (exit @E); typeset -p PWD >se%); s=$?; typeset -p s"),
    ("exit8", "if (exit @E); then typeset -p PWD; else typeset -p PWD >el%; fi; while (exit @E); do typeset -p PWD; break; done; until (exit @E); do typeset -p PWD >un%; break; done"),
    ("exit8", "x%=$( (exit @E) | (exit @E) ); s=$?; typeset -p s; (exit @E) | (exit @E) | (exit 1); s=$?; typeset -p s"),
    ("exit8", "typeset -p PWD; exit @E"),
    ("exit8", "trap 'typeset -p PWD' EXIT; (exit @E); exit"),
    // ---- a path that ends in a slash.  Without O_CREAT the name must be a directory (agrees); with O_CREAT
    // Linux answers EISDIR and creates nothing, the simulator creates a regular file (divergence D19)
    ("clean", "alias <d1/; s=$?; typeset -p s; alias <f1/; s=$?; typeset -p s; alias <nofile%/; s=$?; typeset -p s; read -r l <d1/g/; s=$?; typeset -p s"),
    ("clean", "cd d1/; typeset -p PWD; cd dd//; typeset -p PWD; cd ../../; for i in d[12]/ f*/ d1/*/ nomatch*/; do typeset -p i; done"),
    ("clean", "alias >f1/; s=$?; typeset -p s; alias >>d1/; s=$?; typeset -p s; alias >d1/g//; s=$?; typeset -p s; read -r l <f1; typeset -p l"),
    ("slashcreate", "alias >new%/; s=$?; typeset -p s"),
    ("slashcreate", "alias >>d1/n%//; s=$?; typeset -p s; alias <>rw%/; s=$?; typeset -p s; set -C; alias >nc%/; s=$?; typeset -p s; set +C"),
    ("slashcreate", "exec 4>ex%/; s=$?; typeset -p s; x%=v; typeset -p x% >&4; s=$?; typeset -p s; (alias >sub%/); s=$?; typeset -p s"),
    // ---- signals to the pid of a child that has been waited for (ESRCH on a real kernel; the simulator never
    // forgets a process: divergence D20).  Before the `wait` the pid names the child or its zombie: agrees.
    ("clean", "(exit 3) & kill -s 0 $!; s=$?; wait $!; t=$?; typeset -p s t; wait $!; u=$?; typeset -p u"),
    ("reaped", "(exit 3) & wait $!; s=$?; kill -s 0 $!; t=$?; typeset -p s t"),
    ("reaped", "(exit 3) & p%=$!; wait; kill -0 $p%; t=$?; typeset -p t; kill -s USR1 $p%; t=$?; typeset -p t"),
    ("reaped", "x%=$( (exit 2) & wait $!; kill -s 0 $!; s=$?; typeset -p s); typeset -p x%"),
    ("reaped", "trap 'c%=1' CHLD; (exit 3) & wait $!; c%=0; kill -s TERM $!; t=$?; typeset -p t c%; trap - CHLD"),
    // the shapes of O_CREAT-through-a-slash on which only the errno differs (existing regular file, existing
    // directory under noclobber, missing parent): a script sees a failing redirection and no new file on both
    ("slashcreate", "alias >>f1/; s=$?; typeset -p s; set -C; alias >d2/; s=$?; typeset -p s; alias >d1/g/; s=$?; typeset -p s; set +C; alias >nd%/x/; s=$?; typeset -p s; alias >f1/x%/; s=$?; typeset -p s"),
    // ---- command search (is_executable_file; was divergence D21): a directory or a non-executable regular file
    // named like the command in a $PATH entry is not found (127, not 126), nor is the empty command name.
    // Always in a subshell: $PATH stays as it was for the fragments that follow.
    ("cmdsearch", "(PATH=$PWD/d1; dd; s=$?; typeset -p s; g; s=$?; typeset -p s; nosuch%; s=$?; typeset -p s)"),
    ("cmdsearch", "(PATH=$PWD/d1:$PWD/d2; ''; s=$?; typeset -p s; PATH=; ''; s=$?; typeset -p s; PATH=$PWD; ''; s=$?; typeset -p s)"),
    ("cmdsearch", "(PATH=$PWD:$PWD/d1:$PWD/nodir%; d1; s=$?; typeset -p s; f1; s=$?; typeset -p s; dd; s=$?; typeset -p s; x%=$(d2); s=$?; typeset -p s x%)"),
    ("cmdsearch", "(PATH=$PWD/d1; command -v dd; s=$?; typeset -p s; command -v g; s=$?; typeset -p s; command -v ''; s=$?; typeset -p s; command -v alias >cv%; s=$?; typeset -p s)"),
    ("cmdsearch", "(PATH=$PWD/f1:$PWD/d1/g:$PWD/d1/; dd; s=$?; typeset -p s; g; s=$?; typeset -p s; dd | alias; s=$?; typeset -p s; dd & wait $!; s=$?; typeset -p s)"),
];

const SH_EXIT_SMALL: [&str; 10] = ["0", "1", "2", "3", "126", "127", "128", "129", "200", "255"];
const SH_EXIT_BIG: [&str; 16] = [
    "256", "257", "258", "300", "383", "384", "386", "393", "399", "511", "768", "1000", "4660", "65535", "65536", "2147483647",
];

fn gen_script(rng: &mut Rng, allow_known: bool) -> (String, String) {
    let n = 1 + rng.below(4);
    let mut tags: Vec<&str> = vec![];
    let mut parts = vec![];
    let mut known_used = false;
    let mut tries = 0;
    while parts.len() < n && tries < 50 {
        tries += 1;
        let i = rng.below(FRAGMENTS.len());
        let (tag, text) = FRAGMENTS[i];
        // `mkparent`, `dotdot`: the catalogued divergences D1, D4.  At most one per script, and it comes last: what
        // follows a divergence would differ as a consequence and hide anything new.  Every other tag is an
        // emphasis tag (former divergences D18-D21, fixed in /repo): an ordinary fragment.
        let known = tag == "mkparent" || tag == "dotdot" || tag == "symlink";
        if known {
            if !allow_known || known_used || parts.len() + 1 < n {
                continue;
            }
            known_used = true;
        }
        // a fragment that ends the script (`exit N` at top level) can only be the last one
        if text.contains("; exit") && parts.len() + 1 < n {
            continue;
        }
        if tag != "clean" && !tags.contains(&tag) {
            if known {
                tags.insert(0, tag);
            } else {
                tags.push(tag);
            }
        }
        let exit_values: &[&str] = if rng.chance(1, 2) { &SH_EXIT_BIG } else { &SH_EXIT_SMALL };
        let suffix = format!("{}", parts.len());
        let fd = format!("{}", 3 + rng.below(6));
        let um = *rng.pick(&["022", "027", "077", "002", "000", "137", "026"]);
        let word = *rng.pick(&["alpha", "b-c", "x y", "q=r", "tab\there"]);
        let mut text = text.replace('%', &suffix).replace("@F", &fd).replace("@U", um).replace("@W", &format!("'{word}'"));
        while text.contains("@E") {
            text = text.replacen("@E", rng.pick(exit_values), 1);
        }
        parts.push(text);
    }
    // a script with a catalogued divergence carries that tag alone (KNOWN_FINDINGS.txt is keyed on it)
    let tag = match tags.first() {
        None => "clean".to_string(),
        Some(t) if *t == "mkparent" || *t == "dotdot" || *t == "symlink" => t.to_string(),
        Some(_) => tags.join("+"),
    };
    (tag, parts.join("\n"))
}

// ------------------------------------------------------------------------------------------

fn run_case(case: &str) {
    if let Some(rest) = case.strip_prefix("H ") {
        let mut it = rest.split(' ');
        let tag = it.next().unwrap_or("clean");
        let script = it.next().and_then(dec_str).unwrap_or_default();
        run_shell_case(tag, &script);
    } else if case.starts_with("P ") {
        run_proc_case(case);
    } else if case.starts_with("S ") {
        run_seq_case(case);
    } else if case.starts_with("X ") {
        run_x_case(case);
    } else if case.starts_with("L ") {
        run_link_case(case);
    } else {
        // not a case of this harness (e.g. a shrinking attempt that dropped the header): same answer as the
        // Lean driver gives
        emit(case, "?", "-");
    }
}

fn main() {
    // the harness itself, and with it every child it forks, starts from default dispositions and an
    // empty mask whatever the check's parent handed down (background job of a non-interactive shell,
    // nohup, CI runner)
    reset_inherited_signal_state(true);
    normalize_descriptor_limit();
    // SAFETY: umask(2); the scratch trees are created with explicit modes, this is for everything else
    unsafe { libc::umask(0o022) };
    quiet_panics();
    let opts = Opts::from_args();
    build_yash3();
    let (fixed, only) = opts.fixed_cases();
    let mut index = 0usize;
    let (si, sn) = opts.shard;
    let mine = |index: &mut usize| {
        let r = *index % sn == si;
        *index += 1;
        r
    };
    for c in &fixed {
        if only || mine(&mut index) {
            run_case(c);
        }
    }
    if only {
        return;
    }
    let thorough = opts.thorough();
    let thorough_all = thorough;
    // every fragment alone (fixed part of the run)
    for (tag, text) in FRAGMENTS {
        let text = text.replace('%', "0").replace("@F", "7").replace("@U", "027").replace("@W", "'a b'");
        if tag == "exit8" {
            // once per status beyond 8 bits under the tag, once per small status as an ordinary fragment
            for (k, big) in SH_EXIT_BIG.iter().enumerate() {
                if (thorough_all || k % 5 == 3) && mine(&mut index) {
                    run_shell_case(tag, &text.replace("@E", big));
                }
            }
            for (k, small) in SH_EXIT_SMALL.iter().enumerate() {
                if (thorough_all || k % 4 == 1) && mine(&mut index) {
                    run_shell_case(tag, &text.replace("@E", small));
                }
            }
        } else if mine(&mut index) {
            run_shell_case(tag, &text);
        }
    }
    let mut rng = Rng::new(opts.seed ^ 0xC19C_19C1);
    // (quick tier: the real legs spend their time waiting for forked processes, ~30 ms per case on a loaded
    // machine; the counts keep every class at 30+ cases)
    let legs0 = std::env::var("C19_LEGS").unwrap_or_else(|_| "SXPH".to_string());
    let n_seq = if !legs0.contains('S') { 0 } else if thorough { 100_000 } else { 1_000 };
    for i in 0..n_seq {
        let class = if i % 5 < 3 { "clean" } else { CLASSES[1 + (i / 5) % 15] };
        let case = gen_seq(&mut rng, class, thorough);
        if mine(&mut index) {
            run_seq_case(&case);
        }
    }
    // debugging aid (not used by check.py): C19_LEGS=X runs only the generated legs named
    let legs = std::env::var("C19_LEGS").unwrap_or_else(|_| "SXPH".to_string());
    let n_x = if !legs.contains('X') { 0 } else if thorough { 30_000 } else { 300 };
    for i in 0..n_x {
        let class = ["inherit", "zombie", "shared"][i % 3];
        let case = gen_x(&mut rng, class);
        if mine(&mut index) {
            run_x_case(&case);
        }
    }
    let n_link = if !legs.contains('L') && legs != "SXPH" { 0 } else if thorough { 6_000 } else { 90 };
    for i in 0..n_link {
        let kind = ["real", "agree", "kf-symlink-not-followed"][i % 3];
        let case = gen_link(&mut rng, kind);
        if mine(&mut index) {
            run_link_case(&case);
        }
    }
    let n_proc = if !legs.contains('P') { 0 } else if thorough { 60_000 } else { 600 };
    for i in 0..n_proc {
        let class = match i % 10 {
            3 | 8 => "exit8",
            5 => "reaped",
            _ => "sig",
        };
        let case = gen_proc(&mut rng, thorough, class);
        if mine(&mut index) {
            run_proc_case(&case);
        }
    }
    let n_sh = if !legs.contains('H') { 0 } else if thorough { 12_000 } else { 150 };
    for i in 0..n_sh {
        let (tag, script) = gen_script(&mut rng, i % 4 == 3);
        if mine(&mut index) {
            run_shell_case(&tag, &script);
            // a script under the symbolic-link key: everything before the link fragment (which comes last) is run
            // again as an ordinary case, so that a difference that has nothing to do with links is still reported
            if tag == "symlink" {
                if let Some((prefix, _)) = script.rsplit_once('\n') {
                    run_shell_case("clean", prefix);
                }
            }
        }
    }
}
