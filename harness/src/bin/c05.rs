//! C05 — pathname expansion against the real `glob` on directory trees in the virtual file system.
//!
//! Case line (grammar: /verif/lean/YashModel/Glob/Main.lean), five sections separated by ` | `:
//!   `T <tree> W <word hex> A <assignments> G <0|1>`  primary part: everything the harness needs to run
//!        the case (replay reads only this section).  `<tree>` = comma-separated entries relative to the
//!        tree root `/t` (= working directory): `f<path hex>`, `d<path hex>:<mode octal>`,
//!        `l<path hex>:<target hex>`; `<assignments>` = `name=<hex>` for v1, v2, HOME; `G 0` = `set -f`.
//!   `F …` the attributed field, obtained from the real `expand_word_attr` on a clone of the environment
//!   `E …` / `L …` dump of the two system oracles (`fstatat` follow / `opendir`+read) for every
//!        pathname the expansion can possibly ask about (breadth-first over component texts and
//!        listed names)
//!   `M …` what the real `yash_fnmatch` says about every component pattern: unparsable / literal /
//!        pattern + which candidate names it matches
//! The last four sections are recomputed from the real code on every run.
//!
//! Observation: the fields `probe <word>` receives in a whole shell on the virtual system.
//!
//! Oracle (independent of the Lean model), the statement of the property on the real code:
//!   * the shell's fields equal the fields of a direct call of `glob` on the same field;
//!   * `set -f`: exactly the quote-removed field;
//!   * every returned pathname splits into one name per component; a non-pattern component
//!     contributes exactly its text; a pattern component's name is not `.`/`..`, matches the real
//!     `yash_fnmatch` pattern and is an entry of its parent in the inode tree (walked by hand,
//!     permissions ignored); the whole pathname exists in the inode tree (never a nonexistent path);
//!   * no accessible match is omitted: a brute-force walk over the tree (listing through `opendir`,
//!     matching with `yash_fnmatch`, final `fstatat`) finds nothing that is missing from the result;
//!   * the result is strictly increasing bytewise;
//!   * the fallback (quote-removed field) appears only when the brute-force walk finds nothing;
//!   * a component whose pattern characters are all literal is classified literal with its own text.

use futures_util::FutureExt as _;
use std::cell::RefCell;
use std::collections::{BTreeMap, BTreeSet, HashMap};
use std::ffi::CString;
use std::rc::Rc;
use yash_env::option::{Option as ShellOption, State};
use yash_env::path::{Component, Path, PathBuf};
use yash_env::semantics::expansion::attr::{AttrChar, AttrField, Origin};
use yash_env::semantics::expansion::split::{Ifs, split_into};
use yash_env::source::Location;
use yash_env::system::resource::{INFINITY, LimitPair, Resource};
use yash_env::system::Chdir as _;
use yash_env::system::resource::SetRlimit as _;
use yash_env::variable::IFS;
use yash_semantics::expansion::expand_word;
use yash_semantics::expansion::initial::{Env as InitialEnv, Expand as _};
use yash_env::str::UnixStr;
use yash_env::system::r#virtual::{FileBody, Inode, SystemState};
use yash_env::system::{AT_FDCWD, Dir as _, Fstat as _, Mode, Open as _};
use yash_env::variable::Scope;
use yash_fnmatch::{Config as FnConfig, Pattern, PatternChar};
use yash_semantics::expansion::expand_word_attr;
use yash_semantics::expansion::glob::glob;
use yash_syntax::syntax as sx;
use yverif::proto::{Opts, dec_str, emit, enc_str, guarded, quiet_panics};
use yverif::rng::Rng;
use yverif::shell::{Config, VEnv, run_with};

// ------------------------------------------------------------------------------------------
// trees

#[derive(Clone, Debug)]
enum Entry {
    File(String),
    Dir(String, u32),
    Link(String, String),
}

fn show_tree(t: &[Entry]) -> String {
    if t.is_empty() {
        return "-".into();
    }
    t.iter()
        .map(|e| match e {
            Entry::File(p) => format!("f{}", enc_str(p)),
            Entry::Dir(p, m) => format!("d{}:{:03o}", enc_str(p), m),
            Entry::Link(p, x) => format!("l{}:{}", enc_str(p), enc_str(x)),
        })
        .collect::<Vec<_>>()
        .join(",")
}

fn parse_tree(t: &str) -> Option<Vec<Entry>> {
    if t == "-" {
        return Some(vec![]);
    }
    t.split(',')
        .map(|e| {
            let (k, rest) = e.split_at(1);
            Some(match k {
                "f" => Entry::File(dec_str(rest)?),
                "d" => {
                    let (p, m) = rest.split_once(':')?;
                    Entry::Dir(dec_str(p)?, u32::from_str_radix(m, 8).ok()?)
                }
                "l" => {
                    let (p, x) = rest.split_once(':')?;
                    Entry::Link(dec_str(p)?, dec_str(x)?)
                }
                _ => return None,
            })
        })
        .collect()
}

fn new_dir(mode: u32) -> Rc<RefCell<Inode>> {
    Rc::new(RefCell::new(Inode {
        body: FileBody::Directory { files: HashMap::new() },
        permissions: Mode::from_bits_retain(mode as _),
    }))
}

/// Builds the tree under `/t` by inserting inodes directly (permissions play no role here).
fn build_tree(state: &RefCell<SystemState>, tree: &[Entry]) -> Result<(), String> {
    let root = new_dir(0o755);
    for e in tree {
        let (path, inode) = match e {
            Entry::File(p) => {
                // the mode of a file plays no role for matching: vary it with the name
                let mut inode = Inode::new(b"x".to_vec());
                inode.permissions = Mode::from_bits_retain([0o644, 0o000, 0o400, 0o755, 0o200, 0o111][p.len() % 6] as _);
                (p, Rc::new(RefCell::new(inode)))
            }
            Entry::Dir(p, m) => (p, new_dir(*m)),
            Entry::Link(p, x) => (
                p,
                Rc::new(RefCell::new(Inode {
                    body: FileBody::Symlink { target: PathBuf::from(x.as_str()) },
                    permissions: Mode::from_bits_retain(0o777),
                })),
            ),
        };
        let mut node = Rc::clone(&root);
        let parts: Vec<&str> = path.split('/').collect();
        for (i, name) in parts.iter().enumerate() {
            if name.is_empty() {
                return Err("empty-name".into());
            }
            let last = i + 1 == parts.len();
            let next = {
                let mut b = node.borrow_mut();
                let FileBody::Directory { files } = &mut b.body else {
                    return Err("parent-not-dir".into());
                };
                let key: Rc<UnixStr> = Rc::from(UnixStr::new(*name));
                if last {
                    if files.contains_key(&key) {
                        return Err("duplicate".into());
                    }
                    files.insert(key, Rc::clone(&inode));
                    None
                } else {
                    Some(Rc::clone(files.get(&key).ok_or("missing-parent")?))
                }
            };
            if let Some(n) = next {
                node = n;
            }
        }
    }
    state.borrow_mut().file_system.save("/t", root).map_err(|e| format!("save:{e:?}"))?;
    Ok(())
}

/// Existence in the inode tree, walked by hand: permissions ignored, symbolic links followed in
/// intermediate positions, not in the final one (an entry that is there exists).
fn tree_lexists(state: &RefCell<SystemState>, cwd: &str, path: &str, depth: usize) -> bool {
    if depth > 8 {
        return false;
    }
    let full = if path.starts_with('/') { path.to_string() } else { format!("{cwd}/{path}") };
    let root = Rc::clone(&state.borrow().file_system.root);
    let mut stack: Vec<(Rc<RefCell<Inode>>, String)> = vec![(root, String::new())];
    let parts: Vec<&str> = full.split('/').collect();
    let n = parts.len();
    let trailing = full.ends_with('/');
    let real: Vec<(usize, &str)> = parts.iter().copied().enumerate().filter(|(_, p)| !p.is_empty()).collect();
    for (k, (_, name)) in real.iter().enumerate() {
        let last = k + 1 == real.len() && !trailing;
        let (cur, cur_path) = stack.last().cloned().unwrap();
        // `.` and `..` are resolved the way the virtual file system resolves them: on the path text,
        // without asking whether the node before them is a directory (see notes/C05.md)
        if *name == "." {
            continue;
        }
        if *name == ".." {
            if stack.len() > 1 {
                stack.pop();
            }
            continue;
        }
        // the current node must be a directory (follow a link to find out)
        let cur = match resolve_dir(state, &cur, &cur_path, depth) {
            Some(c) => c,
            None => return false,
        };
        let child = {
            let b = cur.borrow();
            let FileBody::Directory { files } = &b.body else { return false };
            match files.get(UnixStr::new(*name)) {
                Some(c) => Rc::clone(c),
                None => return false,
            }
        };
        let child_path = format!("{cur_path}/{name}");
        if last {
            return true;
        }
        stack.push((child, child_path));
    }
    let _ = n;
    // trailing slash: the final node must be (a link to) a directory; trailing `.`/`..`: it is there
    let (cur, cur_path) = stack.last().cloned().unwrap();
    !trailing || resolve_dir(state, &cur, &cur_path, depth).is_some()
}

/// `node` (located at `path`) as a directory, following symbolic links
fn resolve_dir(state: &RefCell<SystemState>, node: &Rc<RefCell<Inode>>, path: &str, depth: usize) -> Option<Rc<RefCell<Inode>>> {
    let target = {
        let b = node.borrow();
        match &b.body {
            FileBody::Directory { .. } => return Some(Rc::clone(node)),
            FileBody::Symlink { target } => target.to_string_lossy().into_owned(),
            _ => return None,
        }
    };
    if depth > 8 {
        return None;
    }
    let parent = path.rsplit_once('/').map(|x| x.0).unwrap_or("");
    let full = if target.starts_with('/') { target } else { format!("{parent}/{target}") };
    // walk `full` from the root, following links everywhere
    let root = Rc::clone(&state.borrow().file_system.root);
    let mut stack: Vec<(Rc<RefCell<Inode>>, String)> = vec![(root, String::new())];
    for name in full.split('/').filter(|p| !p.is_empty()) {
        let (cur, cur_path) = stack.last().cloned().unwrap();
        let cur = resolve_dir(state, &cur, &cur_path, depth + 1)?;
        if name == "." {
            continue;
        }
        if name == ".." {
            if stack.len() > 1 {
                stack.pop();
            }
            continue;
        }
        let child = {
            let b = cur.borrow();
            let FileBody::Directory { files } = &b.body else { return None };
            Rc::clone(files.get(UnixStr::new(name))?)
        };
        stack.push((child, format!("{cur_path}/{name}")));
    }
    let (cur, cur_path) = stack.last().cloned().unwrap();
    resolve_dir(state, &cur, &cur_path, depth + 1)
}

// ------------------------------------------------------------------------------------------
// system oracles

// ------------------------------------------------------------------------------------------
// the same two oracles derived by hand from the inode tree and the mode bits
//
// The virtual system's rules, for the owning user (every virtual process owns every inode): looking a
// name up in a directory needs the owner's search bit (0o100) of that directory and nothing else; `.`
// and `..` need a directory; a trailing `/` or `/.` needs a directory; `opendir` needs a directory (no
// read permission is asked for) and a free descriptor; `fstatat` follows a final symbolic link up to
// 8 times, relative to the link's directory.  What the *system* answers is compared with this on
// every query (`FAIL:system-differs-from-mode-bits`), and the dump that goes to the model is this one,
// so a wrong bit test in the look-up shows as impl ≠ model as well.

fn hand_get(state: &RefCell<SystemState>, path: &Path) -> Option<Rc<RefCell<Inode>>> {
    let root = Rc::clone(&state.borrow().file_system.root);
    let mut nodes = vec![root];
    for component in path.components() {
        let name = match component {
            Component::Normal(name) => name,
            Component::RootDir => continue,
            Component::CurDir | Component::ParentDir => {
                if !matches!(nodes.last().unwrap().borrow().body, FileBody::Directory { .. }) {
                    return None;
                }
                if component == Component::ParentDir && nodes.len() > 1 {
                    nodes.pop();
                }
                continue;
            }
        };
        let child = {
            let node = nodes.last().unwrap().borrow();
            let FileBody::Directory { files } = &node.body else { return None };
            // owner's search permission, whatever group and others may do
            if node.permissions.bits() as u32 & 0o100 == 0 {
                return None;
            }
            Rc::clone(files.get(name)?)
        };
        nodes.push(child);
    }
    let node = nodes.pop().unwrap();
    let bytes = path.as_unix_str().as_bytes();
    if (bytes.ends_with(b"/") || bytes.ends_with(b"/.")) && !matches!(node.borrow().body, FileBody::Directory { .. }) {
        return None;
    }
    Some(node)
}

fn hand_abs(path: &str) -> PathBuf {
    let p = Path::new(UnixStr::new(path));
    if p.is_absolute() { p.to_path_buf() } else { Path::new(UnixStr::new("/t")).join(p) }
}

fn hand_exists(state: &RefCell<SystemState>, path: &str) -> bool {
    if path.contains('\0') {
        return false;
    }
    let mut full = hand_abs(path);
    for _ in 0..8 {
        let Some(node) = hand_get(state, &full) else { return false };
        let target = match &node.borrow().body {
            FileBody::Symlink { target } => target.clone(),
            _ => return true,
        };
        full.pop();
        full.push(&target);
    }
    false
}

fn hand_list(state: &RefCell<SystemState>, dir: &str, fd_limit: bool) -> Option<Vec<String>> {
    if dir.contains('\0') || fd_limit {
        return None;
    }
    let node = hand_get(state, &hand_abs(dir))?;
    let node = node.borrow();
    let FileBody::Directory { files } = &node.body else { return None };
    let mut names: Vec<String> = vec![".".into(), "..".into()];
    names.extend(files.keys().filter_map(|k| k.to_str().map(|s| s.to_string())));
    names.sort();
    Some(names)
}

/// both oracles, with the comparison
fn exists(env: &VEnv, state: &RefCell<SystemState>, d: &mut Direct, path: &str) -> bool {
    let h = hand_exists(state, path);
    if sys_exists(env, path) != h && d.verdicts.len() < 4 {
        d.verdicts.push(format!("system-differs-from-mode-bits:fstatat:{}", enc_str(path)));
    }
    h
}

fn list(env: &VEnv, state: &RefCell<SystemState>, d: &mut Direct, dir: &str, fd_limit: bool) -> Option<Vec<String>> {
    let h = hand_list(state, dir, fd_limit);
    if sys_list(env, state, dir) != h && d.verdicts.len() < 4 {
        d.verdicts.push(format!("system-differs-from-mode-bits:opendir:{}", enc_str(dir)));
    }
    h
}

fn sys_exists(env: &VEnv, path: &str) -> bool {
    let Ok(c) = CString::new(path) else { return false };
    env.system.fstatat(AT_FDCWD, &c, true).is_ok()
}

fn sys_list(env: &VEnv, state: &RefCell<SystemState>, dir: &str) -> Option<Vec<String>> {
    let c = CString::new(dir).ok()?;
    let before: BTreeSet<i32> = fds(env, state);
    let r = match env.system.opendir(&c) {
        Ok(mut d) => {
            let mut names = vec![];
            while let Ok(Some(entry)) = d.next() {
                if let Some(n) = entry.name.to_str() {
                    names.push(n.to_string());
                }
            }
            names.sort();
            Some(names)
        }
        Err(_) => None,
    };
    // the virtual `opendir` never closes its descriptor: tidy up after our own calls
    let after = fds(env, state);
    let mut st = state.borrow_mut();
    if let Some(p) = st.processes.get_mut(&env.main_pid) {
        for fd in after.difference(&before) {
            p.close_fd(yash_env::io::Fd(*fd));
        }
    }
    r
}

fn fds(env: &VEnv, state: &RefCell<SystemState>) -> BTreeSet<i32> {
    state.borrow().processes.get(&env.main_pid).map(|p| p.fds().keys().map(|f| f.0).collect()).unwrap_or_default()
}

/// "The pathname exists": `lstat` succeeds in the system, or the hand walk of the inode tree finds it
/// (the latter also sees through directories without search permission).
fn exists_somehow(env: &VEnv, state: &RefCell<SystemState>, path: &str) -> bool {
    let sys = CString::new(path).map(|c| env.system.fstatat(AT_FDCWD, &c, false).is_ok()).unwrap_or(false);
    sys || tree_lexists(state, "/t", path, 0)
}

// ------------------------------------------------------------------------------------------
// field, components, patterns

fn show_field(cs: &[AttrChar]) -> String {
    if cs.is_empty() {
        return "-".into();
    }
    cs.iter()
        .map(|c| {
            let o = match c.origin {
                Origin::Literal => 'L',
                Origin::HardExpansion => 'H',
                Origin::SoftExpansion => 'S',
            };
            format!("{:x}:{}{}{}", c.value as u32, o, c.is_quoted as u8, c.is_quoting as u8)
        })
        .collect::<Vec<_>>()
        .join(",")
}

fn split_components(cs: &[AttrChar]) -> Vec<Vec<AttrChar>> {
    cs.split(|c| c.value == '/').map(|s| s.to_vec()).collect()
}

fn quote_removed(cs: &[AttrChar]) -> String {
    cs.iter().filter(|c| !c.is_quoting).map(|c| c.value).collect()
}

/// the pattern characters `to_pattern` (private in glob.rs) hands to `yash_fnmatch`
fn to_pattern_chars(cs: &[AttrChar]) -> Vec<PatternChar> {
    let mut out = vec![];
    let mut next_quoted = false;
    for c in cs {
        let quoted = std::mem::replace(&mut next_quoted, false);
        if c.is_quoting {
            continue;
        } else if quoted || c.is_quoted || c.origin == Origin::HardExpansion {
            out.push(PatternChar::Literal(c.value));
        } else {
            next_quoted = c.value == '\\';
            out.push(PatternChar::Normal(c.value));
        }
    }
    out
}

fn show_pcs(p: &[PatternChar]) -> String {
    if p.is_empty() {
        return "-".into();
    }
    p.iter()
        .map(|c| match c {
            PatternChar::Normal(c) => format!("n{:x}", *c as u32),
            PatternChar::Literal(c) => format!("l{:x}", *c as u32),
        })
        .collect::<Vec<_>>()
        .join(".")
}

enum Kind {
    Invalid,
    Literal(String),
    Pattern(Pattern),
}

fn classify(pcs: &[PatternChar]) -> Kind {
    let mut config = FnConfig::default();
    config.anchor_begin = true;
    config.anchor_end = true;
    config.literal_period = true;
    match Pattern::parse_with_config(pcs.iter().copied(), config) {
        Err(_) => Kind::Invalid,
        Ok(p) => match p.into_literal() {
            Ok(s) => Kind::Literal(s),
            Err(p) => Kind::Pattern(p),
        },
    }
}

/// Independent reference for component patterns without an unquoted `[` (no yash_fnmatch involved): an
/// unquoted `*` is any string, an unquoted `?` any one character, every other pattern character — quoted
/// or not, whatever precedes it — stands for itself; a name that starts with a period needs a period as
/// the first pattern character.  `None` = the pattern has an unquoted `[` (left to the Lean model).
fn reference_match(pcs: &[PatternChar], name: &str) -> Option<bool> {
    if pcs.iter().any(|c| *c == PatternChar::Normal('[')) {
        return None;
    }
    fn go(p: &[PatternChar], s: &[char]) -> bool {
        match p.first() {
            None => s.is_empty(),
            Some(PatternChar::Normal('*')) => (0..=s.len()).any(|k| go(&p[1..], &s[k..])),
            Some(PatternChar::Normal('?')) => !s.is_empty() && go(&p[1..], &s[1..]),
            Some(c) => !s.is_empty() && s[0] == c.char_value() && go(&p[1..], &s[1..]),
        }
    }
    let n: Vec<char> = name.chars().collect();
    if n.first() == Some(&'.') && pcs.first().map(|c| c.char_value()) != Some('.') {
        return Some(false);
    }
    Some(go(pcs, &n))
}

/// … and the classification such a pattern must get: a literal (its characters) iff it has no unquoted
/// `*` or `?`; never unparsable.
fn reference_kind_ok(pcs: &[PatternChar], kind: &Kind) -> Option<bool> {
    if pcs.iter().any(|c| *c == PatternChar::Normal('[')) {
        return None;
    }
    let wild = pcs.iter().any(|c| matches!(c, PatternChar::Normal('*') | PatternChar::Normal('?')));
    let text: String = pcs.iter().map(|c| c.char_value()).collect();
    Some(match kind {
        Kind::Invalid => false,
        Kind::Literal(s) => !wild && *s == text,
        Kind::Pattern(_) => wild,
    })
}

// ------------------------------------------------------------------------------------------
// one case

/// where the words stand (which part of expansion.rs delivers them to, or keeps them from, `glob`)
#[derive(Clone, Copy, Debug, PartialEq)]
enum Ctx {
    /// `probe w1 w2 …` — command words (`expand_word_with_mode`, Multiple)
    Cmd,
    /// `for x in w1 w2 …; do probe "$x"; done` — `expand_words`
    For,
    /// `arr=(w1 w2 …); probe "$arr"` — `expand_value`, array
    Arr,
    /// `val=w; probe "$val"` — `expand_value`, scalar: no splitting, no globbing
    Scalar,
    /// `export val=w; probe "$val"` — `expand_word_with_mode`, Single: no splitting, no globbing
    Decl,
    /// no shell: `glob` is called on explicitly given attributed fields
    Direct,
    /// `f() { set -e; probe w1 w2 …; }; f` — command words expanded inside a function call, errexit on
    /// (wave 3: a mode nobody generated; same `expand_words` path, other environment state)
    Func,
}

impl Ctx {
    fn name(self) -> &'static str {
        match self {
            Ctx::Cmd => "cmd",
            Ctx::For => "for",
            Ctx::Arr => "arr",
            Ctx::Scalar => "scalar",
            Ctx::Decl => "decl",
            Ctx::Direct => "direct",
            Ctx::Func => "fn",
        }
    }
    fn parse(s: &str) -> Option<Ctx> {
        [Ctx::Cmd, Ctx::For, Ctx::Arr, Ctx::Scalar, Ctx::Decl, Ctx::Direct, Ctx::Func].into_iter().find(|c| c.name() == s)
    }
    fn single(self) -> bool {
        matches!(self, Ctx::Scalar | Ctx::Decl)
    }
}

#[derive(Clone, Debug)]
struct Prim {
    tree: Vec<Entry>,
    /// shell words (for `Direct`: unused)
    words: Vec<String>,
    /// `Direct`: the fields, in the encoding of the `F` section
    fields: Option<String>,
    assigns: Vec<(String, String)>,
    /// `R 1`: the soft limit of open files is set to the lowest unused descriptor, so that every
    /// `opendir` fails with EMFILE (errors are silently ignored: nothing can be listed)
    fd_limit: bool,
    glob_on: bool,
    ctx: Ctx,
}

fn show_prim(p: &Prim) -> String {
    let a = if p.assigns.is_empty() {
        "-".to_string()
    } else {
        p.assigns.iter().map(|(n, v)| format!("{n}={}", enc_str(v))).collect::<Vec<_>>().join(",")
    };
    let w = match &p.fields {
        Some(f) => format!("D {f}"),
        None => format!("W {}", p.words.iter().map(|w| enc_str(w)).collect::<Vec<_>>().join(",")),
    };
    let r = if p.fd_limit { " R 1" } else { "" };
    format!("T {} {} A {}{} G {} C {}", show_tree(&p.tree), w, a, r, p.glob_on as u8, p.ctx.name())
}

fn parse_prim(case: &str) -> Option<Prim> {
    let first = case.split('|').next()?;
    let w: Vec<&str> = first.split_whitespace().collect();
    let key = |k: &str| w.iter().position(|x| *x == k).and_then(|i| w.get(i + 1)).copied();
    // the key letters are single upper-case letters, the values never are
    let a = key("A")?;
    let assigns = if a == "-" {
        vec![]
    } else {
        a.split(',')
            .map(|x| {
                let (n, v) = x.split_once('=')?;
                Some((n.to_string(), dec_str(v)?))
            })
            .collect::<Option<Vec<_>>>()?
    };
    let fields = key("D").map(|s| s.to_string());
    let words = match key("W") {
        Some(ws) => ws.split(',').map(dec_str).collect::<Option<Vec<_>>>()?,
        None => vec![],
    };
    let ctx = match key("C") {
        Some(c) => Ctx::parse(c)?,
        None => {
            if fields.is_some() { Ctx::Direct } else { Ctx::Cmd }
        }
    };
    if (ctx == Ctx::Direct) != fields.is_some() || (ctx != Ctx::Direct && words.is_empty()) {
        return None;
    }
    if ctx.single() && words.len() != 1 {
        return None;
    }
    Some(Prim { tree: parse_tree(key("T")?)?, words, fields, assigns, fd_limit: key("R") == Some("1"), glob_on: key("G")? == "1", ctx })
}

fn parse_fields(t: &str) -> Option<Vec<Vec<AttrChar>>> {
    if t == "/" {
        return Some(vec![]);
    }
    t.split(';')
        .map(|f| {
            if f == "-" {
                return Some(vec![]);
            }
            f.split(',')
                .map(|c| {
                    let (cp, fl) = c.split_once(':')?;
                    let fl: Vec<char> = fl.chars().collect();
                    if fl.len() != 3 {
                        return None;
                    }
                    Some(AttrChar {
                        value: char::from_u32(u32::from_str_radix(cp, 16).ok()?)?,
                        origin: match fl[0] {
                            'L' => Origin::Literal,
                            'H' => Origin::HardExpansion,
                            'S' => Origin::SoftExpansion,
                            _ => return None,
                        },
                        is_quoted: fl[1] == '1',
                        is_quoting: fl[2] == '1',
                    })
                })
                .collect()
        })
        .collect()
}

fn show_fields(fs: &[Vec<AttrChar>]) -> String {
    if fs.is_empty() {
        return "/".into();
    }
    fs.iter().map(|f| show_field(f)).collect::<Vec<_>>().join(";")
}

#[derive(Default)]
struct Direct {
    error: Option<String>,
    fields: Vec<Vec<AttrChar>>,
    direct: Vec<String>,
    exist: BTreeSet<String>,
    list: BTreeMap<String, Vec<String>>,
    table: BTreeMap<String, String>,
    verdicts: Vec<String>,
    /// what the root directory holds besides `t` (for the Lean world model)
    root_extra: Vec<Entry>,
}

/// the inode tree below `/`, except `/t`, as entries
fn root_extra(state: &RefCell<SystemState>) -> Vec<Entry> {
    fn walk(node: &Rc<RefCell<Inode>>, prefix: &str, out: &mut Vec<Entry>, top: bool) {
        let node = node.borrow();
        let FileBody::Directory { files } = &node.body else { return };
        let mut names: Vec<_> = files.iter().filter_map(|(k, v)| k.to_str().map(|s| (s.to_string(), Rc::clone(v)))).collect();
        names.sort_by(|a, b| a.0.cmp(&b.0));
        for (n, child) in names {
            if top && n == "t" {
                continue;
            }
            let path = format!("{prefix}{n}");
            let kind = match &child.borrow().body {
                FileBody::Directory { .. } => Entry::Dir(path.clone(), child.borrow().permissions.bits() as u32),
                FileBody::Symlink { target } => Entry::Link(path.clone(), target.to_string_lossy().into_owned()),
                _ => Entry::File(path.clone()),
            };
            out.push(kind);
            walk(&child, &format!("{path}/"), out, false);
        }
    }
    let root = Rc::clone(&state.borrow().file_system.root);
    let mut out = vec![];
    walk(&root, "", &mut out, true);
    out
}

/// the variable the scalar / declaration contexts assign to
const VAL: &str = "val";

/// the command that holds the words, as the script has it
fn command_text(prim: &Prim) -> String {
    let ws = prim.words.join(" ");
    match prim.ctx {
        Ctx::Cmd | Ctx::Direct => format!("probe {ws}"),
        Ctx::Func => format!("f() {{ set -e; probe {ws}; }}; f"),
        Ctx::For => format!("for x in {ws}; do probe \"$x\"; done"),
        Ctx::Arr => format!("arr=({ws}); probe \"$arr\""),
        Ctx::Scalar => format!("{VAL}={ws}; probe \"${VAL}\""),
        Ctx::Decl => format!("export {VAL}={ws}; probe \"${VAL}\""),
    }
}

/// The words of the case as the real parser delivers them in that context (so that tilde
/// recognition, assignment-word parsing and the expansion mode are the parser's, not ours).
fn parse_words(prim: &Prim) -> Result<Vec<(sx::Word, sx::ExpansionMode)>, String> {
    let ws = prim.words.join(" ");
    let n = prim.words.len();
    let src = match prim.ctx {
        Ctx::Cmd | Ctx::For | Ctx::Direct | Ctx::Func => format!("probe {ws}"),
        Ctx::Arr => format!("arr=({ws})"),
        Ctx::Scalar => format!("{VAL}={ws}"),
        Ctx::Decl => format!("export {VAL}={ws}"),
    };
    let cmd: sx::SimpleCommand = src.parse().map_err(|_| "syntax-error".to_string())?;
    if !cmd.redirs.is_empty() {
        return Err("redirs".into());
    }
    match prim.ctx {
        Ctx::Cmd | Ctx::For | Ctx::Direct | Ctx::Func => {
            if cmd.words.len() != n + 1 || !cmd.assigns.is_empty() {
                return Err(format!("words={}", cmd.words.len()));
            }
            if cmd.words.iter().any(|(_, m)| *m != sx::ExpansionMode::Multiple) {
                return Err("mode".into());
            }
            Ok(cmd.words[1..].to_vec())
        }
        Ctx::Arr => match cmd.assigns.as_slice() {
            [a] if cmd.words.is_empty() => match &a.value {
                sx::Value::Array(ws) if ws.len() == n => Ok(ws.iter().map(|w| (w.clone(), sx::ExpansionMode::Multiple)).collect()),
                _ => Err("not-an-array".into()),
            },
            _ => Err("assigns".into()),
        },
        Ctx::Scalar => match cmd.assigns.as_slice() {
            [a] if cmd.words.is_empty() => match &a.value {
                sx::Value::Scalar(w) => Ok(vec![(w.clone(), sx::ExpansionMode::Single)]),
                _ => Err("not-a-scalar".into()),
            },
            _ => Err("assigns".into()),
        },
        Ctx::Decl => {
            if cmd.words.len() != 2 || !cmd.assigns.is_empty() {
                return Err(format!("words={}", cmd.words.len()));
            }
            if cmd.words[1].1 != sx::ExpansionMode::Single {
                return Err("mode-not-single".into());
            }
            Ok(vec![cmd.words[1].clone()])
        }
    }
}

fn sq(s: &str) -> String {
    format!("'{}'", s.replace('\'', "'\\''"))
}

/// Session 4 (coverage triage): words may hold command substitutions `$(echo 'TEXT')`.  The shell runs them
/// for real (fork in the virtual system, `expand_words` collecting the exit status); the synchronous direct
/// leg cannot, so it expands the equivalent parameter expansion `${cK}` with cK=TEXT instead — both deliver
/// TEXT as soft-expansion characters (quoted or not as the context says).  If the real pipeline delivers
/// anything else, the oracle says `shell-differs-from-direct`.
fn desubst(prim: &Prim) -> Prim {
    let mut p = prim.clone();
    let mut k = 0;
    for w in &mut p.words {
        while let Some(i) = w.find("$(echo '") {
            let rest = &w[i + 8..];
            let Some(j) = rest.find("')") else { break };
            let text = rest[..j].to_string();
            k += 1;
            let name = format!("c{k}");
            *w = format!("{}${{{name}}}{}", &w[..i], &rest[j + 2..]);
            p.assigns.push((name, text));
        }
    }
    p
}

/// Everything that is computed inside the shell's environment before the script runs.
fn prepare(env: &mut VEnv, state: &Rc<RefCell<SystemState>>, prim: &Prim, d: &mut Direct) {
    let prim_direct = desubst(prim);
    if let Err(e) = build_tree(state, &prim.tree) {
        d.error = Some(format!("bad-tree:{e}"));
        return;
    }
    d.root_extra = root_extra(state);
    if env.system.chdir(c"/t").is_err() {
        d.error = Some("chdir".into());
        return;
    }
    if prim.fd_limit {
        let lowest = (0..).find(|fd| !fds(env, state).contains(fd)).unwrap();
        let limits = LimitPair { soft: lowest as _, hard: INFINITY };
        if env.system.setrlimit(Resource::NOFILE, limits).is_err() {
            d.error = Some("setrlimit".into());
            return;
        }
    }
    // direct expansion and direct glob on a clone of the environment (same virtual system)
    let mut env2 = env.clone();
    for (n, v) in &prim.assigns {
        if let Some(user) = n.strip_prefix('~') {
            // `~user=<dir>`: the home directory of a user, not a variable
            state.borrow_mut().home_dirs.insert(user.to_string(), PathBuf::from(v.as_str()));
        }
    }
    for (n, v) in prim_direct.assigns.iter().filter(|(n, _)| !n.starts_with('~')) {
        let _ = env2.variables.get_or_new(n.clone(), Scope::Global).assign(v.clone(), None);
    }
    env2.options.set(ShellOption::Glob, if prim.glob_on { State::On } else { State::Off });
    let mut per_field: Vec<Vec<String>> = vec![];
    if let Some(f) = &prim.fields {
        match parse_fields(f) {
            Some(fs) => d.fields = fs,
            None => {
                d.error = Some("bad-fields".into());
                return;
            }
        }
    } else {
        let words = match parse_words(&prim_direct) {
            Ok(w) => w,
            Err(e) => {
                d.error = Some(format!("bad-word:{e}"));
                return;
            }
        };
        for (word, mode) in &words {
            match mode {
                sx::ExpansionMode::Single => {
                    // the joined field that `expand_word` removes the quotes from
                    match expand_word_attr(&mut env2, word).now_or_never() {
                        Some(Ok((f, _))) => d.fields.push(f.chars),
                        _ => {
                            d.error = Some("expansion-error".into());
                            return;
                        }
                    }
                    match expand_word(&mut env2, word).now_or_never() {
                        Some(Ok((f, _))) => per_field.push(vec![f.value]),
                        _ => {
                            d.error = Some("expansion-error".into());
                            return;
                        }
                    }
                }
                sx::ExpansionMode::Multiple => {
                    // `expand_word_multiple` up to the pathname expansion step
                    let phrase = {
                        let mut ienv = InitialEnv::new(&mut env2);
                        match word.expand(&mut ienv).now_or_never() {
                            Some(Ok(p)) => p,
                            _ => {
                                d.error = Some("expansion-error".into());
                                return;
                            }
                        }
                    };
                    let ifs_text = env2.variables.get_scalar(IFS).map(|s| s.to_string());
                    let ifs = ifs_text.as_deref().map(Ifs::new).unwrap_or_default();
                    for chars in phrase {
                        let mut out = vec![];
                        split_into(AttrField { chars, origin: word.location.clone() }, &ifs, &mut out);
                        d.fields.extend(out.into_iter().map(|f| f.chars));
                    }
                }
            }
        }
    }
    let single = prim.ctx.single();
    if !single {
        for f in &d.fields {
            let af = AttrField { chars: f.clone(), origin: Location::dummy("c05") };
            per_field.push(glob(&mut env2, af).map(|r| r.map(|f| f.value).unwrap_or_else(|_| "INTERRUPTED".into())).collect());
        }
    }
    d.direct = per_field.iter().flatten().cloned().collect();

    let mut names_all: BTreeSet<String> = BTreeSet::new();
    names_all.insert(".".into());
    names_all.insert("..".into());
    for e in &prim.tree {
        let p = match e {
            Entry::File(p) | Entry::Dir(p, _) | Entry::Link(p, _) => p,
        };
        if let Some(n) = p.rsplit('/').next() {
            names_all.insert(n.to_string());
        }
    }
    let mut listing_cache: BTreeMap<String, Option<Vec<String>>> = BTreeMap::new();
    let fields = d.fields.clone();
    if single {
        // Single mode: the property says the field is not globbed at all
        for (f, res) in fields.iter().zip(&per_field) {
            if *res != vec![quote_removed(f)] {
                d.verdicts.push("single-mode-not-verbatim".into());
            }
        }
        return;
    }
    let mut pending = vec![];
    for (f, res) in fields.iter().zip(&per_field) {
        match field_work(env, state, prim, d, f, res, &names_all, &mut listing_cache) {
            Some(p) => pending.push(p),
            None => return,
        }
    }
    // match table: candidates are all names of all dumped listings
    let mut names = names_all.clone();
    for ns in d.list.values() {
        names.extend(ns.iter().cloned());
    }
    for (pcs, kinds) in &pending {
        for (p, kd) in pcs.iter().zip(kinds) {
            let key = show_pcs(p);
            if reference_kind_ok(p, kd) == Some(false) {
                d.verdicts.push(format!("reference-classification-differs:{key}"));
            }
            let val = match kd {
                Kind::Invalid => "N".to_string(),
                Kind::Literal(s) => format!("L{}", enc_str(s)),
                Kind::Pattern(pat) => {
                    // the leading-period rule on the real crate: a name starting with a period is only
                    // matched by a pattern that starts with a period character (quoted or not)
                    if p.first().map(|c| c.char_value()) != Some('.') && names.iter().any(|n| n.starts_with('.') && pat.is_match(n)) {
                        d.verdicts.push(format!("period-rule:{key}"));
                    }
                    // quoted pattern characters are literal whatever precedes them (reference matcher)
                    if let Some(n) = names.iter().find(|n| reference_match(p, n).is_some_and(|b| b != pat.is_match(n))) {
                        d.verdicts.push(format!("reference-match-differs:{key}:{}", enc_str(n)));
                    }
                    let ms: Vec<String> = names.iter().filter(|n| pat.is_match(n)).map(|n| enc_str(n)).collect();
                    if ms.is_empty() { "P".to_string() } else { format!("P={}", ms.join(".")) }
                }
            };
            d.table.insert(key, val);
        }
    }
}

/// Dump, and the property's statement, for one field and the result `res` of `glob` on it.
#[allow(clippy::too_many_arguments)]
fn field_work(
    env: &mut VEnv,
    state: &Rc<RefCell<SystemState>>,
    prim: &Prim,
    d: &mut Direct,
    field: &[AttrChar],
    res: &[String],
    names_all: &BTreeSet<String>,
    listing_cache: &mut BTreeMap<String, Option<Vec<String>>>,
) -> Option<(Vec<Vec<PatternChar>>, Vec<Kind>)> {
    // components and what yash_fnmatch says about them
    let comps = split_components(field);
    let pcs: Vec<Vec<PatternChar>> = comps.iter().map(|c| to_pattern_chars(c)).collect();
    let kinds: Vec<Kind> = pcs.iter().map(|p| classify(p)).collect();
    let texts: Vec<Vec<String>> = comps
        .iter()
        .zip(&kinds)
        .map(|(c, k)| {
            let mut v = vec![quote_removed(c)];
            if let Kind::Literal(s) = k {
                if !v.contains(s) {
                    v.push(s.clone());
                }
            }
            v
        })
        .collect();

    // dump of the two oracles: breadth-first over every prefix the expansion could build
    let mut prefixes: BTreeSet<String> = BTreeSet::new();
    prefixes.insert(String::new());
    let k = comps.len();
    for i in 0..k {
        let mut next: BTreeSet<String> = BTreeSet::new();
        for p in &prefixes {
            let dir = if p.is_empty() { ".".to_string() } else { p.clone() };
            let listing = match listing_cache.get(&dir) {
                Some(l) => l.clone(),
                None => {
                    let l = list(env, state, d, &dir, prim.fd_limit);
                    listing_cache.insert(dir.clone(), l.clone());
                    l
                }
            };
            let mut cands: BTreeSet<String> = texts[i].iter().cloned().collect();
            if let Some(ns) = &listing {
                d.list.insert(dir.clone(), ns.clone());
                // the code skips `.` and `..` of a listing before anything else: no descent through them
                cands.extend(ns.iter().filter(|n| *n != "." && *n != "..").cloned());
                for u in names_all {
                    let path = format!("{p}{u}");
                    if exists(env, state, d, &path) {
                        d.exist.insert(path);
                    }
                }
            }
            for c in cands {
                let path = format!("{p}{c}");
                if exists(env, state, d, &path) {
                    d.exist.insert(path.clone());
                }
                if i + 1 < k {
                    next.insert(format!("{path}/"));
                }
            }
        }
        prefixes = next;
        if prefixes.len() > 20_000 {
            d.error = Some("too-many-prefixes".into());
            return None;
        }
    }

    // ---- the property's statement, evaluated directly
    let qr = quote_removed(field);
    let mut v = vec![];
    for (p, kd) in pcs.iter().zip(&kinds) {
        if p.iter().all(|c| matches!(c, PatternChar::Literal(_))) {
            let text: String = p.iter().map(|c| c.char_value()).collect();
            if !matches!(kd, Kind::Literal(s) if *s == text) {
                v.push("quoted-component-not-literal".to_string());
            }
        }
    }
    if !prim.glob_on {
        if *res != [qr.clone()] {
            v.push("noglob-not-verbatim".into());
        }
    } else {
        // completeness: brute-force walk
        let mut expected: BTreeSet<String> = BTreeSet::new();
        let mut entry_expected: BTreeSet<String> = BTreeSet::new();
        let mut frontier: Vec<String> = vec![String::new()];
        for i in 0..k {
            let mut nf = vec![];
            for p in &frontier {
                let names: Vec<String> = match &kinds[i] {
                    Kind::Invalid => vec![quote_removed(&comps[i])],
                    Kind::Literal(s) => vec![s.clone()],
                    Kind::Pattern(pat) => {
                        let dir = if p.is_empty() { ".".to_string() } else { p.clone() };
                        match listing_cache.get(&dir).cloned().unwrap_or_else(|| list(env, state, d, &dir, prim.fd_limit)) {
                            None => vec![],
                            Some(ns) => ns.into_iter().filter(|n| n != "." && n != ".." && pat.is_match(n)).collect(),
                        }
                    }
                };
                for n in names {
                    if i + 1 < k {
                        nf.push(format!("{p}{n}/"));
                    } else {
                        let path = format!("{p}{n}");
                        let there = exists(env, state, d, &path);
                        if there {
                            expected.insert(path.clone());
                        }
                        // wave 3, the entry-based Spec (Glob/EntrySpec.lean): a name found in a listing for a
                        // final pattern component is a member as it is; only a final component that is not a
                        // pattern is checked with fstatat
                        if there || matches!(&kinds[i], Kind::Pattern(_)) {
                            entry_expected.insert(path);
                        }
                    }
                }
            }
            frontier = nf;
        }
        // exact, for every tree (links and unsearchable directories included): the result is the sorted set
        // of entry-based members (BTreeSet<String> iterates bytewise), or the quote-removed field if empty
        let want: Vec<String> =
            if entry_expected.is_empty() { vec![qr.clone()] } else { entry_expected.iter().cloned().collect() };
        if *res != want {
            v.push(format!("not-entry-exact:want={}", show_obs(&want)));
        }
        let fallback = *res == [qr.clone()];
        let mut sound = true;
        for r in res {
            let names: Vec<&str> = r.split('/').collect();
            let mut bad = None;
            if names.len() != k {
                bad = Some("component-count");
            } else {
                let mut pre = String::new();
                for i in 0..k {
                    match &kinds[i] {
                        Kind::Invalid => {
                            if names[i] != quote_removed(&comps[i]) {
                                bad = Some("literal-text");
                            }
                        }
                        Kind::Literal(s) => {
                            if names[i] != s {
                                bad = Some("literal-text");
                            }
                        }
                        Kind::Pattern(pat) => {
                            if names[i] == "." || names[i] == ".." {
                                bad = Some("dot-from-wildcard");
                            } else if names[i].is_empty() || !pat.is_match(names[i]) {
                                bad = Some("name-does-not-match");
                            } else if !exists_somehow(env, state, &format!("{pre}{}", names[i])) {
                                bad = Some("wildcard-name-not-in-directory");
                            }
                        }
                    }
                    pre = format!("{pre}{}/", names[i]);
                }
                if bad.is_none() && !exists_somehow(env, state, r) {
                    bad = Some("nonexistent-path");
                }
            }
            if let Some(b) = bad {
                sound = false;
                if !fallback {
                    v.push(format!("{b}:{}", enc_str(r)));
                }
            }
        }
        if fallback && !sound {
            // the fallback text itself: allowed only when nothing accessible matches
            if !expected.is_empty() {
                v.push(format!("fallback-although-matches:{}", expected.iter().map(|s| enc_str(s)).collect::<Vec<_>>().join(",")));
            }
        } else {
            for e in &expected {
                if !res.contains(e) {
                    v.push(format!("omitted:{}", enc_str(e)));
                }
            }
            if !res.windows(2).all(|w| w[0].as_bytes() < w[1].as_bytes()) {
                v.push("not-strictly-sorted".into());
            }
        }
    }
    d.verdicts.extend(v);
    Some((pcs, kinds))
}

fn show_obs(fields: &[String]) -> String {
    if fields.is_empty() { "none".to_string() } else { fields.iter().map(|s| enc_str(s)).collect::<Vec<_>>().join(",") }
}

fn run_prim(prim: &Prim) -> (String, String, String) {
    let direct = Rc::new(RefCell::new(Direct::default()));
    let direct2 = Rc::clone(&direct);
    let prim2 = prim.clone();
    let mut script = String::new();
    for (n, v) in prim.assigns.iter().filter(|(n, _)| !n.starts_with('~')) {
        script.push_str(&format!("{n}={}\n", sq(v)));
    }
    if !prim.glob_on {
        script.push_str("set -f\n");
    }
    if prim.ctx == Ctx::Direct {
        script.push_str(":\n");
    } else {
        script.push_str(&format!("{}\n", command_text(prim)));
    }
    let mut config = Config::new(&script);
    config.max_rounds = 10_000;
    let (outcome, _) = run_with(
        config,
        move |env, state| {
            let mut d = direct2.borrow_mut();
            prepare(env, state, &prim2, &mut d);
        },
        |_, _| (),
    );
    let d = direct.borrow();
    let case = format!(
        "{} | F {} | E {} | L {} | M {} | X {}",
        show_prim(prim),
        show_fields(&d.fields),
        if d.exist.is_empty() { "-".to_string() } else { d.exist.iter().map(|p| enc_str(p)).collect::<Vec<_>>().join(",") },
        if d.list.is_empty() {
            "-".to_string()
        } else {
            d.list
                .iter()
                .map(|(dir, ns)| format!("{}={}", enc_str(dir), ns.iter().map(|n| enc_str(n)).collect::<Vec<_>>().join(".")))
                .collect::<Vec<_>>()
                .join(",")
        },
        if d.table.is_empty() { "-".to_string() } else { d.table.iter().map(|(k, v)| format!("{k}={v}")).collect::<Vec<_>>().join(",") },
        show_tree(&d.root_extra),
    );
    if let Some(e) = &d.error {
        return (case, e.clone(), "-".into());
    }
    if outcome.stuck {
        return (case, "TIMEOUT".into(), "FAIL:stuck".into());
    }
    let mut verdicts = d.verdicts.clone();
    if prim.ctx == Ctx::Direct {
        let oracle = if verdicts.is_empty() { "ok".to_string() } else { format!("FAIL:{}", verdicts.join(";")) };
        return (case, show_obs(&d.direct), oracle);
    }
    let out = outcome.stdout_str();
    let lines: Vec<&str> = out.lines().collect();
    let well_formed = outcome.exit_status == 0
        && lines.iter().all(|l| l.starts_with("0:"))
        && (prim.ctx == Ctx::For || lines.len() == 1);
    let obs = if well_formed {
        let mut fields: Vec<String> = vec![];
        let mut ok = true;
        for l in &lines {
            let body = &l[2..];
            if body.is_empty() {
                continue;
            }
            for h in body.split(',') {
                match dec_str(h) {
                    Some(s) => fields.push(s),
                    None => ok = false,
                }
            }
        }
        if prim.ctx == Ctx::Decl {
            // the operand was `val=<value>`; the shell shows the value
            fields = fields.into_iter().map(|f| format!("{VAL}={f}")).collect();
        }
        if !ok {
            format!("ERR(undecodable:{})", enc_str(&out))
        } else {
            if fields != d.direct {
                verdicts.push(format!("shell-differs-from-direct:{}", show_obs(&d.direct)));
            }
            show_obs(&fields)
        }
    } else {
        verdicts.push("shell-failed".into());
        format!("ERR({}:{}:{})", outcome.exit_status, enc_str(&out), enc_str(&outcome.stderr_str()))
    };
    let oracle = if verdicts.is_empty() { "ok".to_string() } else { format!("FAIL:{}", verdicts.join(";")) };
    (case, obs, oracle)
}

fn run_guarded(prim: &Prim) -> (String, String, String) {
    let mut out = (String::new(), String::new(), String::new());
    let o = guarded(|| {
        out = run_prim(prim);
        out.1.clone()
    });
    if o.starts_with("PANIC") {
        (format!("{} | F / | E - | L - | M - | X -", show_prim(prim)), o.clone(), format!("FAIL:{o}"))
    } else {
        out
    }
}

// ------------------------------------------------------------------------------------------
// generators

const NAMES: [&str; 12] = ["a", "b", "ab", ".a", ".b", "-", "[", "*", "a]", "sub", "?", "\\"];

/// continuation characters that sort *before* `/` (0x2f): for a directory `foo` next to `foo-bar`,
/// sorting whole pathnames (`foo-bar/x` < `foo/x`) differs from sorting name by name (`foo` < `foo-bar`)
const CONT_BELOW: [&str; 9] = ["-", ".", " ", "+", ",", "!", "#", "%", "-"];
/// … and, for contrast, characters that sort after it (incl. 2-, 3- and 4-byte UTF-8)
const CONT_ABOVE: [&str; 8] = ["0", "_", "a", "~", "\u{e9}", "\u{ff5e}", "\u{10000}", ":"];
const TAILS: [&str; 7] = ["", "bar", "d", "x", "\u{e9}", "A1", "9"];

/// Directory modes over the whole range that matters: owner/group/other × r/x.  Only the owner's
/// search bit decides whether names below can be looked up (the virtual process owns every inode);
/// `plain` trees draw from the searchable modes only (so the oracles stay consistent).
const MODES_SEARCHABLE: [u32; 12] = [0o700, 0o750, 0o710, 0o711, 0o500, 0o300, 0o100, 0o555, 0o111, 0o751, 0o701, 0o311];
const MODES_UNSEARCHABLE: [u32; 10] = [0o644, 0o400, 0o200, 0o000, 0o444, 0o070, 0o007, 0o055, 0o666, 0o011];

/// further names made of pattern characters (a quarter of the directories get one to three of them, at
/// every depth): what `*"*"`, `"?"?`, `a'['*`, `\**` … must find, and must not find
const META_NAMES: [&str; 16] = ["a*", "*a", "**", "a?", "?a", "??", "[a", "[ab]", "*?", "?*", "a*b", "*]", "a[", "-*", ".*", "*."];

/// names holding backslashes (second pass of wave 3): what `$v` with v=`\*`, `\?`, `\\`, `a\` … must find — the
/// backslash from an expansion stays an ordinary character and makes the next one literal
const BS_NAMES: [&str; 8] = ["\\*", "\\a", "\\\\", "\\?", "a\\", "\\[a]", "*\\", "\\[a"];
/// what the variable of a backslash word holds
const BS_VALUES: [&str; 18] = [
    "\\*", "\\?", "\\[a]", "\\[", "\\\\", "\\\\*", "a\\", "\\", "*\\", "sub\\/a", "sub/\\*", "\\*\\", "\\a", "\\/", "\\**",
    "\\*/a", "\\[a", "\\?\\",
];

fn gen_mode(r: &mut Rng, plain: bool) -> u32 {
    match r.below(10) {
        0..=4 => 0o755,
        5 | 6 => *r.pick(&MODES_SEARCHABLE),
        7 => if plain { 0o755 } else { *r.pick(&MODES_UNSEARCHABLE) },
        8 => if plain { *r.pick(&MODES_SEARCHABLE) } else { *r.pick(&MODES_UNSEARCHABLE) },
        _ => 0o755,
    }
}

fn gen_dir(r: &mut Rng, plain: bool, prefix: &str, depth: usize, out: &mut Vec<Entry>) {
    let n = if depth == 0 { 4 + r.below(6) } else { 1 + r.below(5) };
    let mut used: Vec<String> = vec![];
    if r.chance(1, 4) {
        for _ in 0..1 + r.below(3) {
            let name = *r.pick(&META_NAMES);
            if !used.iter().any(|u| u == name) {
                used.push(name.to_string());
                out.push(Entry::File(format!("{prefix}{name}")));
            }
        }
    }
    if r.chance(1, 5) {
        for _ in 0..1 + r.below(3) {
            let name = *r.pick(&BS_NAMES);
            if !used.iter().any(|u| u == name) {
                used.push(name.to_string());
                out.push(Entry::File(format!("{prefix}{name}")));
            }
        }
        if depth < 2 && r.chance(1, 3) {
            // a directory whose name ends in a backslash: `sub\/a` from an expansion is cut at the slash first
            used.push("sub\\".to_string());
            out.push(Entry::Dir(format!("{prefix}sub\\"), 0o755));
            out.push(Entry::File(format!("{prefix}sub\\/a")));
            out.push(Entry::File(format!("{prefix}sub\\/*")));
        }
    }
    for _ in 0..n {
        // the last two names are rarer
        let name = if r.chance(1, 12) { NAMES[10 + r.below(2)] } else { NAMES[r.below(10)] };
        if used.iter().any(|u| u == name) {
            continue;
        }
        used.push(name.to_string());
        let path = format!("{prefix}{name}");
        let roll = r.below(20);
        let want_dir = (name == "sub" && roll < 16) || roll < 8;
        if want_dir && depth < 2 {
            let mode = gen_mode(r, plain);
            out.push(Entry::Dir(path.clone(), mode));
            let start = out.len();
            gen_dir(r, plain, &format!("{path}/"), depth + 1, out);
            if r.chance(1, 3) {
                // companions: sibling directories whose names continue this one's, with the same
                // children, so that a wildcard over the siblings finds the same things below each
                let below = format!("{path}/");
                let mut kids: Vec<(String, bool)> = out[start..]
                    .iter()
                    .filter_map(|e| {
                        let (p, is_dir) = match e {
                            Entry::File(p) | Entry::Link(p, _) => (p, false),
                            Entry::Dir(p, _) => (p, true),
                        };
                        let rest = p.strip_prefix(&below)?;
                        if rest.contains('/') { None } else { Some((rest.to_string(), is_dir)) }
                    })
                    .collect();
                if !kids.iter().any(|(k, _)| k == "x") {
                    out.push(Entry::File(format!("{path}/x")));
                    kids.push(("x".into(), false));
                }
                for _ in 0..1 + r.below(3) {
                    let c = if r.chance(2, 3) { *r.pick(&CONT_BELOW) } else { *r.pick(&CONT_ABOVE) };
                    let comp_name = format!("{name}{c}{}", r.pick(&TAILS));
                    if used.contains(&comp_name) {
                        continue;
                    }
                    used.push(comp_name.clone());
                    let comp = format!("{prefix}{comp_name}");
                    out.push(Entry::Dir(comp.clone(), gen_mode(r, plain)));
                    for (k, is_dir) in &kids {
                        if *is_dir && depth + 1 < 2 {
                            out.push(Entry::Dir(format!("{comp}/{k}"), 0o755));
                            out.push(Entry::File(format!("{comp}/{k}/x")));
                        } else {
                            out.push(Entry::File(format!("{comp}/{k}")));
                        }
                    }
                }
            }
        } else if roll >= 16 && !plain && used.len() > 1 && r.chance(1, 2) {
            // a link to something generated before in the same directory (file, directory or link)
            let target = used[r.below(used.len() - 1)].clone();
            out.push(Entry::Link(path, target));
        } else if roll >= 17 && !plain {
            let target = match r.below(8) {
                0 => "a",
                1 => "b",
                2 => "sub",
                3 => "nowhere",
                4 => ".",
                5 => "../a",
                6 => "sub/a",
                _ => ".a",
            };
            out.push(Entry::Link(path, target.to_string()));
        } else {
            out.push(Entry::File(path));
            if r.chance(1, 10) {
                // the same for plain files: `a` next to `a.x`, `a-`, `a~`
                let c = if r.chance(1, 2) { *r.pick(&CONT_BELOW) } else { *r.pick(&CONT_ABOVE) };
                let comp_name = format!("{name}{c}{}", r.pick(&TAILS));
                if !used.contains(&comp_name) {
                    used.push(comp_name.clone());
                    out.push(Entry::File(format!("{prefix}{comp_name}")));
                }
            }
        }
    }
}

/// `plain` trees have no symbolic links and only searchable directories (so the oracles are
/// consistent in the sense of the model's `WF`); the others have both.
/// Chains of symbolic links across directories: a link `l` in directory A whose target is a link `k`
/// in another directory B (relative `../B/k` or absolute `/t/B/k`), `k` having a *relative* target
/// that is looked up in B — a name that exists in B but not in A, in A but not in B, in both or in
/// neither.  Every hop has to be resolved in the directory of the link being followed.  Also longer
/// chains through a third directory, loops, and chains around the bound of 8 hops.
fn gen_link_chains(r: &mut Rng, out: &mut Vec<Entry>) {
    let has = |out: &Vec<Entry>, n: &str| out.iter().any(|e| matches!(e, Entry::File(p) | Entry::Dir(p, _) | Entry::Link(p, _) if p == n));
    let mut dirs: Vec<String> = vec![String::new()];
    dirs.extend(out.iter().filter_map(|e| match e {
        Entry::Dir(p, _) if p.matches('/').count() < 2 => Some(p.clone()),
        _ => None,
    }));
    if dirs.len() < 2 {
        out.push(Entry::Dir("d".into(), 0o755));
        out.push(Entry::File("d/a".into()));
        dirs.push("d".into());
    }
    let inside = |d: &str, n: &str| if d.is_empty() { n.to_string() } else { format!("{d}/{n}") };
    // the way from directory `a` to directory `b`, as a link in `a` has to write it
    let rel = |a: &str, b: &str| -> String {
        let up = if a.is_empty() { 0 } else { a.matches('/').count() + 1 };
        let mut s = "../".repeat(up);
        if !b.is_empty() {
            s.push_str(b);
            s.push('/');
        }
        s
    };
    let children = |out: &Vec<Entry>, d: &str| -> Vec<String> {
        let pre = if d.is_empty() { String::new() } else { format!("{d}/") };
        out.iter()
            .filter_map(|e| {
                let p = match e {
                    Entry::File(p) | Entry::Dir(p, _) | Entry::Link(p, _) => p,
                };
                let rest = p.strip_prefix(&pre)?;
                if rest.contains('/') || rest.is_empty() { None } else { Some(rest.to_string()) }
            })
            .collect()
    };
    for _ in 0..1 + r.below(3) {
        let b = r.pick(&dirs).clone();
        let kname = *r.pick(&["k", "l", "ab", "b"]);
        let kpath = inside(&b, kname);
        if has(out, &kpath) {
            continue;
        }
        // what `k` points to: a plain relative name, looked up in B
        let mut pool: Vec<String> = children(out, &b);
        for a in dirs.iter().take(4) {
            pool.extend(children(out, a));
        }
        pool.extend(["a", "x", "nowhere"].map(String::from));
        let ktarget = match r.below(10) {
            0 => {
                // a third directory
                let c = r.pick(&dirs).clone();
                let m = inside(&c, "m");
                if !has(out, &m) {
                    out.push(Entry::Link(m, r.pick(&pool).clone()));
                }
                format!("{}m", rel(&b, &c))
            }
            _ => r.pick(&pool).clone(),
        };
        out.push(Entry::Link(kpath, ktarget));
        // the links that lead to `k`, in one to three other directories
        let lname = *r.pick(&["l", "k", "a", "-"]);
        for _ in 0..1 + r.below(3) {
            let a = r.pick(&dirs).clone();
            if a == b {
                continue;
            }
            let lpath = inside(&a, lname);
            if has(out, &lpath) {
                continue;
            }
            let target = if r.chance(1, 5) { format!("/t/{}", inside(&b, kname)) } else { format!("{}{kname}", rel(&a, &b)) };
            out.push(Entry::Link(lpath, target));
        }
        if r.chance(1, 8) {
            // a loop between two directories
            let a = r.pick(&dirs).clone();
            let (p, q) = (inside(&a, "o"), inside(&b, "o"));
            if a != b && !has(out, &p) && !has(out, &q) {
                out.push(Entry::Link(p, format!("{}o", rel(&a, &b))));
                out.push(Entry::Link(q, format!("{}o", rel(&b, &a))));
            }
        }
    }
    if r.chance(1, 6) {
        // chains of 6 … 9 links in one directory: `fstatat` gives up after 8 look-ups
        let d = r.pick(&dirs).clone();
        let n = 6 + r.below(4);
        if !(1..=n).any(|i| has(out, &inside(&d, &format!("c{i}")))) {
            for i in 1..n {
                out.push(Entry::Link(inside(&d, &format!("c{i}")), format!("c{}", i + 1)));
            }
            out.push(Entry::File(inside(&d, &format!("c{n}"))));
        }
    }
}

fn gen_tree(r: &mut Rng) -> Vec<Entry> {
    let mut out = vec![];
    let plain = r.chance(11, 20);
    gen_dir(r, plain, "", 0, &mut out);
    if !plain && r.chance(2, 3) {
        gen_link_chains(r, &mut out);
    }
    if r.chance(1, 10) {
        // names for patterns with a slash between brackets (`a[b/c]d` is the path `a[b` / `c]d`)
        let has = |out: &Vec<Entry>, n: &str| out.iter().any(|e| matches!(e, Entry::File(p) | Entry::Dir(p, _) | Entry::Link(p, _) if p == n));
        for f in ["abd", "acd"] {
            if !has(&out, f) {
                out.push(Entry::File(f.to_string()));
            }
        }
        if r.chance(1, 2) && !has(&out, "a[b") {
            out.push(Entry::Dir("a[b".into(), 0o755));
            out.push(Entry::File("a[b/c]d".into()));
            out.push(Entry::File("a[b/*".into()));
        }
    }
    if r.chance(1, 8) {
        // multi-byte names: the order is bytewise on UTF-8 (U+FF5E = ef bd 9e sorts before
        // U+10000 = f0 90 80 80, unlike in UTF-16), 2-byte U+00E9 before both, all after ASCII
        for (n, dir) in [("\u{ff5e}", true), ("\u{10000}", true), ("\u{e9}", false), ("z", false), ("\u{ff5e}\u{10000}", false)] {
            if dir {
                out.push(Entry::Dir(n.to_string(), 0o755));
                out.push(Entry::File(format!("{n}/x")));
                out.push(Entry::File(format!("{n}/\u{10000}")));
                out.push(Entry::File(format!("{n}/\u{ff5e}")));
            } else {
                out.push(Entry::File(n.to_string()));
            }
        }
    }
    out
}

/// atoms that are likely to match something
const PRODUCTIVE: [&str; 16] = ["*", "*", "?", "??", "[ab]*", ".*", "*b", "a*", "[!a]*", "[a-b]", "*]", ".?", "[!.]*", "[[:alpha:]]*", "?*", "[*[]"];
const ATOMS: [&str; 46] = [
    "a", "b", "ab", "*", "?", "[ab]", "[!a]", "[a-b]", "[a", "a]", "[", "]", ".", "..", ".*", "-", "sub", "*b", ".?", "[.]a",
    "[*]", "[?]", "!", "[[:alpha:]]", "[[:wrong:]]", "a*", "[.", "??", "[]-]", "[!.]*",
    // the rest of the bracket-expression family that a glob pattern can reach in yash-fnmatch
    "[[:punct:]]*", "[[:lower:]]*", "*[[:digit:]]*", "*[[:upper:]]*", "[[:alnum:]]?", "[[.-.]]*", "[[=a=]]*", "[[.a.]b]*", "[a-]*", "[!-]*",
    "[^a]*", "[z-a]*", "[[:alpha:][:digit:]]*", "[[:alpha:]-z]", "[][]", "[!]a]*",
];
/// texts that only make sense through a variable or quotes (contain a backslash or a slash)
const VAR_ATOMS: [&str; 18] = [
    "\\*", "\\", "\\?", "a\\", "\\[ab]", "[\\a]", "sub/*", "*/", "/", "*/a", "\\\\", "[a\\]b]", "[b/c]", "a[b/c]d", "[/]", "*[/]*", "[!/]*", "a[b/*",
];

#[derive(Clone, Copy, PartialEq)]
enum Style {
    Plain,
    Single,
    Double,
    Backslash,
    Var,
    QuotedVar,
}

struct WordGen {
    text: String,
    assigns: Vec<(String, String)>,
    nvars: usize,
    /// variables of this word are v<base+1>, v<base+2>
    base: usize,
}

impl WordGen {
    fn piece(&mut self, r: &mut Rng, text: &str) {
        let has_bs = text.contains('\\');
        let has_slash = text.contains('/');
        let mut style = match r.below(12) {
            0..=4 => Style::Plain,
            5 => Style::Single,
            6 => Style::Double,
            7 => Style::Backslash,
            8 | 9 => Style::Var,
            10 => Style::QuotedVar,
            _ => Style::Plain,
        };
        if has_bs && matches!(style, Style::Plain | Style::Double | Style::Backslash) {
            style = if r.chance(3, 4) { Style::Var } else { Style::Single };
        }
        if has_slash && style == Style::Plain && r.chance(1, 2) {
            style = Style::Var;
        }
        if matches!(style, Style::Var | Style::QuotedVar) && self.nvars >= 2 {
            style = if has_bs { Style::Single } else { Style::Plain };
        }
        // blanks would split the word (also after an unquoted expansion), `#` could start a comment
        let fragile = text.contains([' ', '#', '&', ';', '(', ')', '<', '>', '|', '~']);
        if fragile && matches!(style, Style::Plain | Style::Var) {
            style = if r.chance(1, 2) { Style::Single } else { Style::Double };
        }
        match style {
            Style::Plain => self.text.push_str(text),
            Style::Single => self.text.push_str(&format!("'{text}'")),
            Style::Double => self.text.push_str(&format!("\"{text}\"")),
            Style::Backslash => {
                for c in text.chars() {
                    self.text.push('\\');
                    self.text.push(c);
                }
            }
            Style::Var | Style::QuotedVar => {
                self.nvars += 1;
                let name = format!("v{}", self.base + self.nvars);
                self.assigns.push((name.clone(), text.to_string()));
                if style == Style::Var {
                    // braces: the next piece may start with a name character
                    self.text.push_str(&format!("${{{name}}}"));
                } else if r.chance(1, 2) {
                    self.text.push_str(&format!("\"${name}\""));
                } else {
                    self.text.push_str(&format!("\"${{{name}}}\""));
                }
            }
        }
    }
}

/// A word that follows a real path of the tree: each name is kept (in some quoting style) or replaced
/// by a pattern derived from it, so that most of these words match something.
fn gen_guided(r: &mut Rng, tree: &[Entry], base: usize) -> Option<(String, Vec<(String, String)>)> {
    if tree.is_empty() {
        return None;
    }
    let path = match r.pick(tree) {
        Entry::File(p) | Entry::Dir(p, _) | Entry::Link(p, _) => p.clone(),
    };
    let mut g = WordGen { text: String::new(), assigns: vec![], nvars: 0, base };
    match r.below(16) {
        0 => g.text.push_str("/t/"),
        1 => g.text.push_str("./"),
        _ => {}
    }
    // "starry" words put a wildcard on every directory level, so that sibling directories all contribute
    let starry = r.chance(1, 3);
    let ncomp = path.split('/').count();
    for (i, name) in path.split('/').enumerate() {
        if i > 0 {
            match r.below(12) {
                0 => g.text.push_str("'/'"),
                1 => g.text.push_str("\\/"),
                2 => g.text.push_str("//"),
                _ => g.text.push('/'),
            }
        }
        let chars: Vec<char> = name.chars().collect();
        let first = chars[0];
        let last = *chars.last().unwrap();
        let lit = |g: &mut WordGen, r: &mut Rng, t: &str| {
            if t.is_empty() {
                return;
            }
            // text that must stay literal: never unquoted
            let before = g.text.len();
            g.piece(r, t);
            if g.text[before..] == *t && t.contains(['*', '?', '[', ']', '\\', '!']) {
                g.text.truncate(before);
                g.text.push_str(&format!("'{t}'"));
            }
        };
        let rest: String = chars[1..].iter().collect();
        let init: String = chars[..chars.len() - 1].iter().collect();
        let roll = if starry && i + 1 < ncomp { r.below(4) } else { r.below(12) };
        match roll {
            0 | 1 => g.text.push_str(if first == '.' { ".*" } else { "*" }),
            2 => {
                lit(&mut g, r, &first.to_string());
                g.text.push('*');
            }
            3 => {
                g.text.push_str(if first == '.' { ".*" } else { "*" });
                if chars.len() > 1 || first != '.' {
                    lit(&mut g, r, &last.to_string());
                }
            }
            4 => {
                for (k, c) in chars.iter().enumerate() {
                    if k == 0 && *c == '.' { g.text.push('.') } else { g.text.push('?') }
                }
            }
            5 => {
                if !first.is_ascii_alphanumeric() {
                    lit(&mut g, r, &first.to_string());
                } else {
                    g.text.push_str(&format!("[{first}]"));
                }
                lit(&mut g, r, &rest);
            }
            6 => {
                lit(&mut g, r, &init);
                g.text.push_str("[!/]");
            }
            7 => g.piece(r, name), // possibly unquoted: a name with metacharacters becomes a pattern
            _ => lit(&mut g, r, name),
        }
    }
    if r.chance(1, 8) {
        g.text.push_str(if r.chance(1, 4) { "//" } else { "/" });
    }
    Some((g.text, g.assigns))
}

/// pattern characters and a few ordinary ones, the units of an "adjacency" component
const ADJ_UNITS: [&str; 14] = ["*", "*", "*", "?", "?", "[", "]", "[ab]", "[!a]", "a", "b", ".", "-", "!"];

/// One component made of two to four units, each unit unquoted, quoted in one of the three ways, or
/// coming from a variable (unquoted, quoted, or unquoted with a backslash in the value): every order of
/// (unquoted wildcard, quoted/escaped wildcard character), e.g. `*"*"`, `"*"*`, `*\*`, `?'?'`, `[ab]*'*'`,
/// `"["*`, `*${v}` with v=`\*`.  A quoted pattern character is literal whatever stands before it.
fn adjacency_component(g: &mut WordGen, r: &mut Rng) {
    let n = 2 + r.below(3);
    // make sure one unquoted wildcard and one quoted pattern character are neighbours in most components
    let forced = r.below(n - 1);
    let order = r.chance(1, 2);
    for k in 0..n {
        let unit = if k == forced || k == forced + 1 { *r.pick(&["*", "*", "?", "[ab]", "["]) } else { *r.pick(&ADJ_UNITS) };
        let quoted = if k == forced { order } else if k == forced + 1 { !order } else { r.chance(1, 2) };
        if !quoted {
            g.text.push_str(unit);
            continue;
        }
        match r.below(7) {
            0 | 1 => g.text.push_str(&format!("'{unit}'")),
            2 | 3 => g.text.push_str(&format!("\"{unit}\"")),
            4 => {
                for c in unit.chars() {
                    g.text.push('\\');
                    g.text.push(c);
                }
            }
            roll => {
                if g.nvars >= 2 {
                    g.text.push_str(&format!("'{unit}'"));
                    continue;
                }
                g.nvars += 1;
                let name = format!("v{}", g.base + g.nvars);
                if roll == 5 {
                    // quoted expansion: every character of the value is quoted
                    g.assigns.push((name.clone(), unit.to_string()));
                    g.text.push_str(&format!("\"${{{name}}}\""));
                } else {
                    // unquoted expansion whose value escapes each character with a backslash
                    let v: String = unit.chars().flat_map(|c| ['\\', c]).collect();
                    g.assigns.push((name.clone(), v));
                    g.text.push_str(&format!("${{{name}}}"));
                }
            }
        }
    }
}

/// A word of one to three components in which one component (at any position) is an adjacency
/// component and the others are wildcards or names of the tree.
fn gen_adjacent(r: &mut Rng, tree: &[Entry], base: usize) -> (String, Vec<(String, String)>) {
    let mut g = WordGen { text: String::new(), assigns: vec![], nvars: 0, base };
    let ncomp = 1 + r.below(3);
    let special = r.below(ncomp);
    for i in 0..ncomp {
        if i > 0 {
            g.text.push('/');
        }
        if i == special || r.chance(1, 4) {
            adjacency_component(&mut g, r);
        } else if r.chance(1, 2) || tree.is_empty() {
            g.text.push_str(*r.pick(&["*", "*", "sub", "?*", "a*", "[!.]*"]));
        } else {
            let p = match r.pick(tree) {
                Entry::File(p) | Entry::Dir(p, _) | Entry::Link(p, _) => p.clone(),
            };
            let name = p.split('/').next().unwrap().to_string();
            g.text.push_str(&sq(&name));
        }
    }
    (g.text, g.assigns)
}

/// A word whose unquoted expansion is split into several fields, each globbed on its own.
fn gen_split(r: &mut Rng, base: usize) -> (String, Vec<(String, String)>) {
    let n = 2 + r.below(2);
    let parts: Vec<&str> = (0..n).map(|_| if r.chance(1, 2) { *r.pick(&PRODUCTIVE) } else { *r.pick(&ATOMS) }).collect();
    let sep = *r.pick(&[" ", "  ", "\t", " \n"]);
    let value = parts.join(sep);
    let name = format!("v{}", base + 1);
    let text = match r.below(4) {
        0 => format!("a${{{name}}}"),
        1 => format!("${{{name}}}/*"),
        2 => format!("sub/${{{name}}}"),
        _ => format!("${{{name}}}"),
    };
    (text, vec![(name, value)])
}

/// a word whose backslashes come from an unquoted expansion: before `*`, `?`, `[`, `/`, `\`, at the end
fn gen_backslash_word(r: &mut Rng, base: usize) -> (String, Vec<(String, String)>) {
    let name = format!("v{}", base + 1);
    let value = *r.pick(&BS_VALUES);
    let text = match r.below(9) {
        0 | 1 | 2 => format!("${{{name}}}"),
        3 => format!("${{{name}}}*"),
        4 => format!("*${{{name}}}"),
        5 => format!("sub/${{{name}}}"),
        6 => format!("${{{name}}}/*"),
        7 => format!("${{{name}}}\"\"*"),
        _ => format!("?${{{name}}}?"),
    };
    (text, vec![(name, value.to_string())])
}

/// a bracket expression whose members are quoted one by one in different styles: a quoted `-`, `!`, `^`, `]`,
/// `*`, `[` inside brackets is an ordinary member (no range, no negation, no end of the bracket), wherever it stands
fn gen_bracket_word(r: &mut Rng, base: usize) -> (String, Vec<(String, String)>) {
    const MEMBERS: [&str; 12] = ["a", "b", "c", "-", "-", "!", "^", "]", "*", "[", "d", "."];
    let mut text = String::new();
    let mut assigns = vec![];
    match r.below(5) {
        0 => text.push('*'),
        1 => text.push_str("sub/"),
        _ => {}
    }
    text.push('[');
    let n = 2 + r.below(3);
    let mut nvars = 0;
    for _ in 0..n {
        let m = *r.pick(&MEMBERS);
        match r.below(8) {
            0 | 1 | 2 => text.push_str(m),
            3 => text.push_str(&format!("\"{m}\"")),
            4 => text.push_str(&format!("'{m}'")),
            5 | 6 => text.push_str(&format!("\\{m}")),
            _ => {
                if nvars < 2 {
                    nvars += 1;
                    let name = format!("v{}", base + nvars);
                    assigns.push((name.clone(), m.to_string()));
                    text.push_str(&format!("\"${{{name}}}\""));
                } else {
                    text.push_str(m);
                }
            }
        }
    }
    text.push(']');
    match r.below(5) {
        0 => text.push('*'),
        1 => text.push_str("/*"),
        _ => {}
    }
    (text, assigns)
}

/// a word holding a command substitution whose output is a pattern / a name / several fields
fn gen_subst_word(r: &mut Rng) -> (String, Vec<(String, String)>) {
    const OUT: [&str; 16] = ["*", "?*", "[ab]*", "sub/*", ".*", "*/a", "\\*", "a b", "* .*", "a", "sub", "[", "*]", "", "-", "??"];
    let out = *r.pick(&OUT);
    let sub = format!("$(echo '{out}')");
    let text = match r.below(8) {
        0 | 1 | 2 => sub,
        3 => format!("\"{sub}\""),
        4 => format!("{sub}/*"),
        5 => format!("sub/{sub}"),
        6 => format!("{sub}*"),
        _ => format!("*{sub}"),
    };
    (text, vec![])
}

fn gen_word(r: &mut Rng, tree: &[Entry], base: usize, first_word: bool) -> (String, Vec<(String, String)>) {
    if r.chance(1, 12) {
        return gen_split(r, base);
    }
    if r.chance(1, 18) {
        return gen_subst_word(r);
    }
    if r.chance(1, 14) {
        return gen_bracket_word(r, base);
    }
    if r.chance(1, 14) {
        return gen_backslash_word(r, base);
    }
    if r.chance(1, 8) {
        return gen_adjacent(r, tree, base);
    }
    if r.chance(1, 2) {
        if let Some(w) = gen_guided(r, tree, base) {
            return w;
        }
    }
    let mut g = WordGen { text: String::new(), assigns: vec![], nvars: 0, base };
    let ncomp = match r.below(20) {
        0..=8 => 1,
        9..=15 => 2,
        _ => 3,
    };
    let mut first = 0;
    match if first_word { r.below(14) } else { 2 + r.below(12) } {
        0 => g.text.push_str("/t/"),
        1 | 3 => {
            // tilde expansion: the home directory arrives as hard-expansion characters, whatever it holds
            // (pattern characters, a trailing slash that is dropped before a following slash); `~` takes
            // HOME, `~u` the home directory of the user `u` (pseudo-assignment `~u`, see `prepare`)
            let home = *r.pick(&["*", "a", "/t", "sub", "[ab]", "?", "sub/", "*/", "/t/sub/", "[", "a*", "?/", "[ab]/", "/"]);
            if r.chance(1, 3) {
                g.assigns.push(("~u".into(), home.to_string()));
                g.text.push_str("~u");
            } else {
                g.assigns.push(("HOME".into(), home.to_string()));
                g.text.push('~');
            }
            first = 1;
        }
        2 => g.text.push_str("./"),
        _ => {}
    }
    for i in first..ncomp {
        if i > 0 {
            match r.below(10) {
                0 => g.text.push_str("'/'"),
                1 => g.text.push_str("\\/"),
                2 => g.text.push_str("//"),
                3 => g.text.push_str("\"/\""),
                _ => g.text.push('/'),
            }
        }
        let inner = i + 1 < ncomp;
        match if inner { r.below(12) } else { r.below(10) } {
            10 | 11 => g.text.push_str(*r.pick(&["*", "sub", "*", "?*", "[!.]*", ".*"])),
            0..=3 => {
                // one productive wildcard, usually unquoted
                let text = *r.pick(&PRODUCTIVE);
                if r.chance(3, 4) { g.text.push_str(text) } else { g.piece(r, text) }
            }
            4 | 5 => {
                // the name of something that may well be there
                let text = *r.pick(&NAMES[..10]);
                if r.chance(1, 2) && !text.contains(['*', '[', '?', '\\']) { g.text.push_str(text) } else { g.piece(r, text) }
            }
            _ => {
                let npieces = match r.below(6) {
                    0 | 1 | 2 => 1,
                    3 | 4 => 2,
                    _ => 3,
                };
                for _ in 0..npieces {
                    let text = if r.chance(1, 7) { *r.pick(&VAR_ATOMS) } else { *r.pick(&ATOMS) };
                    g.piece(r, text);
                }
            }
        }
    }
    if r.chance(1, 8) {
        g.text.push('/');
    }
    (g.text, g.assigns)
}

fn word_ok(w: &str, assigns: &[(String, String)]) -> bool {
    let slashes = w.matches('/').count() + assigns.iter().map(|(_, v)| v.matches('/').count()).sum::<usize>();
    !w.is_empty() && slashes <= 4
}

/// Attributed fields made by hand (not obtainable, or not easily, through a shell word): arbitrary
/// mixtures of origins and quoting flags, quoting characters anywhere, NUL characters, several fields.
fn gen_direct_fields(r: &mut Rng, tree: &[Entry]) -> String {
    let nfields = match r.below(8) {
        0 => 0,
        1 | 2 => 2,
        _ => 1,
    };
    let mut fields = vec![];
    for _ in 0..nfields {
        let ncomp = 1 + r.below(3);
        let mut text = String::new();
        if r.chance(1, 10) {
            text.push_str("/t/");
        }
        for i in 0..ncomp {
            if i > 0 {
                text.push('/');
            }
            match r.below(4) {
                0 => text.push_str(*r.pick(&PRODUCTIVE)),
                1 => text.push_str(*r.pick(&ATOMS)),
                2 => text.push_str(*r.pick(&VAR_ATOMS)),
                _ => {
                    if let Some(e) = (!tree.is_empty()).then(|| r.pick(tree)) {
                        let p = match e {
                            Entry::File(p) | Entry::Dir(p, _) | Entry::Link(p, _) => p,
                        };
                        text.push_str(p.rsplit('/').next().unwrap());
                    }
                }
            }
        }
        let mut cs: Vec<AttrChar> = vec![];
        let nul_at = if r.chance(1, 12) { Some(r.below(text.chars().count() + 1)) } else { None };
        for (i, c) in text.chars().enumerate() {
            if nul_at == Some(i) {
                cs.push(AttrChar { value: '\0', origin: Origin::Literal, is_quoted: false, is_quoting: false });
            }
            if r.chance(1, 12) {
                let q = *r.pick(&['\\', '\'', '"', '/']);
                cs.push(AttrChar { value: q, origin: Origin::Literal, is_quoted: r.chance(1, 3), is_quoting: true });
            }
            let origin = match r.below(10) {
                0 => Origin::HardExpansion,
                1..=3 => Origin::SoftExpansion,
                _ => Origin::Literal,
            };
            cs.push(AttrChar { value: c, origin, is_quoted: r.chance(1, 8), is_quoting: false });
        }
        if nul_at == Some(text.chars().count()) {
            cs.push(AttrChar { value: '\0', origin: Origin::SoftExpansion, is_quoted: false, is_quoting: false });
        }
        fields.push(cs);
    }
    show_fields(&fields)
}

fn gen_prim(rw: &mut Rng, tree: &[Entry]) -> Prim {
    let glob_on = !rw.chance(1, 8);
    let fd_limit = rw.chance(1, 25);
    let ctx = match rw.below(20) {
        0..=9 => Ctx::Cmd,
        10 => Ctx::Func,
        11 | 12 => Ctx::For,
        13 | 14 => Ctx::Arr,
        15 => Ctx::Scalar,
        16 => Ctx::Decl,
        _ => Ctx::Direct,
    };
    if ctx == Ctx::Direct {
        loop {
            let f = gen_direct_fields(rw, tree);
            if f.matches("2f:").count() <= 5 {
                return Prim { tree: tree.to_vec(), words: vec![], fields: Some(f), assigns: vec![], fd_limit, glob_on, ctx };
            }
        }
    }
    loop {
        let nwords = if ctx.single() || rw.chance(2, 3) { 1 } else { 2 + rw.below(2) };
        let mut words = vec![];
        let mut assigns: Vec<(String, String)> = vec![];
        for k in 0..nwords {
            let (w, a) = loop {
                let (w, a) = gen_word(rw, tree, 2 * k, k == 0 && !ctx.single());
                if word_ok(&w, &a) {
                    break (w, a);
                }
            };
            words.push(w);
            assigns.extend(a);
        }
        // a command substitution needs a pipe: not together with the exhausted descriptor table
        let fd_limit = fd_limit && !words.iter().any(|w| w.contains("$("));
        let prim = Prim { tree: tree.to_vec(), words, fields: None, assigns, fd_limit, glob_on, ctx };
        if parse_words(&prim).is_ok() {
            return prim;
        }
    }
}

fn main() {
    quiet_panics();
    let o = Opts::from_args();
    let (fixed, only) = o.fixed_cases();
    for c in &fixed {
        match parse_prim(c) {
            Some(p) => {
                let (case, obs, oracle) = run_guarded(&p);
                emit(&case, &obs, &oracle);
            }
            None => emit(c, "bad-case", "-"),
        }
    }
    if only {
        return;
    }
    let (ntrees, nwords) = if o.thorough() { (5_000, 100) } else { (320, 25) };
    let mut rng = Rng::new(o.seed ^ 0xC05);
    let mut index = 0usize;
    for _ in 0..ntrees {
        let mut r = rng.fork();
        let tree = gen_tree(&mut r);
        for _ in 0..nwords {
            let mut rw = r.fork();
            index += 1;
            if index % o.shard.1 != o.shard.0 {
                continue;
            }
            let prim = gen_prim(&mut rw, &tree);
            let (case, obs, oracle) = run_guarded(&prim);
            if obs == "too-many-prefixes" {
                continue; // the oracle dump would be too large for one line; not a statement about the code
            }
            emit(&case, &obs, &oracle);
        }
    }
}
