//! C11 — signal dispositions and traps: operation sequences against the real `TrapSet` driven on a
//! real `VirtualSystem` (through `Rc<Concurrent<VirtualSystem>>`, the `SignalSystem` the shell uses),
//! plus whole scripts with a signal sent at every command boundary.
//!
//! Case line (see /verif/lean/YashModel/Trap/Main.lean): `[ign SIG…;] op; op; …` or `script …`.
//! Observation per operation: result and, for every condition whose view changed,
//! `NAME=<current>/<parent>/<disposition><blocked>` read from `TrapSet::get_state` and from the
//! process state of the virtual system.
//! Oracle (independent of the Lean model): the reference merge
//! `installed = if untouched then inherited else max(shell's need, disposition of the user action)`
//! evaluated on the real trap set after every operation, `blocked <=> Catch`, KILL/STOP rejection,
//! stickiness of initially ignored signals, and once-only running of pending traps with `$?` kept.

use futures_util::FutureExt as _;
use std::collections::{BTreeMap, HashSet, VecDeque};
use std::rc::Rc;
use yash_env::Env;
use yash_env::semantics::ExitStatus;
use yash_env::signal::Number;
use yash_env::source::Location;
use yash_env::system::r#virtual::{
    SIGCHLD, SIGINT, SIGKILL, SIGQUIT, SIGSTOP, SIGTERM, SIGTSTP, SIGTTIN, SIGTTOU, SIGUSR1,
    VirtualSystem,
};
use yash_env::system::SendSignal as _;
use yash_env::system::Sigset as _;
use yash_env::system::{Concurrent, Disposition};
use yash_env::trap::{Action, Condition, Origin, SetActionError, TrapState};
use yverif::proto::{Opts, emit, enc_str, guarded, quiet_panics};
use yverif::rng::Rng;
use yverif::shell::{self, VEnv, VSys};

const CONDS: [(&str, Option<Number>); 11] = [
    ("EXIT", None),
    ("INT", Some(SIGINT)),
    ("QUIT", Some(SIGQUIT)),
    ("KILL", Some(SIGKILL)),
    ("TERM", Some(SIGTERM)),
    ("CHLD", Some(SIGCHLD)),
    ("STOP", Some(SIGSTOP)),
    ("TSTP", Some(SIGTSTP)),
    ("TTIN", Some(SIGTTIN)),
    ("TTOU", Some(SIGTTOU)),
    ("USR1", Some(SIGUSR1)),
];

fn cond_of(name: &str) -> Option<Condition> {
    CONDS.iter().find(|c| c.0 == name).map(|c| match c.1 {
        None => Condition::Exit,
        Some(n) => Condition::Signal(n),
    })
}

fn sig_of(name: &str) -> Option<Number> {
    CONDS.iter().find(|c| c.0 == name).and_then(|c| c.1)
}

/// every signal name the virtual system knows (for the `tb` leg)
fn any_sig_of(name: &str) -> Option<Number> {
    use yash_env::system::Signals as _;
    VirtualSystem::new().str2sig(name)
}

fn name_of(n: Number) -> String {
    CONDS
        .iter()
        .find(|c| c.1 == Some(n))
        .map(|c| c.0.to_string())
        .unwrap_or_else(|| format!("#{}", n.as_raw()))
}

fn show_ts(t: &TrapState) -> String {
    let a = match &t.action {
        Action::Default => "d".to_string(),
        Action::Ignore => "i".to_string(),
        // command text is `probe <N>; st 7`
        Action::Command(c) => format!(
            "c{}",
            c.strip_prefix("probe ").and_then(|r| r.split(';').next()).unwrap_or("?")
        ),
    };
    let o = match &t.origin {
        Origin::Inherited => "I".to_string(),
        Origin::Subshell => "S".to_string(),
        Origin::User(l) => format!("U{}", l.code.value.borrow()),
    };
    format!("{}.{}.{}", a, o, t.pending as u8)
}

fn show_opt(t: Option<&TrapState>) -> String {
    t.map(show_ts).unwrap_or_else(|| "-".into())
}

fn show_disp(d: Disposition) -> &'static str {
    match d {
        Disposition::Default => "D",
        Disposition::Ignore => "I",
        Disposition::Catch => "C",
    }
}

struct World {
    env: VEnv,
    vs: VirtualSystem,
}

impl World {
    fn new() -> World {
        let vs = VirtualSystem::new();
        let system: VSys = Rc::new(Concurrent::new(vs.clone()));
        let mut env = Env::with_system(system);
        // the real `return`, `exit`, `false`, … and then the probe built-ins (which replace `echo`)
        env.builtins.extend(yash_builtin::iter());
        env.builtins.extend(shell::probe_builtins());
        World { env, vs }
    }
    fn disp(&self, n: Number) -> Disposition {
        self.vs.current_process().disposition(n)
    }
    fn blocked(&self, n: Number) -> bool {
        self.vs.current_process().blocked_signals().contains(n) == Ok(true)
    }
    fn views(&self) -> Vec<String> {
        CONDS
            .iter()
            .map(|(_, n)| {
                let cond = match n {
                    None => Condition::Exit,
                    Some(n) => Condition::Signal(*n),
                };
                let (cur, par) = self.env.traps.get_state(cond);
                let base = format!("{}/{}", show_opt(cur), show_opt(par));
                match n {
                    None => base,
                    Some(n) => format!("{}/{}{}", base, show_disp(self.disp(*n)), self.blocked(*n) as u8),
                }
            })
            .collect()
    }
    fn stdout_len(&self) -> usize {
        shell::read_file(&self.vs.state, "/dev/stdout").map(|v| v.len()).unwrap_or(0)
    }
    fn stdout_from(&self, from: usize) -> String {
        let v = shell::read_file(&self.vs.state, "/dev/stdout").unwrap_or_default();
        String::from_utf8_lossy(&v[from.min(v.len())..]).into_owned()
    }
}

fn rank(d: Disposition) -> u8 {
    match d {
        Disposition::Default => 0,
        Disposition::Ignore => 1,
        Disposition::Catch => 2,
    }
}

fn dmax(a: Disposition, b: Disposition) -> Disposition {
    if rank(a) >= rank(b) { a } else { b }
}

/// What the harness itself knows from the operations performed (never read from the trap set):
/// the shell's own need per signal, per the documentation of the `TrapSet` methods.
#[derive(Default)]
struct Ledger {
    ignored_on_entry: HashSet<Number>,
    need: BTreeMap<Number, Disposition>,
    overridden: HashSet<Number>,
}

impl Ledger {
    fn need(&self, n: Number) -> Disposition {
        self.need.get(&n).copied().unwrap_or(Disposition::Default)
    }
    fn init(&self, n: Number) -> Disposition {
        if self.ignored_on_entry.contains(&n) { Disposition::Ignore } else { Disposition::Default }
    }
}

/// The clauses of the property statement on the real state, after one operation.
fn oracle_state(w: &World, l: &Ledger) -> Result<(), String> {
    // `TrapSet::iter` lists exactly the known conditions, in ascending order, with the same states
    let mut last: Option<Condition> = None;
    for (cond, cur, par) in w.env.traps.iter() {
        if last.is_some_and(|p| p >= *cond) {
            return Err("iter-order".into());
        }
        last = Some(*cond);
        let (c2, p2) = w.env.traps.get_state(*cond);
        if c2 != Some(cur) || p2 != par {
            return Err("iter-disagrees-with-get_state".into());
        }
    }
    for (name, n) in CONDS.iter() {
        let Some(n) = *n else { continue };
        let (cur, _) = w.env.traps.get_state(Condition::Signal(n));
        let expected = match cur {
            None => l.init(n),
            Some(ts) => dmax(l.need(n), (&ts.action).into()),
        };
        let d = w.disp(n);
        if d != expected {
            return Err(format!("disposition:{name}:installed={}:expected={}", show_disp(d), show_disp(expected)));
        }
        if w.blocked(n) != (d == Disposition::Catch) {
            return Err(format!("mask:{name}"));
        }
        if (n == SIGKILL || n == SIGSTOP) && (d != l.init(n) || cur.is_some_and(|t| t.action != Action::Default && t.origin != Origin::Inherited)) {
            return Err(format!("kill-stop:{name}"));
        }
        if l.ignored_on_entry.contains(&n) && !l.overridden.contains(&n) {
            if d == Disposition::Default {
                return Err(format!("sticky-disposition:{name}"));
            }
            if let Some(ts) = cur {
                if ts.action != Action::Ignore || ts.origin != Origin::Inherited {
                    return Err(format!("sticky-action:{name}"));
                }
            }
        }
    }
    Ok(())
}

const MAX_OPS: usize = 400;

/// Runs one case; returns (observation, oracle, dedup key of the final state).
fn run_ops(case: &str) -> (String, String, String) {
    let bad = || ("bad-case".to_string(), "-".to_string(), String::new());
    let mut parts: Vec<&str> = case.split(';').map(|s| s.trim()).filter(|s| !s.is_empty()).collect();
    if parts.len() > MAX_OPS {
        return bad();
    }
    let mut w = World::new();
    let mut l = Ledger::default();
    if let Some(first) = parts.first() {
        let ws: Vec<&str> = first.split_whitespace().collect();
        if ws.first() == Some(&"ign") {
            for s in &ws[1..] {
                let Some(n) = sig_of(s) else { return bad() };
                w.vs.current_process_mut().set_disposition(n, Disposition::Ignore);
                l.ignored_on_entry.insert(n);
            }
            parts.remove(0);
        }
    }
    let mut views = w.views();
    let mut obs: Vec<String> = vec![];
    let mut verdict: Option<String> = None;
    for (k, op) in parts.iter().enumerate() {
        let ws: Vec<&str> = op.split_whitespace().collect();
        let mut fail: Option<String> = None;
        let system = Rc::clone(&w.env.system);
        let r: String = match ws.as_slice() {
            ["set", c, a, ov] => {
                let Some(cond) = cond_of(c) else { return bad() };
                let action = match a.split_at(1) {
                    ("d", "") => Action::Default,
                    ("i", "") => Action::Ignore,
                    ("c", n) if n.parse::<u64>().is_ok() => {
                        // the body is chosen by N / 1000 (see Main.lean)
                        let tail = match n.parse::<u64>().unwrap() / 1000 {
                            1 => "return 3",
                            2 => "exit 4",
                            3 => "false",
                            4 => ": ${U?}",
                            // the action changes `$?` and then diverts WITHOUT a status: `$?` must be restored
                            5 => "false; return",
                            6 => "! :; return",
                            _ => "st 7",
                        };
                        Action::Command(format!("probe {n}; {tail}").into())
                    }
                    _ => return bad(),
                };
                let ov = match *ov {
                    "0" => false,
                    "1" => true,
                    _ => return bad(),
                };
                let before = w.views();
                let res = w
                    .env
                    .traps
                    .set_action(&system, cond, action, Location::dummy(k.to_string()), ov)
                    .now_or_never();
                let Some(res) = res else { return ("TIMEOUT(set_action)".into(), "FAIL:timeout".into(), String::new()) };
                if let Condition::Signal(n) = cond {
                    if ov && n != SIGKILL && n != SIGSTOP {
                        l.overridden.insert(n);
                    }
                    // KILL and STOP can never be trapped: error, nothing touched
                    if n == SIGKILL || n == SIGSTOP {
                        if res.is_ok() || w.views() != before {
                            fail = Some(format!("kill-stop-accepted:{c}"));
                        }
                    } else if l.ignored_on_entry.contains(&n) && !l.overridden.contains(&n) {
                        // ignored on entry, never overridden: can be neither trapped nor reset
                        if res != Err(SetActionError::InitiallyIgnored) {
                            fail = Some(format!("sticky-accepted:{c}"));
                        }
                    }
                }
                // what a `trap` command does to a delivery still pending: accepted → the new state is recorded, NOT
                // pending (that delivery runs neither action; the new action is for the next delivery); rejected →
                // the pending flag is as before
                {
                    let was: Vec<bool> = before.iter().map(|v| v.split('/').next().is_some_and(|c| c.ends_with(".1"))).collect();
                    let now = w.views();
                    for (i, (name, n)) in CONDS.iter().enumerate() {
                        let is_now = now[i].split('/').next().is_some_and(|c| c.ends_with(".1"));
                        let this = match (cond, n) {
                            (Condition::Exit, None) => true,
                            (Condition::Signal(a), Some(b)) => a == *b,
                            _ => false,
                        };
                        if this && res.is_ok() {
                            if is_now {
                                fail = Some(format!("trap-command-left-pending:{name}"));
                            }
                        } else if is_now != was[i] {
                            fail = Some(format!("trap-command-changed-pending-of:{name}"));
                        }
                    }
                }
                match res {
                    Ok(()) => "ok".into(),
                    Err(SetActionError::InitiallyIgnored) => "initially-ignored".into(),
                    Err(SetActionError::SIGKILL) => "sigkill".into(),
                    Err(SetActionError::SIGSTOP) => "sigstop".into(),
                    Err(SetActionError::SystemError(e)) => format!("errno:{e:?}"),
                }
            }
            ["chld"] => {
                w.env.traps.enable_internal_disposition_for_sigchld(&system).now_or_never().map(|r| r.ok());
                l.need.insert(SIGCHLD, Disposition::Catch);
                "-".into()
            }
            ["term+"] => {
                w.env.traps.enable_internal_dispositions_for_terminators(&system).now_or_never().map(|r| r.ok());
                l.need.insert(SIGINT, Disposition::Catch);
                l.need.insert(SIGTERM, Disposition::Ignore);
                l.need.insert(SIGQUIT, Disposition::Ignore);
                "-".into()
            }
            ["term-"] => {
                w.env.traps.disable_internal_dispositions_for_terminators(&system).now_or_never().map(|r| r.ok());
                for n in [SIGINT, SIGTERM, SIGQUIT] {
                    l.need.remove(&n);
                }
                "-".into()
            }
            ["stop+"] => {
                w.env.traps.enable_internal_dispositions_for_stoppers(&system).now_or_never().map(|r| r.ok());
                for n in [SIGTSTP, SIGTTIN, SIGTTOU] {
                    l.need.insert(n, Disposition::Ignore);
                }
                "-".into()
            }
            ["stop-"] => {
                w.env.traps.disable_internal_dispositions_for_stoppers(&system).now_or_never().map(|r| r.ok());
                for n in [SIGTSTP, SIGTTIN, SIGTTOU] {
                    l.need.remove(&n);
                }
                "-".into()
            }
            ["dis"] => {
                w.env.traps.disable_internal_dispositions(&system).now_or_never().map(|r| r.ok());
                l.need.clear();
                "-".into()
            }
            ["sub", i, ks] => {
                let (Some(i), Some(ks)) = (bit(i), bit(ks)) else { return bad() };
                let commands: Vec<Number> = CONDS
                    .iter()
                    .filter_map(|c| c.1)
                    .filter(|n| matches!(w.env.traps.get_state(*n).0, Some(TrapState { action: Action::Command(_), .. })))
                    .collect();
                // What the documentation of `enter_subshell` says must be installed afterwards, from the
                // state before and the ledger only (never from what the call did): SIGINT/SIGQUIT of an
                // asynchronous list are ignored whatever the trap set held for them; enabled stoppers stay
                // ignored under `keep_stoppers`; otherwise the POSIX reset of the action, merged with
                // SIGCHLD's internal disposition only; an unknown signal is not touched.
                // (signal, disposition wanted, whether the recorded action must be `Ignore` too)
                let want: Vec<(Number, Disposition, bool)> = CONDS
                    .iter()
                    .filter_map(|c| c.1)
                    .map(|n| {
                        if i && (n == SIGINT || n == SIGQUIT) {
                            (n, Disposition::Ignore, true)
                        } else if ks && (n == SIGTSTP || n == SIGTTIN || n == SIGTTOU) && l.need(n) != Disposition::Default {
                            (n, Disposition::Ignore, true)
                        } else {
                            match w.env.traps.get_state(n).0 {
                                None => (n, w.disp(n), false),
                                Some(ts) => {
                                    let reset = match &ts.action {
                                        Action::Command(_) => Disposition::Default,
                                        a => a.into(),
                                    };
                                    let keep = if n == SIGCHLD { l.need(n) } else { Disposition::Default };
                                    (n, dmax(keep, reset), false)
                                }
                            }
                        }
                    })
                    .collect();
                w.env.traps.enter_subshell(&system, i, ks).now_or_never();
                // "Internal dispositions that have been installed are cleared except for SIGCHLD."
                l.need.retain(|n, _| *n == SIGCHLD);
                for (n, d, ignore) in want {
                    if w.disp(n) != d {
                        fail = Some(format!("subshell-disposition:{}:installed={}:expected={}", name_of(n), show_disp(w.disp(n)), show_disp(d)));
                    } else if ignore && !w.env.traps.get_state(n).0.is_some_and(|t| t.action == Action::Ignore) {
                        fail = Some(format!("subshell-action-not-ignore:{}", name_of(n)));
                    }
                }
                // POSIX: traps that are not ignored are reset to default in a subshell
                for n in commands {
                    let (cur, par) = w.env.traps.get_state(n);
                    if matches!(cur, Some(TrapState { action: Action::Command(_), .. })) || par.is_none() {
                        fail = Some(format!("command-trap-not-reset:{}", name_of(n)));
                    }
                }
                "-".into()
            }
            ["peek", c] => {
                let Some(cond) = cond_of(c) else { return bad() };
                match w.env.traps.peek_state(&system, cond) {
                    Ok(t) => show_ts(t),
                    Err(e) => format!("errno:{e:?}"),
                }
            }
            ["catch", s] => {
                let Some(n) = sig_of(s) else { return bad() };
                w.env.traps.catch_signal(n);
                if let Some(ts) = w.env.traps.get_state(n).0 {
                    if !ts.pending {
                        fail = Some(format!("catch-lost:{s}"));
                    }
                }
                "-".into()
            }
            ["take"] => {
                let any_pending = CONDS.iter().filter_map(|c| c.1).any(|n| w.env.traps.get_state(n).0.is_some_and(|t| t.pending));
                let r = match w.env.traps.take_caught_signal() {
                    None => None,
                    Some((n, t)) => Some((n, show_ts(t))),
                };
                if r.is_some() != any_pending {
                    fail = Some("take-mismatch".into());
                }
                match r {
                    None => "-".into(),
                    Some((n, t)) => {
                        if w.env.traps.get_state(n).0.is_none_or(|t| t.pending) {
                            fail = Some("take-left-pending".into());
                        }
                        format!("{}:{}", name_of(n), t)
                    }
                }
            }
            ["takeif", s] => {
                let Some(n) = sig_of(s) else { return bad() };
                let was = w.env.traps.get_state(n).0.is_some_and(|t| t.pending);
                let r = w.env.traps.take_signal_if_caught(n).map(show_ts);
                if r.is_some() != was || w.env.traps.get_state(n).0.is_some_and(|t| t.pending) {
                    fail = Some(format!("takeif-mismatch:{s}"));
                }
                r.unwrap_or_else(|| "-".into())
            }
            ["deliver", s] => {
                let Some(n) = sig_of(s) else { return bad() };
                // KILL and STOP always take their default effect on the process: not deliverable here
                if n == SIGKILL || n == SIGSTOP {
                    return bad();
                }
                match w.disp(n) {
                    Disposition::Default => "dfl".into(),
                    d => {
                        let _ = w.vs.current_process_mut().raise_signal(n);
                        let got = w.env.poll_signals();
                        let r = match &got {
                            None => "none".to_string(),
                            Some(list) => {
                                let names: Vec<String> = list.iter().map(|n| name_of(*n)).collect();
                                format!("caught:{}", names.join("+"))
                            }
                        };
                        // a delivery of a trapped signal must be seen at once by the next poll
                        if d == Disposition::Catch {
                            if !got.as_ref().is_some_and(|g| g.contains(&n)) {
                                fail = Some(format!("delivery-lost:{s}"));
                            } else if !w.env.traps.get_state(n).0.is_some_and(|t| t.pending) {
                                fail = Some(format!("delivery-not-pending:{s}"));
                            }
                        } else if got.is_some() {
                            fail = Some(format!("ignored-signal-caught:{s}"));
                        }
                        if w.vs.current_process().pending_signals().contains(n) == Ok(true) {
                            fail = Some(format!("signal-left-pending-in-process:{s}"));
                        }
                        r
                    }
                }
            }
            ["tr", a, cs] => {
                // the real `trap` built-in on this environment: `trap ACTION COND…`
                let names: Vec<&str> = cs.split(',').collect();
                if names.iter().any(|n| cond_of(n).is_none()) {
                    return bad();
                }
                let (text, want_action) = match a.split_at(1) {
                    ("d", "") => ("-".to_string(), Action::Default),
                    ("i", "") => (String::new(), Action::Ignore),
                    ("c", n) if n.parse::<u64>().is_ok() => {
                        let tail = match n.parse::<u64>().unwrap() / 1000 {
                            1 => "return 3",
                            2 => "exit 4",
                            3 => "false",
                            4 => ": ${U?}",
                            _ => "st 7",
                        };
                        let t = format!("probe {n}; {tail}");
                        (t.clone(), Action::Command(t.into()))
                    }
                    _ => return bad(),
                };
                use yash_env::semantics::Field;
                let mut fields = vec![Field { value: text, origin: Location::dummy(k.to_string()) }];
                for n in &names {
                    fields.push(Field { value: n.to_string(), origin: Location::dummy(k.to_string()) });
                }
                // (an entry that a subshell entry turned into `{Ignore, Inherited}` is refused like one
                //  ignored on entry: the observation recorded in notes/C11.md)
                let inherited_ignore: Vec<bool> = names
                    .iter()
                    .map(|n| {
                        w.env.traps.get_state(cond_of(n).unwrap()).0.is_some_and(|t| t.action == Action::Ignore && t.origin == Origin::Inherited)
                    })
                    .collect();
                let res = yash_builtin::trap::main(&mut w.env, fields).now_or_never();
                let Some(res) = res else { return ("TIMEOUT(trap)".into(), "FAIL:timeout".into(), String::new()) };
                // per condition of the command: ignored on entry (and never overridden) -> untouched;
                // every other listed condition -> the action (KILL/STOP make the command fail: not judged)
                let has_ks = names.iter().any(|n| *n == "KILL" || *n == "STOP");
                if !has_ks {
                    for (i, n) in names.iter().enumerate() {
                        let cond = cond_of(n).unwrap();
                        let sticky = inherited_ignore[i]
                            || match cond {
                                Condition::Signal(sn) => l.ignored_on_entry.contains(&sn) && !l.overridden.contains(&sn),
                                _ => false,
                            };
                        let cur = w.env.traps.get_state(cond).0;
                        let ok = if sticky {
                            cur.is_some_and(|t| t.action == Action::Ignore && t.origin == Origin::Inherited)
                        } else {
                            cur.is_some_and(|t| t.action == want_action && matches!(&t.origin, Origin::User(_)))
                        };
                        if !ok {
                            fail = Some(format!("trap-skipped-condition:{n}"));
                        }
                    }
                    if res.exit_status() != ExitStatus(0) {
                        fail = Some("trap-command-failed".into());
                    }
                }
                format!("st{}", res.exit_status().0)
            }
            ["blk", b] => {
                // batches `A+B/C+INT`: the last one, and only it, contains INT
                let mut batches: Vec<Vec<Number>> = vec![];
                for part in b.split('/') {
                    let mut v = vec![];
                    for s in part.split('+') {
                        let Some(n) = sig_of(s) else { return bad() };
                        if n == SIGKILL || n == SIGSTOP {
                            return bad();
                        }
                        v.push(n);
                    }
                    batches.push(v);
                }
                let last_ok = batches.last().is_some_and(|v| v.contains(&SIGINT));
                if !last_ok || batches[..batches.len() - 1].iter().any(|v| v.contains(&SIGINT)) {
                    return bad();
                }
                let int_default = w.env.traps.get_state(SIGINT).0.is_none_or(|t| t.action == Action::Default);
                if w.disp(SIGINT) != Disposition::Catch || !int_default {
                    "n/a".to_string()
                } else {
                    use std::future::Future as _;
                    use yash_env::option::Option::Interactive;
                    use yash_env::option::State::{Off, On};
                    use yash_env::system::concurrency::Select as _;
                    use yash_semantics::command::Command as _;
                    w.env.options.set(Interactive, On);
                    w.env.builtins.insert(
                        "block",
                        yash_env::builtin::Builtin::new(yash_env::builtin::Type::Mandatory, |_env, _args| {
                            Box::pin(std::future::pending())
                        }),
                    );
                    let command: yash_syntax::syntax::SimpleCommand = "block".parse().unwrap();
                    let vs = w.vs.clone();
                    let mut sent: Vec<Number> = vec![];
                    let res = {
                        let mut fut = Box::pin(command.execute(&mut w.env));
                        let waker = std::task::Waker::noop();
                        let mut cx = std::task::Context::from_waker(waker);
                        let mut res = None;
                        if let std::task::Poll::Ready(r) = fut.as_mut().poll(&mut cx) {
                            res = Some(r);
                        }
                        for batch in &batches {
                            if res.is_some() {
                                break;
                            }
                            for n in batch {
                                // a signal with the default action would end the process: not sent
                                let d = vs.current_process().disposition(*n);
                                if d != Disposition::Default {
                                    let _ = vs.current_process_mut().raise_signal(*n);
                                    if d == Disposition::Catch {
                                        sent.push(*n);
                                    }
                                }
                            }
                            // the shell's select loop notices everything that is pending, in one batch
                            system.peek();
                            if let std::task::Poll::Ready(r) = fut.as_mut().poll(&mut cx) {
                                res = Some(r);
                            }
                        }
                        res
                    };
                    w.env.options.set(Interactive, Off);
                    // no caught signal may be dropped when the built-in is interrupted
                    for n in &sent {
                        if !w.env.traps.get_state(*n).0.is_some_and(|t| t.pending) {
                            fail = Some(format!("signal-dropped-by-interrupted-builtin:{}", name_of(*n)));
                        }
                    }
                    use std::ops::ControlFlow::Break;
                    use yash_env::semantics::Divert;
                    match res {
                        Some(Break(Divert::Interrupt(Some(st)))) => format!("int{}", st.0),
                        Some(_) => "other".to_string(),
                        None => "hang".to_string(),
                    }
                }
            }
            ["run", e] | ["irun", _, e] | ["frun", _, e] => {
                let Ok(e) = e.parse::<i32>() else { return bad() };
                let mut raised: Option<Number> = None;
                // `frun FRAMES N`: the frames are pushed on `env.stack` (outermost first) around the call
                let mut frames: Vec<yash_env::stack::Frame> = vec![];
                if let ["frun", fr, _] = ws.as_slice() {
                    use yash_env::stack::Frame;
                    if *fr != "-" {
                        for f in fr.split('.') {
                            frames.push(match f {
                                "L" => Frame::Loop,
                                "S" => Frame::Subshell,
                                "C" => Frame::Condition,
                                "D" => Frame::DotScript,
                                "I" => Frame::InitFile,
                                "B" => Frame::Builtin(yash_env::stack::Builtin { name: yash_env::semantics::Field::dummy("eval"), is_special: true }),
                                t if t.starts_with('T') => match cond_of(&t[1..]) {
                                    Some(c) => Frame::Trap(c),
                                    None => return bad(),
                                },
                                _ => return bad(),
                            });
                        }
                    }
                }
                // is a signal trap action running in this shell process?  (outermost frame first: a
                // `Subshell` frame starts a new process, a signal trap frame is remembered)
                let in_trap = frames.iter().fold(false, |acc, f| match f {
                    yash_env::stack::Frame::Subshell => false,
                    yash_env::stack::Frame::Trap(Condition::Signal(_)) => true,
                    _ => acc,
                });
                if let ["irun", sname, _] = ws.as_slice() {
                    // send the signal first (unless that would kill the process); the runner polls itself
                    let Some(n) = sig_of(sname) else { return bad() };
                    if n == SIGKILL || n == SIGSTOP {
                        return bad();
                    }
                    if w.disp(n) != Disposition::Default {
                        let _ = w.vs.current_process_mut().raise_signal(n);
                        if w.disp(n) == Disposition::Catch {
                            raised = Some(n);
                        }
                    }
                }
                // which command traps are pending now (read through the public view)
                let due: Vec<String> = CONDS
                    .iter()
                    .filter_map(|c| c.1)
                    .filter_map(|n| match w.env.traps.get_state(n).0 {
                        Some(TrapState { action: Action::Command(_), pending: true, .. }) => Some(name_of(n)),
                        // the signal just sent is due as well (it will be collected by the runner's poll)
                        Some(TrapState { action: Action::Command(_), .. }) if raised == Some(n) => Some(name_of(n)),
                        _ => None,
                    })
                    .collect();
                w.env.exit_status = ExitStatus(e);
                let from = w.stdout_len();
                fn with_frames<R>(env: &mut VEnv, frames: &[yash_env::stack::Frame], f: &mut dyn FnMut(&mut VEnv) -> R) -> R {
                    match frames.split_first() {
                        None => f(env),
                        Some((fr, rest)) => {
                            let mut g = env.push_frame(fr.clone());
                            with_frames(&mut g, rest, f)
                        }
                    }
                }
                let depth = w.env.stack.len();
                let res = with_frames(&mut w.env, &frames, &mut |env| yash_semantics::trap::run_traps_for_caught_signals(env).now_or_never());
                let Some(res) = res else {
                    return ("TIMEOUT(run_traps)".into(), "FAIL:timeout".into(), String::new());
                };
                if w.env.stack.len() != depth {
                    fail = Some("stack-not-restored".into());
                }
                use std::ops::ControlFlow::{Break, Continue};
                use yash_env::semantics::Divert;
                let div = match res {
                    Continue(()) => "-".to_string(),
                    Break(Divert::Return(s)) => format!("ret{}", s.map(|s| s.0).unwrap_or(-1)),
                    Break(Divert::Exit(s)) => format!("exit{}", s.map(|s| s.0).unwrap_or(-1)),
                    Break(Divert::Interrupt(s)) => format!("int{}", s.map(|s| s.0).unwrap_or(-1)),
                    Break(_) => "other".to_string(),
                };
                let out = w.stdout_from(from);
                // every body is `probe <c>; st 7`: one line `<$? on entry>:<hex c>` per run
                let mut runs: Vec<String> = vec![];
                let mut ran: Vec<String> = vec![];
                let traps_now: Vec<(String, String)> = CONDS
                    .iter()
                    .filter_map(|c| c.1)
                    .filter_map(|n| match w.env.traps.get_state(n).0 {
                        Some(TrapState { action: Action::Command(c), .. }) => Some((
                            name_of(n),
                            c.strip_prefix("probe ").and_then(|r| r.split(';').next()).unwrap_or("?").to_string(),
                        )),
                        _ => None,
                    })
                    .collect();
                let mut due_left = due.clone();
                for line in out.lines() {
                    let (st, hex) = line.split_once(':').unwrap_or(("?", "?"));
                    let c = yverif::proto::dec_str(hex).unwrap_or_else(|| "?".into());
                    // attribute the run to the first still-due signal with that command text
                    let who = due_left
                        .iter()
                        .position(|s| traps_now.iter().any(|(n, cc)| n == s && *cc == c))
                        .map(|i| due_left.remove(i))
                        .unwrap_or_else(|| "?".into());
                    ran.push(who.clone());
                    runs.push(format!("{who}:{c}@{st}"));
                    if st != e.to_string() {
                        fail = Some("trap-saw-wrong-status".into());
                    }
                }
                // every delivered trapped signal's action runs exactly once: what ran now followed by
                // what is still due is exactly what was due, whatever the actions ended in
                let still_due: Vec<String> = CONDS
                    .iter()
                    .filter_map(|c| c.1)
                    .filter_map(|n| match w.env.traps.get_state(n).0 {
                        Some(TrapState { action: Action::Command(_), pending: true, .. }) => Some(name_of(n)),
                        _ => None,
                    })
                    .collect();
                let mut total = ran.clone();
                total.extend(still_due.iter().cloned());
                if total != due {
                    fail = Some(format!("runs:{}:left:{}:due:{}", ran.join("+"), still_due.join("+"), due.join("+")));
                } else if in_trap {
                    // no trap action while another is running in this process: nothing runs, nothing is lost
                    if !ran.is_empty() || div != "-" {
                        fail = Some(format!("ran-inside-trap:{}", ran.join("+")));
                    }
                } else if div == "-" && !still_due.is_empty() {
                    fail = Some(format!("left-pending:{}", still_due.join("+")));
                }
                // `$?` is preserved, except that an error that interrupts an action leaves its own status
                let errored = runs.last().is_some_and(|r| r.contains(":400"));
                let want = if errored { 2 } else { e };
                if w.env.exit_status != ExitStatus(want) {
                    fail = Some(if errored { "error-status-lost".into() } else { "exit-status-not-preserved".into() });
                }
                if errored && div != "int2" {
                    fail = Some("error-status-lost".into());
                }
                if let ["frun", ..] = ws.as_slice() {
                    format!("runs={};exit={};div={};intrap={}", runs.join(","), w.env.exit_status.0, div, in_trap as u8)
                } else {
                    format!("runs={};exit={};div={}", runs.join(","), w.env.exit_status.0, div)
                }
            }
            _ => return bad(),
        };
        if verdict.is_none() {
            if let Some(f) = fail {
                verdict = Some(format!("FAIL:{f}@{k}"));
            } else if let Err(e) = oracle_state(&w, &l) {
                verdict = Some(format!("FAIL:{e}@{k}"));
            }
        }
        let nv = w.views();
        let mut line = vec![format!("r={r}")];
        for (i, (name, _)) in CONDS.iter().enumerate() {
            if nv[i] != views[i] {
                line.push(format!("{name}={}", nv[i]));
            }
        }
        views = nv;
        obs.push(line.join(" "));
    }
    let need: Vec<String> = l.need.iter().map(|(n, d)| format!("{}{}", name_of(*n), show_disp(*d))).collect();
    let key = format!("{} need={}", views.join(" "), need.join(","));
    (obs.join(" | "), verdict.unwrap_or_else(|| "ok".into()), key)
}

fn bit(s: &str) -> Option<bool> {
    match s {
        "0" => Some(false),
        "1" => Some(true),
        _ => None,
    }
}

// ------------------------------------------------------------------------------------------
// script level: a signal at every command boundary

/// `rs N [SIG…]`: sends the signals (default USR1) to the shell process itself, all before the next
/// command boundary, and returns exit status N.
fn rs_main(env: &mut VEnv, args: Vec<yash_env::semantics::Field>) -> shell::BuiltinFuture<'_> {
    let n: i32 = args.first().and_then(|f| f.value.parse().ok()).unwrap_or(0);
    let mut sigs: Vec<Number> = args.iter().skip(1).filter_map(|f| sig_of(&f.value)).collect();
    if sigs.is_empty() {
        sigs.push(SIGUSR1);
    }
    Box::pin(async move {
        for s in sigs {
            env.system.raise(s).await.ok();
        }
        ExitStatus(n).into()
    })
}

/// `script <k> <m> <shape> <s1> … <sn>`: `trap 'probe T; st 9' USR1`, then the 2n commands
/// `st s1; probe 1; …` laid out in `shape`, with the signal sent before the k-th of them
/// (m = 0: `kill -s USR1 $$`, m > 0: `rs m`, which leaves `$?` = m).
fn run_script_case(ws: &[&str]) -> (String, String) {
    let nums: Option<Vec<usize>> = ws.iter().map(|w| w.parse().ok()).collect();
    let Some(nums) = nums else { return ("bad-case".into(), "-".into()) };
    if nums.len() < 3 || nums[2] > 6 {
        return ("bad-case".into(), "-".into());
    }
    let (k, m, shape) = (nums[0], nums[1], nums[2]);
    let sts = &nums[3..];
    let mut cmds: Vec<String> = vec![];
    for (i, s) in sts.iter().enumerate() {
        cmds.push(format!("st {s}"));
        cmds.push(format!("probe {}", i + 1));
    }
    let injected = k <= cmds.len();
    if injected {
        cmds.insert(k, if m == 0 { "kill -s USR1 $$".to_string() } else { format!("rs {m}") });
    }
    let body = match shape {
        0 => cmds.join("\n"),
        1 => cmds.join("; "),
        2 => format!("{{ {}; }}", cmds.join("; ")),
        3 => format!("if st 0; then {}; fi", cmds.join("; ")),
        4 => format!("for i in 1; do {}; done", cmds.join("; ")),
        5 => format!("f() {{ {}; }}\nf", cmds.join("; ")),
        _ => format!("eval '{}'", cmds.join("; ")),
    };
    if cmds.is_empty() {
        return ("bad-case".into(), "-".into());
    }
    let script = format!("trap 'probe T; st 9' USR1\n{body}\n");
    let (o, _) = shell::run_with(
        shell::Config::new(&script),
        |env, _| {
            env.builtins.insert("rs", yash_env::builtin::Builtin::new(yash_env::builtin::Type::Mandatory, rs_main));
        },
        |_, _| (),
    );
    let out = o.stdout_str();
    let trace: Vec<&str> = out.lines().collect();
    let obs = format!("trace={} exit={}", trace.join(","), o.exit_status);
    // the statement evaluated directly: the action runs exactly once, at the boundary right after
    // the command that sent the signal, sees that command's `$?`, and `$?` is the same afterwards
    let t = format!(":{}", enc_str("T"));
    let n_t = trace.iter().filter(|l| l.ends_with(&t)).count();
    let probes_before = k / 2; // probes among the first k commands (odd positions)
    let oracle = if o.stuck {
        "FAIL:stuck".to_string()
    } else if !injected {
        if n_t == 0 { "ok".into() } else { "FAIL:trap-ran-without-signal".into() }
    } else if n_t != 1 {
        format!("FAIL:trap-ran-{n_t}-times")
    } else if trace.get(probes_before).is_none_or(|l| !l.ends_with(&t)) {
        "FAIL:trap-ran-at-wrong-boundary".into()
    } else if trace[probes_before] != format!("{m}{t}") {
        "FAIL:trap-saw-wrong-status".into()
    } else if k % 2 == 1 && trace.get(probes_before + 1).is_none_or(|l| !l.starts_with(&format!("{m}:"))) {
        "FAIL:status-not-preserved".into()
    } else if k == 2 * sts.len() && o.exit_status != m as i32 {
        "FAIL:final-status-not-preserved".into()
    } else {
        "ok".into()
    };
    (obs, oracle)
}

/// `multi <layout> <mode> <second> SIG:K SIG:K [SIG:K]` (see Main.lean): several trapped signals
/// pending at the same command boundary, actions that return / exit / fail / redefine the trap.
fn run_multi_case(ws: &[&str]) -> (String, String) {
    let bad = || ("bad-case".to_string(), "-".to_string());
    if ws.len() < 4 {
        return bad();
    }
    let (Ok(layout), Ok(mode), Ok(second)) = (ws[0].parse::<usize>(), ws[1].parse::<usize>(), ws[2].parse::<usize>()) else {
        return bad();
    };
    if layout > 2 || mode > 1 || second > 1 {
        return bad();
    }
    let mut sks: Vec<(&str, Number, &str)> = vec![];
    for w in &ws[3..] {
        let Some((s, k)) = w.split_once(':') else { return bad() };
        let Some(n) = sig_of(s) else { return bad() };
        if !["P", "R", "E", "F", "N", "I", "Q", "B"].contains(&k) {
            return bad();
        }
        sks.push((s, n, k));
    }
    let mut script = String::new();
    for (name, n, k) in &sks {
        let tag = n.as_raw() + 200;
        let act = match *k {
            "P" => format!("probe {tag}"),
            "R" => format!("probe {tag}; return 3"),
            "E" => format!("probe {tag}; exit 4"),
            "F" => format!("probe {tag}; false"),
            "I" => format!("probe {tag}; : ${{U?}}"),
            // `$?` changed by the action, then a divert without a status: the caller's `$?` comes back
            "Q" => format!("probe {tag}; false; return"),
            "B" => format!("probe {tag}; ! :; return"),
            _ => format!("probe {tag}; trap \"probe {}\" {name}", tag + 500),
        };
        script.push_str(&format!("trap '{act}' {name}\n"));
    }
    let names: Vec<&str> = sks.iter().map(|x| x.0).collect();
    let raise1 = if mode == 0 {
        format!("rs 6 {}", names.join(" "))
    } else {
        let kills: Vec<String> = names.iter().map(|n| format!("kill -s {n} $$")).collect();
        format!("({})", kills.join("; "))
    };
    let body: Vec<String> = if layout == 2 {
        vec!["probe 1".into(), format!("{{ {raise1}; probe 2; }}"), "st 5".into(), "probe 3".into()]
    } else {
        vec!["probe 1".into(), raise1.clone(), "probe 2".into(), "st 5".into(), "probe 3".into()]
    };
    let file = format!("{}\n", body.join("\n"));
    if layout == 1 {
        script.push_str(". /f.sh\n");
    } else {
        script.push_str(&format!("f() {{ {}; }}\nf\n", body.join("; ")));
    }
    script.push_str("probe 4\n");
    if second == 1 {
        script.push_str(&format!("rs 2 {}\n", names.join(" ")));
    }
    script.push_str("probe 5\nprobe 6\n");
    let (o, _) = shell::run_with(
        shell::Config::new(&script),
        move |env, state| {
            env.builtins.insert("rs", yash_env::builtin::Builtin::new(yash_env::builtin::Type::Mandatory, rs_main));
            shell::write_file(state, "/f.sh", file.as_bytes());
        },
        |_, _| (),
    );
    let out = o.stdout_str();
    let trace: Vec<&str> = out.lines().collect();
    let obs = format!("trace={} exit={}", trace.join(","), o.exit_status);
    // The statement evaluated directly: every delivered trapped signal's action runs exactly once,
    // unless the shell ended first (then at most once).
    let has = |n: u32| trace.iter().any(|l| l.ends_with(&format!(":{}", enc_str(&n.to_string()))));
    let finished = has(6);
    let reached_second = second == 1 && has(4) && (has(5) || !finished);
    let mut oracle = "ok".to_string();
    if o.stuck {
        oracle = "FAIL:stuck".into();
    }
    for (name, n, k) in &sks {
        let tag = (n.as_raw() + 200) as u32;
        let old = trace.iter().filter(|l| l.ends_with(&format!(":{}", enc_str(&tag.to_string())))).count();
        let new = trace.iter().filter(|l| l.ends_with(&format!(":{}", enc_str(&(tag + 500).to_string())))).count();
        let deliveries = 1 + second;
        if finished {
            if old + new != deliveries {
                oracle = format!("FAIL:{name}:delivered-{deliveries}-ran-{}", old + new);
            }
        } else if old + new > if reached_second { deliveries } else { 1 } {
            oracle = format!("FAIL:{name}:ran-{}-times", old + new);
        }
        // an error that interrupts an action ends the shell with the error's own status (2), unless a
        // later action exits explicitly
        if *k == "I" {
            let hex = format!(":{}", enc_str(&tag.to_string()));
            if let Some(pos) = trace.iter().position(|l| l.ends_with(&hex)) {
                let _ = pos;
                let exit_later = sks.iter().any(|(_, n2, k2)| {
                    *k2 == "E" && trace.iter().any(|l| l.ends_with(&format!(":{}", enc_str(&(n2.as_raw() + 200).to_string()))))
                });
                if !exit_later && o.exit_status != 2 {
                    oracle = format!("FAIL:{name}:error-status-lost:exit={}", o.exit_status);
                }
            }
        }
        if *k == "N" && (old > 1 || new > second) || *k != "N" && new > 0 {
            oracle = format!("FAIL:{name}:redefinition");
        }
    }
    (obs, oracle)
}

// ------------------------------------------------------------------------------------------

// ------------------------------------------------------------------------------------------
// `tb`: the trap built-in in all its forms, kill under every disposition, subshells, wait, EXIT

fn tb_action(a: &str) -> Option<String> {
    let (k, n) = a.split_at(1);
    match k {
        "-" if n.is_empty() => Some("-".into()),
        "E" if n.is_empty() => Some("''".into()),
        "c" if n.parse::<u32>().is_ok() => Some(format!("'probe {n}'")),
        "k" if n.parse::<u32>().is_ok() => Some(format!("'probe {n}; kill -s USR2 $$'")),
        // `rSIG.N`: an action that delivers its OWN signal again while it runs — once: it first
        // replaces itself by `probe N+500`
        "r" => {
            let (s, n) = n.split_once('.')?;
            any_sig_of(s)?;
            let n: u32 = n.parse().ok().filter(|n| *n < 500)?;
            Some(format!("'probe {n}; trap \"probe {}\" {s}; kill -s {s} $$'", n + 500))
        }
        _ => None,
    }
}

/// operands are passed through as written (names, numbers, unknown words), but nothing that the
/// shell would treat specially
fn tb_operands(ops: &[&str]) -> Option<String> {
    if ops.iter().all(|o| o.chars().all(|c| c.is_ascii_alphanumeric() || c == '+' || c == '-')) {
        Some(ops.join(" "))
    } else {
        None
    }
}

fn tb_simple(ws: &[&str]) -> Option<String> {
    Some(match ws {
        // a re-sending action is set for the signal it names, and only for it
        ["T", a, ops @ ..] if a.starts_with('r') && (ops.len() != 1 || a[1..].split_once('.').map(|x| x.0) != Some(ops[0])) => return None,
        ["T", a, ops @ ..] => format!("trap {} {}", tb_action(a)?, tb_operands(ops)?).trim_end().to_string(),
        ["TN", ops @ ..] => format!("trap {}", tb_operands(ops)?).trim_end().to_string(),
        ["TX"] => "trap -z INT".into(),
        ["P"] => "trap".into(),
        ["PP"] => "trap -p".into(),
        ["PC", ops @ ..] => format!("trap -p {}", tb_operands(ops)?).trim_end().to_string(),
        ["R", n] => format!("probe {}", n.parse::<u32>().ok()?),
        ["S", n] => format!("st {}", n.parse::<u32>().ok()?),
        ["X", n] => format!("exit {}", n.parse::<u32>().ok()?),
        _ => return None,
    })
}

fn tb_inner(ws: &[&str]) -> Option<Vec<String>> {
    ws.join(" ")
        .split(',')
        .map(|p| {
            let w: Vec<&str> = p.split_whitespace().collect();
            // a body that signals `$$` from inside a subshell would reach the parent: not in the language
            if w.first() == Some(&"T") && w.get(1).is_some_and(|a| a.starts_with('k') || a.starts_with('r')) {
                return None;
            }
            tb_simple(&w)
        })
        .collect()
}

fn tb_stmt(ws: &[&str]) -> Option<String> {
    Some(match ws {
        ["K", s] => format!("kill -s {} $$", any_sig_of(s).map(|_| s)?),
        ["sub", inner @ ..] => format!("( {} )", tb_inner(inner)?.join("; ")),
        ["cs", inner @ ..] => format!("x=$( {} ); echo \"$x\"", tb_inner(inner)?.join("; ")),
        ["bg", inner @ ..] => format!("{{ {}; }} & wait $!", tb_inner(inner)?.join("; ")),
        ["W", sigs @ ..] => {
            let mut v: Vec<String> = vec![];
            for s in sigs {
                any_sig_of(s)?;
                v.push(format!("kill -s {s} $$"));
            }
            v.push("st 3".into());
            format!("( {} ) & wait $!", v.join("; "))
        }
        _ => tb_simple(ws)?,
    })
}

fn tb_canon(line: &str) -> String {
    if line.is_empty() {
        return "-".into();
    }
    let Some(rest) = line.strip_prefix("trap -- ") else { return line.to_string() };
    let Some((act, cond)) = rest.rsplit_once(' ') else { return enc_str(line) };
    let a = if act == "-" {
        "-".to_string()
    } else if act == "''" {
        "E".to_string()
    } else if let Some(n) = act.strip_prefix("'probe ").and_then(|r| r.strip_suffix("; kill -s USR2 $$'")) {
        format!("k{n}")
    } else if let Some((n, sig)) = act
        .strip_prefix("'probe ")
        .and_then(|r| r.strip_suffix(" $$'"))
        .and_then(|r| r.split_once("; trap \"probe "))
        .and_then(|(n, rest)| rest.rsplit_once("; kill -s ").map(|(_, sig)| (n, sig)))
    {
        format!("r{sig}.{n}")
    } else if let Some(n) = act.strip_prefix("'probe ").and_then(|r| r.strip_suffix('\'')) {
        format!("c{n}")
    } else {
        enc_str(act)
    };
    format!("T:{a}:{cond}")
}

fn run_tb_case(case: &str) -> (String, String) {
    let bad = || ("bad-case".to_string(), "-".to_string());
    let mut parts: Vec<Vec<&str>> = case
        .split(';')
        .map(|s| s.split_whitespace().collect::<Vec<_>>())
        .filter(|v| !v.is_empty())
        .collect();
    // `tbi …`: the same script in a shell started with the `interactive` option on (and `monitor` off)
    let interactive = parts.first().and_then(|p| p.first()) == Some(&"tbi");
    if parts.first().and_then(|p| p.first()).is_some_and(|w| *w == "tb" || *w == "tbi") {
        parts[0].remove(0);
        if parts[0].is_empty() {
            parts.remove(0);
        }
    }
    let mut ign: Vec<Number> = vec![];
    if parts.first().and_then(|p| p.first()) == Some(&"ign") {
        ign = parts[0][1..].iter().filter_map(|s| any_sig_of(s)).collect();
        parts.remove(0);
    }
    // `W` leaves a child running when a trap interrupts the wait: it must be the last statement that
    // creates a child, and SIGCHLD must not be named in such a case
    if let Some(i) = parts.iter().position(|p| p.first() == Some(&"W")) {
        let child = |p: &Vec<&str>| matches!(p.first(), Some(&"sub") | Some(&"cs") | Some(&"bg") | Some(&"W"));
        if parts[i + 1..].iter().any(child) || parts.iter().flatten().any(|w| *w == "CHLD" || *w == "102") {
            return bad();
        }
    }
    let mut script = String::new();
    for p in &parts {
        let Some(t) = tb_stmt(p) else { return bad() };
        script.push_str(&t);
        script.push('\n');
    }
    let ign_set: Vec<Number> = ign.clone();
    let cell: Rc<std::cell::RefCell<Option<(Rc<std::cell::RefCell<yash_env::system::r#virtual::SystemState>>, yash_env::job::Pid)>>> =
        Rc::new(std::cell::RefCell::new(None));
    let cell2 = Rc::clone(&cell);
    let (o, _) = shell::run_with(
        shell::Config::new(&script),
        move |env, state| {
            env.builtins.insert("rs", yash_env::builtin::Builtin::new(yash_env::builtin::Type::Mandatory, rs_main));
            let mut st = state.borrow_mut();
            let p = st.processes.get_mut(&env.main_pid).unwrap();
            for n in &ign {
                p.set_disposition(*n, Disposition::Ignore);
            }
            drop(st);
            if interactive {
                // what `yash_cli::startup::configure_environment` does for `-i` (with `monitor` off), done
                // here because the dispositions inherited by the process must be in place first: the option,
                // then the internal dispositions of the terminators
                use yash_env::option::{Option as O, State as St};
                env.options.set(O::Interactive, St::On);
                let system = Rc::clone(&env.system);
                let _ = env.traps.enable_internal_dispositions_for_terminators(&system).now_or_never();
            }
            *cell2.borrow_mut() = Some((Rc::clone(state), env.main_pid));
        },
        |_, _| (),
    );
    use yash_env::job::{ProcessResult, ProcessState};
    let pstate = cell.borrow().as_ref().map(|(st, pid)| st.borrow().processes[pid].state());
    let end = match pstate {
        Some(ProcessState::Halted(ProcessResult::Signaled { signal, .. })) => format!("sig{}", signal.as_raw()),
        Some(ProcessState::Halted(ProcessResult::Stopped(signal))) => format!("stop{}", signal.as_raw()),
        _ if !o.stuck => "exit".to_string(),
        _ => "stuck".to_string(),
    };
    let out = o.stdout_str();
    let lines: Vec<String> = out.lines().map(tb_canon).collect();
    let obs = format!("out={} end={} exit={}", lines.join(","), end, if end == "exit" { o.exit_status } else { -1 });
    // Rust-side oracle: the run must end (by itself or by a signal); a line that is neither a probe
    // line nor a `trap --` line must not appear; and a shell ended by a signal prints nothing more.
    let mut oracle = "ok".to_string();
    if end == "stuck" {
        oracle = "FAIL:stuck".into();
    }
    // `T a OPS; PC OPS; R 77` (all operands valid, no KILL/STOP): right before the sentinel line, `trap -p`
    // must print, per operand, `''` for a signal ignored on entry and the action for every other one
    for i in 0..parts.len().saturating_sub(2) {
        if let (["T", a, ops @ ..], ["PC", ops2 @ ..], ["R", "77"]) =
            (parts[i].as_slice(), parts[i + 1].as_slice(), parts[i + 2].as_slice())
        {
            use yash_env::system::Signals as _;
            let sys = VirtualSystem::new();
            let conds: Option<Vec<Condition>> = ops
                .iter()
                .map(|o| match o.parse::<i32>() {
                    Ok(0) => Some(Condition::Exit),
                    Ok(n) => sys.to_signal_number(n).map(Condition::Signal),
                    Err(_) if *o == "EXIT" => Some(Condition::Exit),
                    Err(_) => sys.str2sig(o).map(Condition::Signal),
                })
                .collect();
            let Some(conds) = conds else { continue };
            if ops != ops2 || ops.is_empty() || conds.iter().any(|c| matches!(c, Condition::Signal(n) if *n == SIGKILL || *n == SIGSTOP)) {
                continue;
            }
            let a_canon = if *a == "E" || *a == "-" { a.to_string() } else { a.to_string() };
            let want: Vec<String> = conds
                .iter()
                .map(|c| {
                    // "in a NON-interactive shell a signal ignored on entry can be neither trapped nor reset"
                    let ignored = !interactive && matches!(c, Condition::Signal(n) if ign_set.contains(n));
                    format!("T:{}:{}", if ignored { "E" } else { a_canon.as_str() }, c.to_string(&sys))
                })
                .collect();
            let sentinel = format!(":{}", enc_str("77"));
            if let Some(pos) = lines.iter().position(|l| l.ends_with(&sentinel) && !l.starts_with("T:")) {
                let got: Vec<String> = lines[pos.saturating_sub(want.len())..pos].to_vec();
                if got != want {
                    oracle = format!("FAIL:trap-command-skipped-a-condition:want={}:got={}", want.join("+"), got.join("+"));
                }
            } else if end == "exit" {
                oracle = "FAIL:sentinel-missing".into();
            }
        }
    }
    // `T rSIG.N SIG`: the action delivers SIG again while it runs.  Every delivery of a trapped signal runs
    // its action exactly once, also one that arrives while an action is running: if the first action ran
    // (line N) and the script went on to a later sentinel `R n` statement, the action in force for the second
    // delivery (`probe N+500`) must have run in between — wherever the first ran (boundary or `wait`) —
    // and neither may run more often than signals were delivered.
    for (i, p) in parts.iter().enumerate() {
        let ["T", a, sig] = p.as_slice() else { continue };
        let Some((s, n)) = a.strip_prefix('r').and_then(|r| r.split_once('.')) else { continue };
        let Ok(n) = n.parse::<u32>() else { continue };
        if s != *sig || parts[i + 1..].iter().any(|q| q.first() == Some(&"T") && q[1..].iter().any(|w| w == sig || *w == "0" || *w == "EXIT"))
            || parts.iter().any(|q| matches!(q.first(), Some(&"X") | Some(&"TX")))
            || parts.iter().filter(|q| q.first() == Some(&"T") && q.get(1).is_some_and(|x| x.starts_with('r'))).count() != 1
        {
            continue;
        }
        let line_of = |n: u32| format!(":{}", enc_str(&n.to_string()));
        let first = lines.iter().position(|l| !l.starts_with("T:") && l.ends_with(&line_of(n)));
        let sentinels: Vec<String> = parts[i + 1..]
            .iter()
            .filter_map(|q| match q.as_slice() {
                ["R", m] => Some(line_of(m.parse().unwrap_or(0))),
                _ => None,
            })
            .collect();
        if let Some(f) = first {
            let later_sentinel = lines[f + 1..].iter().rposition(|l| !l.starts_with("T:") && sentinels.iter().any(|x| l.ends_with(x)));
            if let Some(e) = later_sentinel {
                let second = lines[f + 1..f + 1 + e].iter().filter(|l| !l.starts_with("T:") && l.ends_with(&line_of(n + 500))).count();
                if second == 0 {
                    oracle = format!("FAIL:{sig}:delivered-during-action-1-ran-0");
                }
            }
            let sent = parts.iter().map(|q| match q.first() {
                Some(&"K") | Some(&"W") => q[1..].iter().filter(|w| *w == sig).count(),
                _ => 0,
            }).sum::<usize>();
            let ran = lines.iter().filter(|l| !l.starts_with("T:") && (l.ends_with(&line_of(n)) || l.ends_with(&line_of(n + 500)))).count();
            if ran > sent + 1 {
                oracle = format!("FAIL:{sig}:delivered-{}-ran-{ran}", sent + 1);
            }
        }
    }
    // `bg PC INT QUIT , R 78 …`: POSIX 2.11 — without job control the commands of an asynchronous list inherit
    // SIGINT and SIGQUIT ignored, whatever the shell did with its traps before (`trap - INT`, `trap -p`, plain
    // `trap`, nothing at all).  `trap -p INT QUIT` inside the list must print `''` for both, right before the
    // sentinel.  (Skipped if a command trap was set on one of them: `trap -p` in a subshell that has not changed
    // its traps prints the traps of the parent.)
    for (i, p) in parts.iter().enumerate() {
        if p.first() != Some(&"bg") {
            continue;
        }
        let inner: Vec<Vec<&str>> = p[1..].split(|w| *w == ",").map(|v| v.to_vec()).collect();
        if inner.len() < 2 || inner[0] != ["PC", "INT", "QUIT"] || inner[1] != ["R", "78"] {
            continue;
        }
        let names = ["INT", "QUIT", "2", "3"];
        let command_trap_before = parts[..i].iter().any(|q| match q.as_slice() {
            ["T", a, ops @ ..] => (a.starts_with('c') || a.starts_with('k') || a.starts_with('r')) && ops.iter().any(|o| names.contains(o)),
            _ => false,
        });
        let left_early = parts[..i].iter().any(|q| matches!(q.first(), Some(&"X") | Some(&"TX") | Some(&"K") | Some(&"W")));
        if command_trap_before || left_early {
            continue;
        }
        let sentinel = format!(":{}", enc_str("78"));
        match lines.iter().position(|l| l.ends_with(&sentinel) && !l.starts_with("T:")) {
            Some(pos) if pos >= 2 && lines[pos - 2] == "T:E:INT" && lines[pos - 1] == "T:E:QUIT" => {}
            Some(pos) => {
                let got: Vec<String> = lines[pos.saturating_sub(2)..pos].to_vec();
                oracle = format!("FAIL:async-list-int-quit-not-ignored:got={}", got.join("+"));
            }
            None if end == "exit" => oracle = "FAIL:sentinel-missing".into(),
            None => {}
        }
    }
    // `tbi … W … INT …`: in an interactive shell (internal disposition `Catch` for SIGINT) with no user action on
    // SIGINT, a SIGINT that arrives during `wait` interrupts the built-in: the script of this (non-interactive)
    // read-eval loop ends with 128+SIGINT (386), no later `R` statement runs, and every OTHER trapped signal sent in
    // the same batch still runs its action exactly once (at the hook after `wait`, seeing `$?` = 386).
    if interactive {
        if let Some(i) = parts.iter().position(|p| p.first() == Some(&"W") && p[1..].contains(&"INT")) {
            let touched_int = parts[..i].iter().any(|q| matches!(q.first(), Some(&"T") | Some(&"TN")) && q[1..].iter().any(|w| *w == "INT" || *w == "2"))
                || ign_set.contains(&SIGINT);
            let left = parts[..i].iter().any(|q| matches!(q.first(), Some(&"X") | Some(&"TX") | Some(&"K") | Some(&"W")));
            if !touched_int && !left {
                if end != "exit" || o.exit_status != 386 {
                    oracle = format!("FAIL:sigint-did-not-interrupt-wait:end={end}:exit={}", o.exit_status);
                }
                for q in &parts[i + 1..] {
                    if let ["R", n] = q.as_slice() {
                        let l = format!(":{}", enc_str(n));
                        // (an action `c<n>` with the same number would print the same text: the families keep them apart)
                        if lines.iter().any(|x| !x.starts_with("T:") && x.ends_with(&l)) {
                            oracle = format!("FAIL:command-ran-after-interrupted-wait:{n}");
                        }
                    }
                }
                // other trapped signals of the batch: last `T c<N> SIG` before the `W`
                for sig in parts[i][1..].iter().filter(|s| **s != "INT") {
                    let act = parts[..i].iter().rev().find_map(|q| match q.as_slice() {
                        ["T", a, ops @ ..] if ops.contains(sig) => Some(*a),
                        _ => None,
                    });
                    if let Some(n) = act.and_then(|a| a.strip_prefix('c')) {
                        let l = format!("386:{}", enc_str(n));
                        let ran = lines.iter().filter(|x| **x == l).count();
                        if ran != 1 {
                            oracle = format!("FAIL:{sig}:caught-with-sigint-during-wait-ran-{ran}");
                        }
                    }
                }
            }
        }
    }
    for l in &lines {
        let ok = l == "-" || l.starts_with("T:") || l.split_once(':').is_some_and(|(a, b)| a.parse::<i32>().is_ok() && yverif::proto::dec_str(b).is_some());
        if !ok {
            oracle = format!("FAIL:unexpected-output:{}", enc_str(l));
        }
    }
    (obs, oracle)
}

/// `conds`: the conditions the `trap` built-in iterates over and their names, from the real system
/// (the Lean driver prints its own table: any drift of signal numbers or names shows up here).
fn run_conds_case() -> (String, String) {
    let w = World::new();
    let mut oracle = "ok".to_string();
    let v: Vec<String> = Condition::iter(&w.env.system)
        .map(|c| {
            let raw: yash_env::signal::RawNumber = c.into();
            // number <-> condition round trip
            if Condition::from(raw) != c {
                oracle = format!("FAIL:roundtrip:{raw}");
            }
            format!("{}:{}", raw, c.to_string(&w.env.system))
        })
        .collect();
    (v.join(","), oracle)
}

// ------------------------------------------------------------------------------------------
// `sc PLAN; [ign SIG…;] op; …` — the system-call leg: the real `TrapSet` over the real
// `Concurrent::set_disposition`, over an inner system whose two primitive calls (`sigmask`,
// `sigaction`) are recorded and fail on demand.  PLAN = `-` or a string of `0`/`1`, one character
// per primitive call in order (`1` = that call fails with EINVAL; exhausted = success).
// Observation per operation: result, the calls made (`M+SIG` / `M-SIG` / `A:SIG:<new>><old>`, a
// failed call ends in `!`), and the changed views as in the ops leg.

mod faulty {
    use std::cell::RefCell;
    use std::collections::VecDeque;
    use std::ops::RangeInclusive;
    use std::rc::Rc;
    use yash_env::signal::{Name, Number, RawNumber};
    use yash_env::system::r#virtual::VirtualSystem;
    use yash_env::system::{Disposition, Errno, GetSigaction, Sigaction, Sigmask, SigmaskOp, Signals, Sigset as _};

    type VSet = <VirtualSystem as Sigmask>::Sigset;

    #[derive(Clone, Debug, PartialEq, Eq)]
    pub enum Prim {
        Mask(bool, Vec<Number>),
        Action(Number, Disposition),
        Get(Number),
        Other(String),
    }

    #[derive(Clone, Debug)]
    pub struct Call {
        pub prim: Prim,
        pub ok: bool,
        pub old: Disposition,
    }

    #[derive(Clone)]
    pub struct Faulty {
        pub vs: VirtualSystem,
        pub log: Rc<RefCell<Vec<Call>>>,
        pub plan: Rc<RefCell<VecDeque<bool>>>,
        pub watched: Rc<Vec<Number>>,
    }

    impl Faulty {
        fn fails(&self) -> bool {
            self.plan.borrow_mut().pop_front().unwrap_or(false)
        }
    }

    impl Signals for Faulty {
        const SIGABRT: Number = VirtualSystem::SIGABRT;
        const SIGALRM: Number = VirtualSystem::SIGALRM;
        const SIGBUS: Number = VirtualSystem::SIGBUS;
        const SIGCHLD: Number = VirtualSystem::SIGCHLD;
        const SIGCLD: Option<Number> = VirtualSystem::SIGCLD;
        const SIGCONT: Number = VirtualSystem::SIGCONT;
        const SIGEMT: Option<Number> = VirtualSystem::SIGEMT;
        const SIGFPE: Number = VirtualSystem::SIGFPE;
        const SIGHUP: Number = VirtualSystem::SIGHUP;
        const SIGILL: Number = VirtualSystem::SIGILL;
        const SIGINFO: Option<Number> = VirtualSystem::SIGINFO;
        const SIGINT: Number = VirtualSystem::SIGINT;
        const SIGIO: Option<Number> = VirtualSystem::SIGIO;
        const SIGIOT: Number = VirtualSystem::SIGIOT;
        const SIGKILL: Number = VirtualSystem::SIGKILL;
        const SIGLOST: Option<Number> = VirtualSystem::SIGLOST;
        const SIGPIPE: Number = VirtualSystem::SIGPIPE;
        const SIGPOLL: Option<Number> = VirtualSystem::SIGPOLL;
        const SIGPROF: Number = VirtualSystem::SIGPROF;
        const SIGPWR: Option<Number> = VirtualSystem::SIGPWR;
        const SIGQUIT: Number = VirtualSystem::SIGQUIT;
        const SIGSEGV: Number = VirtualSystem::SIGSEGV;
        const SIGSTKFLT: Option<Number> = VirtualSystem::SIGSTKFLT;
        const SIGSTOP: Number = VirtualSystem::SIGSTOP;
        const SIGSYS: Number = VirtualSystem::SIGSYS;
        const SIGTERM: Number = VirtualSystem::SIGTERM;
        const SIGTHR: Option<Number> = VirtualSystem::SIGTHR;
        const SIGTRAP: Number = VirtualSystem::SIGTRAP;
        const SIGTSTP: Number = VirtualSystem::SIGTSTP;
        const SIGTTIN: Number = VirtualSystem::SIGTTIN;
        const SIGTTOU: Number = VirtualSystem::SIGTTOU;
        const SIGURG: Number = VirtualSystem::SIGURG;
        const SIGUSR1: Number = VirtualSystem::SIGUSR1;
        const SIGUSR2: Number = VirtualSystem::SIGUSR2;
        const SIGVTALRM: Number = VirtualSystem::SIGVTALRM;
        const SIGWINCH: Number = VirtualSystem::SIGWINCH;
        const SIGXCPU: Number = VirtualSystem::SIGXCPU;
        const SIGXFSZ: Number = VirtualSystem::SIGXFSZ;
        const NAMED_SIGNALS: &'static [(&'static str, Option<Number>)] = VirtualSystem::NAMED_SIGNALS;

        fn sigrt_range(&self) -> Option<RangeInclusive<Number>> {
            self.vs.sigrt_range()
        }
        fn iter_sigrt(&self) -> impl DoubleEndedIterator<Item = Number> + use<> {
            self.vs.iter_sigrt()
        }
        fn to_signal_number<N: Into<RawNumber>>(&self, number: N) -> Option<Number> {
            self.vs.to_signal_number(number)
        }
        fn sig2str<N: Into<RawNumber>>(&self, signal: N) -> Option<std::borrow::Cow<'static, str>> {
            self.vs.sig2str(signal)
        }
        fn str2sig(&self, name: &str) -> Option<Number> {
            self.vs.str2sig(name)
        }
        fn validate_signal(&self, number: RawNumber) -> Option<(Name, Number)> {
            self.vs.validate_signal(number)
        }
        fn signal_name_from_number(&self, number: Number) -> Name {
            self.vs.signal_name_from_number(number)
        }
        fn signal_number_from_name(&self, name: Name) -> Option<Number> {
            self.vs.signal_number_from_name(name)
        }
    }

    impl Sigmask for Faulty {
        type Sigset = VSet;

        fn sigmask(
            &self,
            op: Option<(SigmaskOp, &VSet)>,
            old_mask: Option<&mut VSet>,
        ) -> impl Future<Output = Result<(), Errno>> + use<> {
            let prim = match op {
                Some((SigmaskOp::Add, m)) => {
                    Prim::Mask(true, self.watched.iter().copied().filter(|n| m.contains(*n) == Ok(true)).collect())
                }
                Some((SigmaskOp::Remove, m)) => {
                    Prim::Mask(false, self.watched.iter().copied().filter(|n| m.contains(*n) == Ok(true)).collect())
                }
                Some(_) => Prim::Other("sigmask-set".into()),
                None => Prim::Other("sigmask-get".into()),
            };
            let fail = self.fails();
            self.log.borrow_mut().push(Call { prim, ok: !fail, old: Disposition::Default });
            let inner = if fail { None } else { Some(self.vs.sigmask(op, old_mask)) };
            async move {
                match inner {
                    None => Err(Errno::EINVAL),
                    Some(f) => f.await,
                }
            }
        }
    }

    impl GetSigaction for Faulty {
        fn get_sigaction(&self, signal: Number) -> Result<Disposition, Errno> {
            // recorded and failing on demand like the other two primitives (`peek_state` → `get_disposition`)
            if self.fails() {
                self.log.borrow_mut().push(Call { prim: Prim::Get(signal), ok: false, old: Disposition::Default });
                return Err(Errno::EINVAL);
            }
            let d = self.vs.get_sigaction(signal)?;
            self.log.borrow_mut().push(Call { prim: Prim::Get(signal), ok: true, old: d });
            Ok(d)
        }
    }

    impl Sigaction for Faulty {
        fn sigaction(&self, signal: Number, action: Disposition) -> Result<Disposition, Errno> {
            let fail = self.fails();
            if fail {
                self.log.borrow_mut().push(Call { prim: Prim::Action(signal, action), ok: false, old: Disposition::Default });
                return Err(Errno::EINVAL);
            }
            let old = self.vs.sigaction(signal, action)?;
            self.log.borrow_mut().push(Call { prim: Prim::Action(signal, action), ok: true, old });
            Ok(old)
        }
    }
}

/// Runs one `sc` case; returns (observation, oracle, number of primitive calls made).
fn run_sc(case: &str) -> (String, String, usize) {
    use faulty::{Faulty, Prim};
    use yash_env::trap::TrapSet;
    let bad = || ("bad-case".to_string(), "-".to_string(), 0usize);
    let mut parts: Vec<&str> = case.split(';').map(|s| s.trim()).filter(|s| !s.is_empty()).collect();
    if parts.is_empty() || parts.len() > MAX_OPS {
        return bad();
    }
    let head: Vec<&str> = parts[0].split_whitespace().collect();
    let plan: std::collections::VecDeque<bool> = match head.as_slice() {
        ["sc", "-"] => Default::default(),
        ["sc", p] if p.chars().all(|c| c == '0' || c == '1') && p.len() <= 64 => p.chars().map(|c| c == '1').collect(),
        _ => return bad(),
    };
    parts.remove(0);
    let vs = VirtualSystem::new();
    let mut ign: HashSet<Number> = HashSet::new();
    if let Some(first) = parts.first() {
        let ws: Vec<&str> = first.split_whitespace().collect();
        if ws.first() == Some(&"ign") {
            for s in &ws[1..] {
                let Some(n) = sig_of(s) else { return bad() };
                vs.current_process_mut().set_disposition(n, Disposition::Ignore);
                ign.insert(n);
            }
            parts.remove(0);
        }
    }
    let inner = Faulty {
        vs: vs.clone(),
        log: Default::default(),
        plan: Rc::new(std::cell::RefCell::new(plan)),
        watched: Rc::new(CONDS.iter().filter_map(|c| c.1).collect()),
    };
    let log = Rc::clone(&inner.log);
    let system = Rc::new(Concurrent::new(inner));
    let mut traps = TrapSet::default();
    let views_of = |traps: &TrapSet| -> Vec<String> {
        CONDS
            .iter()
            .map(|(_, n)| {
                let cond = match n {
                    None => Condition::Exit,
                    Some(n) => Condition::Signal(*n),
                };
                let (cur, par) = traps.get_state(cond);
                let base = format!("{}/{}", show_opt(cur), show_opt(par));
                match n {
                    None => base,
                    Some(n) => {
                        let p = vs.current_process();
                        format!("{}/{}{}", base, show_disp(p.disposition(*n)), (p.blocked_signals().contains(*n) == Ok(true)) as u8)
                    }
                }
            })
            .collect()
    };
    let cur_of = |traps: &TrapSet| -> Vec<String> {
        CONDS
            .iter()
            .map(|(_, n)| {
                let cond = match n {
                    None => Condition::Exit,
                    Some(n) => Condition::Signal(*n),
                };
                show_opt(traps.get_state(cond).0)
            })
            .collect()
    };
    let mut views = views_of(&traps);
    let mut obs: Vec<String> = vec![];
    let mut verdict: Option<String> = None;
    let mut faulted = false;
    for (k, op) in parts.iter().enumerate() {
        let ws: Vec<&str> = op.split_whitespace().collect();
        let from = log.borrow().len();
        let cur_before = cur_of(&traps);
        // Some(true) = the operation reported a system error, Some(false) = it did not, None = it cannot
        let mut reported: Option<bool> = None;
        let r: String = match ws.as_slice() {
            ["set", c, a, ov] => {
                let Some(cond) = cond_of(c) else { return bad() };
                let action = match a.split_at(1) {
                    ("d", "") => Action::Default,
                    ("i", "") => Action::Ignore,
                    ("c", n) if n.parse::<u64>().is_ok() => Action::Command(format!("probe {n}; st 7").into()),
                    _ => return bad(),
                };
                let Some(ov) = bit(ov) else { return bad() };
                let res = traps.set_action(&system, cond, action, Location::dummy(k.to_string()), ov).now_or_never();
                let Some(res) = res else { return ("TIMEOUT(set_action)".into(), "FAIL:timeout".into(), 0) };
                reported = Some(matches!(res, Err(SetActionError::SystemError(_))));
                match res {
                    Ok(()) => "ok".into(),
                    Err(SetActionError::InitiallyIgnored) => "initially-ignored".into(),
                    Err(SetActionError::SIGKILL) => "sigkill".into(),
                    Err(SetActionError::SIGSTOP) => "sigstop".into(),
                    Err(SetActionError::SystemError(_)) => "errno".into(),
                }
            }
            ["chld"] | ["term+"] | ["term-"] | ["stop+"] | ["stop-"] | ["dis"] => {
                let res = match ws[0] {
                    "chld" => traps.enable_internal_disposition_for_sigchld(&system).now_or_never(),
                    "term+" => traps.enable_internal_dispositions_for_terminators(&system).now_or_never(),
                    "term-" => traps.disable_internal_dispositions_for_terminators(&system).now_or_never(),
                    "stop+" => traps.enable_internal_dispositions_for_stoppers(&system).now_or_never(),
                    "stop-" => traps.disable_internal_dispositions_for_stoppers(&system).now_or_never(),
                    _ => traps.disable_internal_dispositions(&system).now_or_never(),
                };
                let Some(res) = res else { return ("TIMEOUT(internal)".into(), "FAIL:timeout".into(), 0) };
                reported = Some(res.is_err());
                if res.is_ok() { "ok".into() } else { "errno".into() }
            }
            ["sub", i, ks] => {
                let (Some(i), Some(ks)) = (bit(i), bit(ks)) else { return bad() };
                if traps.enter_subshell(&system, i, ks).now_or_never().is_none() {
                    return ("TIMEOUT(enter_subshell)".into(), "FAIL:timeout".into(), 0);
                }
                "-".into()
            }
            ["peek", c] => {
                let Some(cond) = cond_of(c) else { return bad() };
                let res = traps.peek_state(&system, cond).map(show_ts);
                reported = Some(res.is_err());
                match res {
                    Ok(t) => t,
                    Err(_) => "errno".into(),
                }
            }
            _ => return bad(),
        };
        let calls: Vec<faulty::Call> = log.borrow()[from..].to_vec();
        let mut shown: Vec<String> = vec![];
        let mut fail: Option<String> = None;
        let any_failed = calls.iter().any(|c| !c.ok);
        for c in &calls {
            let bang = if c.ok { "" } else { "!" };
            match &c.prim {
                Prim::Mask(add, sigs) => {
                    let names: Vec<String> = sigs.iter().map(|n| name_of(*n)).collect();
                    shown.push(format!("M{}{}{bang}", if *add { '+' } else { '-' }, names.join("+")));
                }
                Prim::Action(n, d) => {
                    if c.ok {
                        shown.push(format!("A:{}:{}>{}", name_of(*n), show_disp(*d), show_disp(c.old)));
                    } else {
                        shown.push(format!("A:{}:{}!", name_of(*n), show_disp(*d)));
                    }
                    // no needless system call: as long as nothing has failed, re-installing the
                    // installed disposition is justified only for a signal the trap set did not know
                    if !faulted && !any_failed && c.ok && c.old == *d {
                        let i = CONDS.iter().position(|x| x.1 == Some(*n));
                        if i.is_some_and(|i| cur_before[i] != "-") {
                            fail = Some(format!("needless-syscall:{}", name_of(*n)));
                        }
                    }
                    if *n == SIGKILL || *n == SIGSTOP {
                        fail = Some(format!("sigaction-on:{}", name_of(*n)));
                    }
                }
                Prim::Get(n) => {
                    shown.push(if c.ok { format!("G:{}>{}", name_of(*n), show_disp(c.old)) } else { format!("G:{}!", name_of(*n)) });
                }
                Prim::Other(s) => shown.push(format!("?{s}{bang}")),
            }
        }
        // a failed system call is reported by every operation that can report it, and only then
        if let Some(rep) = reported {
            if rep != any_failed {
                fail = Some(if any_failed { "system-error-swallowed".into() } else { "system-error-invented".into() });
            }
            // … and the trap set does not record what the system refused: the entry of the signal
            // whose call failed is as it was
            if any_failed {
                if let Some(c) = calls.iter().find(|c| !c.ok) {
                    let sig = match &c.prim {
                        Prim::Action(n, _) => Some(*n),
                        Prim::Mask(_, v) => v.first().copied(),
                        Prim::Get(n) => Some(*n),
                        _ => None,
                    };
                    if let Some(i) = sig.and_then(|n| CONDS.iter().position(|x| x.1 == Some(n))) {
                        if cur_of(&traps)[i] != cur_before[i] {
                            fail = Some(format!("entry-changed-though-call-failed:{}", CONDS[i].0));
                        }
                    }
                }
            }
        }
        // blocked <=> Catch as long as no call has failed
        if !faulted && !any_failed {
            for (name, n) in CONDS.iter() {
                let Some(n) = *n else { continue };
                let p = vs.current_process();
                if (p.blocked_signals().contains(n) == Ok(true)) != (p.disposition(n) == Disposition::Catch) {
                    fail = Some(format!("mask:{name}"));
                }
            }
        }
        faulted |= any_failed;
        if verdict.is_none() {
            if let Some(f) = fail {
                verdict = Some(format!("FAIL:{f}@{k}"));
            }
        }
        let nv = views_of(&traps);
        let mut line = vec![format!("r={r}"), format!("k={}", if shown.is_empty() { "-".to_string() } else { shown.join(",") })];
        for (i, (name, _)) in CONDS.iter().enumerate() {
            if nv[i] != views[i] {
                line.push(format!("{name}={}", nv[i]));
            }
        }
        views = nv;
        obs.push(line.join(" "));
    }
    let n = log.borrow().len();
    (obs.join(" | "), verdict.unwrap_or_else(|| "ok".into()), n)
}

fn run_case(case: &str) -> (String, String, String) {
    let ws: Vec<&str> = case.split_whitespace().collect();
    if ws.first() == Some(&"tb") || ws.first() == Some(&"tbi") {
        let (o, v) = run_tb_case(case);
        return (o, v, String::new());
    }
    if ws == ["conds"] {
        let (o, v) = run_conds_case();
        return (o, v, String::new());
    }
    if ws.first() == Some(&"sc") {
        let (o, v, n) = run_sc(case);
        return (o, v, n.to_string());
    }
    if ws.first() == Some(&"script") {
        let (o, v) = run_script_case(&ws[1..]);
        (o, v, String::new())
    } else if ws.first() == Some(&"multi") {
        let (o, v) = run_multi_case(&ws[1..]);
        (o, v, String::new())
    } else {
        run_ops(case)
    }
}

/// Watchdog: the real code is called synchronously, so an endless loop in it (e.g. a pending flag
/// that is never cleared) cannot be interrupted from inside.  A side thread notices that the case
/// counter has not moved for `LIMIT_S` seconds, reports the current case as `TIMEOUT` and ends the run.
static CURRENT: std::sync::Mutex<(u64, String)> = std::sync::Mutex::new((0, String::new()));
const LIMIT_S: u64 = 30;

fn start_watchdog() {
    std::thread::spawn(|| {
        let mut last = (0u64, 0u64); // (counter, seconds it has been seen)
        loop {
            std::thread::sleep(std::time::Duration::from_secs(1));
            let (n, case) = CURRENT.lock().map(|g| g.clone()).unwrap_or_default();
            if n == last.0 && !case.is_empty() {
                last.1 += 1;
                if last.1 >= LIMIT_S {
                    use std::io::Write as _;
                    let mut o = std::io::stdout().lock();
                    let _ = writeln!(o, "{case}\tTIMEOUT\tFAIL:timeout");
                    let _ = o.flush();
                    std::process::exit(0);
                }
            } else {
                last = (n, 0);
            }
        }
    });
}

fn run_guarded(case: &str) -> (String, String, String) {
    if let Ok(mut g) = CURRENT.lock() {
        g.0 += 1;
        g.1 = case.to_string();
    }
    let mut out = (String::new(), String::new(), String::new());
    let o = guarded(|| {
        out = run_case(case);
        out.0.clone()
    });
    if o.starts_with("PANIC") { (o.clone(), format!("FAIL:{o}"), String::new()) } else { out }
}

const FOCUS: [&str; 8] = ["INT", "QUIT", "TERM", "CHLD", "TSTP", "USR1", "KILL", "STOP"];

fn alphabet(f: &str) -> Vec<String> {
    let mut ops = vec![];
    for a in ["d", "i", "c1"] {
        for ov in [0, 1] {
            ops.push(format!("set {f} {a} {ov}"));
        }
    }
    match f {
        "CHLD" => ops.push("chld".into()),
        "INT" | "QUIT" | "TERM" => {
            ops.push("term+".into());
            ops.push("term-".into());
        }
        "TSTP" => {
            ops.push("stop+".into());
            ops.push("stop-".into());
        }
        _ => {}
    }
    ops.push("dis".into());
    for i in [0, 1] {
        for ks in [0, 1] {
            ops.push(format!("sub {i} {ks}"));
        }
    }
    ops.push(format!("peek {f}"));
    ops.push(format!("catch {f}"));
    ops.push("take".into());
    ops.push(format!("takeif {f}"));
    if f != "KILL" && f != "STOP" {
        ops.push(format!("deliver {f}"));
    }
    ops.push("run 5".into());
    if f != "KILL" && f != "STOP" {
        ops.push(format!("irun {f} 4"));
        ops.push(if f == "INT" { "blk INT".to_string() } else { format!("blk {f}+INT") });
    }
    ops
}

fn random_op(r: &mut Rng, sigs: &[&str]) -> String {
    let s = *r.pick(sigs);
    match r.below(20) {
        0..=5 => {
            let c = if r.chance(1, 8) { "EXIT" } else { s };
            let a = match r.below(4) {
                0 => "d".to_string(),
                1 => "i".to_string(),
                2 => format!("c{}", 1 + r.below(3)),
                _ => format!("c{}", 1000 * r.below(7) + 1 + r.below(3)),
            };
            format!("set {c} {a} {}", if r.chance(1, 4) { 1 } else { 0 })
        }
        6 if r.chance(1, 2) => {
            let a = match r.below(4) { 0 => "d".to_string(), 1 => "i".to_string(), _ => format!("c{}", 1 + r.below(3)) };
            let n = 2 + r.below(3);
            let cs: Vec<&str> = (0..n).map(|_| if r.chance(1, 6) { "EXIT" } else { *r.pick(sigs) }).collect();
            format!("tr {a} {}", cs.join(","))
        }
        6 => "chld".into(),
        7 => r.pick(&["term+", "term-"]).to_string(),
        8 => r.pick(&["stop+", "stop-"]).to_string(),
        9 => r.pick(&["dis", "chld", "term+", "stop+"]).to_string(),
        10 | 11 => format!("sub {} {}", r.below(2), r.below(2)),
        12 => format!("peek {}", if r.chance(1, 6) { "EXIT" } else { s }),
        13 | 14 => format!("catch {s}"),
        15 => "take".into(),
        16 => format!("takeif {s}"),
        17 | 18 if s != "KILL" && s != "STOP" => format!("deliver {s}"),
        17 | 18 => format!("catch {s}"),
        _ if r.chance(1, 3) => format!("irun {s} {}", r.below(4)).replace("KILL", "INT").replace("STOP", "INT"),
        _ if r.chance(1, 3) => {
            let x = if s == "KILL" || s == "STOP" || s == "INT" { "USR1" } else { s };
            r.pick(&[format!("blk {x}+INT"), format!("blk {x}/INT"), format!("blk {x}+{x}/TERM+INT+{x}"), "blk INT".to_string()]).clone()
        }
        _ if r.chance(1, 4) => {
            // the runner under a random execution stack
            let n = r.below(5);
            let fr: Vec<String> = (0..n)
                .map(|_| match r.below(8) {
                    0 => "L".to_string(),
                    1 | 2 => "S".to_string(),
                    3 => "C".to_string(),
                    4 => r.pick(&["D", "B", "I"]).to_string(),
                    5 => "TEXIT".to_string(),
                    _ => format!("T{}", if s == "KILL" || s == "STOP" { "USR1" } else { s }),
                })
                .collect();
            format!("frun {} {}", if fr.is_empty() { "-".to_string() } else { fr.join(".") }, r.below(4))
        }
        _ => format!("run {}", r.below(4)),
    }
}

fn main() {
    quiet_panics();
    start_watchdog();
    let o = Opts::from_args();
    let (fixed, only) = o.fixed_cases();
    for c in &fixed {
        let (obs, oracle, _) = run_guarded(c);
        emit(c, &obs, &oracle);
    }
    if only {
        return;
    }
    let mut index = 0usize;
    let mut out = |case: &str, obs: &str, oracle: &str| {
        if index % o.shard.1 == o.shard.0 {
            emit(case, obs, oracle);
        }
        index += 1;
    };

    // 1. breadth-first over histories on one focus signal, both initial dispositions,
    //    deduplicating on (visible state of every condition, the shell's need)
    let depth = if o.thorough() { 9 } else { 6 };
    for f in FOCUS {
        for ign in [false, true] {
            let prefix = if ign { format!("ign {f}; ") } else { String::new() };
            let alpha = alphabet(f);
            let mut seen: HashSet<String> = HashSet::new();
            let mut queue: VecDeque<(String, usize)> = VecDeque::new();
            queue.push_back((String::new(), 0));
            while let Some((hist, d)) = queue.pop_front() {
                if d >= depth {
                    continue;
                }
                for op in &alpha {
                    let ops = if hist.is_empty() { op.clone() } else { format!("{hist}; {op}") };
                    let case = format!("{prefix}{ops}");
                    let (obs, oracle, key) = run_guarded(&case);
                    out(&case, &obs, &oracle);
                    if seen.insert(key) {
                        queue.push_back((ops, d + 1));
                    }
                }
            }
        }
    }

    // from here on a case is run only by the shard that emits it
    let mut lazy = |case: &str| {
        let mine = index % o.shard.1 == o.shard.0;
        index += 1;
        if mine {
            let (obs, oracle, _) = run_guarded(case);
            emit(case, &obs, &oracle);
        }
    };

    // 2. random long histories over all signals (parent-state clearing, take order, group operations)
    let mut rng = Rng::new(o.seed ^ 0xC11);
    let n = if o.thorough() { 200_000 } else { 2_500 };
    let all: Vec<&str> = CONDS.iter().skip(1).map(|c| c.0).collect();
    for _ in 0..n {
        let mut r = rng.fork();
        let len = 4 + r.below(if o.thorough() { 60 } else { 36 });
        // a few signals per case so that operations meet on the same signal often
        let nsig = 1 + r.below(4);
        let sigs: Vec<&str> = (0..nsig).map(|_| *r.pick(&all)).collect();
        let mut parts: Vec<String> = vec![];
        let ign: Vec<&str> = all.iter().copied().filter(|_| r.chance(1, 4)).collect();
        if !ign.is_empty() {
            parts.push(format!("ign {}", ign.join(" ")));
        }
        for _ in 0..len {
            parts.push(random_op(&mut r, &sigs));
        }
        let case = parts.join("; ");
        lazy(&case);
    }

    // 2b. the runner under an execution stack (`in_trap`): every stack of up to 3 frames over
    //     {loop, subshell, dot script, EXIT trap, signal trap} (quick: a sample), plus longer ones; two trapped
    //     signals pending (one action ends in `return`), then a plain boundary
    {
        let alpha = ["L", "S", "D", "TEXIT", "TUSR1", "TINT"];
        let mut stacks: Vec<String> = vec!["-".into()];
        for a in alpha {
            stacks.push(a.to_string());
            for b in alpha {
                stacks.push(format!("{a}.{b}"));
                for c in alpha {
                    stacks.push(format!("{a}.{b}.{c}"));
                }
            }
        }
        for x in ["C.B.I", "TUSR1.L.C.D.B", "TUSR1.L.S.C.TEXIT.D", "S.TINT.S.TUSR1.S", "TTERM.S.L.TCHLD.C", "I.TEXIT.TEXIT.L"] {
            stacks.push(x.to_string());
        }
        for (i, st) in stacks.iter().enumerate() {
            if !o.thorough() && st.matches('.').count() == 2 && i % 3 != 0 {
                continue;
            }
            lazy(&format!("set USR1 c1 0; set INT c1002 0; catch INT; catch USR1; frun {st} 5; frun {st} 6; run 7"));
            lazy(&format!("chld; set CHLD c3 0; catch CHLD; frun {st} 4; sub 0 0; frun {st} 3"));
        }
    }

    // 3. scripts: the signal at every command boundary, two ways of sending it, seven layouts
    let lists: Vec<Vec<usize>> = if o.thorough() {
        let mut v = vec![];
        for a in 0..4 {
            v.push(vec![a]);
            for b in 0..3 {
                v.push(vec![a, b]);
                v.push(vec![a, b, 2]);
            }
        }
        v
    } else {
        vec![vec![0], vec![3], vec![5, 0], vec![1, 2, 0]]
    };
    for sts in lists {
        for shape in 0..7 {
            for m in [0usize, 6] {
                for k in 0..=(2 * sts.len() + 1) {
                    let s: Vec<String> = sts.iter().map(|s| s.to_string()).collect();
                    let case = format!("script {k} {m} {shape} {}", s.join(" "));
                    lazy(&case);
                }
            }
        }
    }

    // 4. several trapped signals pending at the same boundary (ops leg): every ordered choice of
    //    2-3 distinct signals, every assignment of body kinds (plain / return / exit / false),
    //    deliveries in the opposite order, then three boundaries
    let pool = ["INT", "TERM", "USR1", "CHLD"];
    let kinds = [0usize, 1, 2, 3, 4, 5, 6];
    let mut choices: Vec<Vec<&str>> = vec![];
    for a in pool {
        for b in pool {
            if a != b {
                choices.push(vec![a, b]);
                if o.thorough() {
                    for c in pool {
                        if c != a && c != b {
                            choices.push(vec![a, b, c]);
                        }
                    }
                }
            }
        }
    }
    if !o.thorough() {
        choices.push(vec!["USR1", "INT", "TERM"]);
        choices.push(vec!["TERM", "CHLD", "INT"]);
    }
    for sigs in &choices {
        let n = sigs.len();
        for code in 0..kinds.len().pow(n as u32) {
            let mut parts: Vec<String> = vec![];
            let mut c = code;
            for (i, s) in sigs.iter().enumerate() {
                parts.push(format!("set {s} c{} 0", 1000 * kinds[c % 5] + i + 1));
                c /= 5;
            }
            for s in sigs.iter().rev() {
                parts.push(format!("deliver {s}"));
            }
            parts.extend(["run 5".to_string(), "run 6".to_string(), "run 7".to_string(), "take".to_string()]);
            let case = parts.join("; ");
            lazy(&case);
        }
    }

    // 4b. an interactive shell's interruptible built-in interrupted by SIGINT: every other signal with
    //     every action, reported before / in the same batch as / around SIGINT
    for x in ["USR1", "TERM", "QUIT", "CHLD", "TSTP"] {
        for act in ["c1", "c1001", "i", "d", ""] {
            for shape in ["X+INT", "INT+X", "X/INT", "X+X/INT", "X/X+INT", "X+TERM/INT+X", "INT"] {
                for pre in ["term+", "term+; chld", "term+; stop+"] {
                    let set = if act.is_empty() { String::new() } else { format!("set {x} {act} 1; ") };
                    let case = format!("{pre}; {set}blk {}; run 5; run 6; take", shape.replace('X', x));
                    lazy(&case);
                }
            }
        }
    }
    lazy("set USR1 c1 0; blk USR1+INT; run 5");
    lazy("term+; set INT c2 0; set USR1 c1 0; blk USR1+INT; run 5");

    // 4c. one `trap` command with several conditions: an ignored-on-entry signal, EXIT, KILL at every
    //     position of the list, every action; then the state is used (deliver, run, peek)
    let lists3: [[&str; 3]; 6] = [
        ["QUIT", "INT", "TERM"], ["INT", "QUIT", "TERM"], ["INT", "TERM", "QUIT"],
        ["QUIT", "EXIT", "USR1"], ["EXIT", "QUIT", "USR1"], ["USR1", "EXIT", "QUIT"],
    ];
    for ig in ["ign QUIT; ", "ign QUIT INT; ", "ign QUIT; peek QUIT; ", "ign QUIT; set QUIT c9 1; ", ""] {
        for act in ["c1", "i", "d", "c1001"] {
            for l3 in lists3 {
                let case = format!("{ig}tr {act} {}; deliver {}; deliver {}; run 5; peek {}", l3.join(","), l3[1], l3[2], l3[0]);
                lazy(&case);
                let case = format!("{ig}set {} c2 0; tr {act} {},{}; tr d {}; take", l3[2], l3[0], l3[2], l3[1]);
                lazy(&case);
            }
            lazy(&format!("{ig}tr {act} QUIT; tr {act} INT,KILL,TERM; tr {act} KILL,QUIT,USR1; peek USR1"));
            lazy(&format!("{ig}tr {act} QUIT,QUIT,INT,QUIT,TERM,EXIT,CHLD,TSTP; chld; sub 1 0; tr {act} QUIT,INT"));
        }
    }

    // 5. the same at script level: traps that return / exit / fail / redefine themselves, signals
    //    sent together inside a function, a nested group or a dot script, by a built-in or from a
    //    foreground subshell, optionally delivered a second time
    let ks = ["P", "R", "E", "F", "N", "I"];
    let subsets: Vec<Vec<&str>> =
        vec![vec!["INT", "USR1"], vec!["USR1", "TERM"], vec!["TERM", "INT"], vec!["USR1", "INT", "TERM"]];
    let mut count = 0usize;
    for sigs in &subsets {
        let n = sigs.len();
        for code in 0..ks.len().pow(n as u32) {
            for layout in 0..3 {
                for mode in 0..2 {
                    for second in 0..2 {
                        count += 1;
                        // three signals: one (layout, mode, second) combination per assignment in the
                        // quick tier, all of them in the thorough tier
                        if n == 3 && !o.thorough() && (layout, mode, second) != (code % 3, (code / 3) % 2, (code / 6) % 2) {
                            continue;
                        }
                        let mut c = code;
                        let mut sk: Vec<String> = vec![];
                        for s in sigs {
                            sk.push(format!("{s}:{}", ks[c % 6]));
                            c /= 6;
                        }
                        let case = format!("multi {layout} {mode} {second} {}", sk.join(" "));
                        lazy(&case);
                    }
                }
            }
        }
    }
    let _ = count;
    // 5b. actions that CHANGE `$?` and then divert without a status (`false; return`, `! :; return`), caught inside a
    //     function / nested group / dot script: the probes right after show whether `$?` was restored
    for sigs in [["INT", "USR1"], ["USR1", "TERM"], ["TERM", "INT"]] {
        for (k1, k2) in [("Q", "P"), ("P", "Q"), ("B", "P"), ("Q", "R"), ("Q", "Q"), ("B", "F"), ("F", "B"), ("Q", "E")] {
            for layout in 0..3 {
                for mode in 0..2 {
                    lazy(&format!("multi {layout} {mode} 0 {}:{k1} {}:{k2}", sigs[0], sigs[1]));
                }
            }
        }
    }
    for s in ["INT", "USR1", "TERM"] {
        for k in ["Q", "B"] {
            for layout in 0..3 {
                lazy(&format!("multi {layout} 0 1 {s}:{k}"));
            }
        }
    }

    // 6. `tb`: the trap built-in's forms, kill under every disposition, subshells, wait, EXIT
    let mut emit_tb = |case: String, _unused: &mut u8| lazy(&case);
    let mut out = 0u8;
    let igns = ["", "ign INT; ", "ign USR1 TERM QUIT; "];
    // (a) every action form x operand list (names, numbers, EXIT, KILL/STOP, unknown, none)
    let acts = ["-", "E", "c1", "k2"];
    let oplists = [
        "INT", "2", "USR1 TERM", "0", "EXIT", "KILL", "INT KILL", "STOP USR1", "FOO", "999", "INT FOO", "",
        "RTMIN+1", "209", "HUP 1", "0 INT 15",
    ];
    let tails = [
        "P; PC INT 0 USR1 TERM; K INT; R 1; K USR1; R 2",
        "PC 2 15 124 0; sub P; K TERM; R 1",
        "PP; R 1; K HUP; R 2",
    ];
    for ig in igns {
        for a in acts {
            for ops in oplists {
                for tail in tails {
                    emit_tb(format!("tb {ig}T c9 USR2; T {a} {ops}; {tail}"), &mut out);
                }
            }
        }
    }
    // (a') several conditions in one command with an ignored-on-entry signal first / in the middle / last,
    //      mixed with EXIT; what `trap -p` then prints, what a signal then does
    for ig in ["ign HUP; ", "ign HUP INT; ", "ign TERM; "] {
        for a in ["c1", "E", "-", "k2"] {
            for ops in ["HUP INT TERM", "INT HUP TERM", "INT TERM HUP", "HUP 0 USR1", "0 HUP USR1", "USR1 0 HUP", "1 2 15 EXIT"] {
                emit_tb(format!("tb {ig}T c9 USR2; T {a} {ops}; PC {ops}; R 77; K USR1; R 1; K INT; R 2"), &mut out);
            }
        }
    }
    // (b) no action operand
    for ig in igns {
        for ops in ["2", "2 3", "0", "INT", "999", "15 FOO", "", "0 2 124"] {
            emit_tb(format!("tb {ig}T c1 INT QUIT 0 USR1; TN {ops}; P; R 1; PC 2 3 0"), &mut out);
        }
        emit_tb(format!("tb {ig}T c1 INT 0; TX; R 1"), &mut out);
        emit_tb(format!("tb {ig}T c1 INT 0; sub TX , R 2; R 1"), &mut out);
    }
    // (c) a signal sent to the shell itself under every disposition, for every signal of the system
    let all_names: Vec<String> = {
        let w = World::new();
        Condition::iter(&w.env.system).skip(1).map(|c| c.to_string(&w.env.system).into_owned()).collect()
    };
    for name in &all_names {
        for pre in ["", "T - S; ", "T E S; ", "T c1 S; T - S; ", "T c1 S; ", "T c1 S; sub K S , R 3; "] {
            let pre = pre.replace('S', name);
            if pre.contains(", R 3") {
                // `kill` inside a subshell is not in the case language: use the parent form instead
                emit_tb(format!("tb T c1 {name}; sub T c2 {name} , P; K {name}; R 1"), &mut out);
            } else {
                emit_tb(format!("tb {pre}K {name}; R 1; K {name}; R 2"), &mut out);
            }
        }
    }
    for name in ["INT", "QUIT", "TERM", "USR1", "TSTP", "CHLD"] {
        emit_tb(format!("tb ign {name}; K {name}; R 1; T c1 {name}; K {name}; R 2; T - {name}; K {name}; R 3"), &mut out);
    }
    // (d) `wait` interrupted by trapped signals
    let wacts = ["c1", "c2", "E", "k3", ""];
    for (a, b) in [("INT", "USR1"), ("USR1", "INT"), ("TERM", "USR1"), ("USR1", "TERM"), ("INT", "TERM"), ("TERM", "INT")] {
        for x in wacts {
            for y in wacts {
                let ta = if x.is_empty() { String::new() } else { format!("T {x} {a}; ") };
                let tb_ = if y.is_empty() { String::new() } else { format!("T {y} {b}; ") };
                emit_tb(format!("tb T c9 USR2; T c8 EXIT; {ta}{tb_}W {a} {b}; R 1; R 2; X 5"), &mut out);
                emit_tb(format!("tb T c9 USR2; {ta}{tb_}sub R 4; W {b} {a} {b}; R 1; K {a}; R 2"), &mut out);
            }
        }
    }
    // (e) subshells, command substitutions and asynchronous commands see the traps of their parent
    for pre in ["T c1 INT USR1; ", "T E INT; T c1 QUIT; ", "", "P; ", "ign INT; T c2 INT QUIT; ", "T c1 0; T c2 CHLD; "] {
        for kind in ["sub", "cs", "bg"] {
            for inner in ["P", "PC INT QUIT 0", "T E TERM , P", "T c3 INT , PC INT QUIT", "T - INT , T c4 0 , R 5", "X 3"] {
                emit_tb(format!("tb {pre}{kind} {inner}; R 1; P"), &mut out);
            }
        }
    }
    // (e") an asynchronous list gets SIGINT/SIGQUIT ignored whatever the trap set held for them before:
    //      nothing, `{Default}` entries left by `trap - SIG` / `trap -p` / plain `trap`, `Ignore`, ignored on entry
    for pre in [
        "", "T - INT; ", "T - QUIT; ", "T - INT QUIT; ", "T - 2 3; ", "TN 2; ", "TN 3; ", "PC INT; ", "PC QUIT INT; ", "P; ", "PP; ",
        "T E INT; ", "T E QUIT; T - INT; ", "ign INT; ", "ign QUIT; T - QUIT; ", "T c1 USR1; T - INT; ", "T c1 INT; T - INT; ",
        "T c2 QUIT; T E QUIT; T - QUIT; ", "sub T - INT; ", "T - INT; sub R 4; ",
    ] {
        for tail in ["", " , T c3 INT , PC INT", " , P"] {
            emit_tb(format!("tb {pre}bg PC INT QUIT , R 78{tail}; R 1; PC INT QUIT"), &mut out);
        }
    }
    // (i) the same built-in in an INTERACTIVE shell (`tbi`: option `interactive` on, `monitor` off): the internal
    //     dispositions of the terminators are installed at start-up, and `trap` overrides "ignored on entry"
    //     (`override_ignore` = interactive) — the converse of the stickiness clause.  No INT/QUIT/TERM is sent and
    //     no operand is invalid (an interactive shell's reaction to those belongs to the interactive loop).
    for ig in ["", "ign INT; ", "ign USR1 TERM QUIT; ", "ign INT QUIT TERM HUP; "] {
        for a in ["-", "E", "c1", "k2"] {
            for ops in ["INT", "QUIT TERM", "USR1 INT HUP", "0 INT 15", "3 1"] {
                emit_tb(format!("tbi {ig}T c9 USR2; T {a} {ops}; PC {ops}; R 77; K USR1; R 1; P"), &mut out);
                emit_tb(format!("tbi {ig}T c9 USR2; T {a} {ops}; sub PC {ops} , T c3 {ops} , PC {ops}; R 1; PP"), &mut out);
            }
        }
        emit_tb(format!("tbi {ig}P; PP; PC INT QUIT TERM; T c1 INT; T - INT; PC INT; cs P; R 1"), &mut out);
        emit_tb(format!("tbi {ig}T c1 USR1; K USR1; R 1; T rUSR1.5 USR1; K USR1; R 2; R 3"), &mut out);
        emit_tb(format!("tbi {ig}T c1 0; T c2 HUP; K HUP; R 1; X 3"), &mut out);
    }
    // (i') SIGINT interrupting `wait` in an interactive shell (`wait/core.rs`: the shortcut before the loop), alone and
    //      in one batch with other trapped / ignored / untrapped-ignored signals, in every order; with an EXIT trap;
    //      and the cases where the shortcut must NOT apply (SIGINT trapped or ignored by the user)
    for pre in ["", "T c4 USR1; ", "T c4 USR1; T c6 HUP; ", "T E USR1; ", "T c5 0; T c4 USR1; ", "ign HUP; T c4 USR1; "] {
        for w in ["INT", "USR1 INT", "INT USR1", "HUP INT USR1", "USR1 HUP INT", "INT INT"] {
            if (w.contains("HUP") && !pre.contains("HUP")) || (w.contains("USR1") && !pre.contains("USR1")) {
                continue; // an untrapped signal would end the shell
            }
            emit_tb(format!("tbi {pre}W {w}; R 1; R 2"), &mut out);
        }
        emit_tb(format!("tbi {pre}T c7 INT; W INT; R 1; R 2"), &mut out);
        emit_tb(format!("tbi {pre}T E INT; W INT; R 1; R 2"), &mut out);
        emit_tb(format!("tbi {pre}T c7 INT; T - INT; W INT; R 1"), &mut out);
    }
    emit_tb("tb".to_string(), &mut out); // the empty script (`runner.rs`: no command executed → status 0)
    // (e') actions that deliver their own signal again while they run (once: they replace themselves
    //      first), entered at a command boundary and on the interrupting-`wait` path, alone and together
    //      with another trapped signal, then delivered again
    for s in ["USR1", "INT", "TERM", "HUP"] {
        for other in ["", "T c7 QUIT; ", "T k8 QUIT; T c9 USR2; "] {
            for ig in ["", "ign QUIT; "] {
                emit_tb(format!("tb {ig}{other}T r{s}.5 {s}; W {s}; R 1; R 2"), &mut out);
                emit_tb(format!("tb {ig}{other}T r{s}.5 {s}; K {s}; R 1; R 2"), &mut out);
                emit_tb(format!("tb {ig}{other}T r{s}.5 {s}; W {s}; R 1; K {s}; R 2; W {s}; R 3"), &mut out);
                emit_tb(format!("tb {ig}{other}T r{s}.5 {s}; R 1; W QUIT {s}; R 2; R 3"), &mut out);
                emit_tb(format!("tb {ig}{other}T r{s}.5 {s}; R 1; W {s} QUIT; R 2; R 3"), &mut out);
                emit_tb(format!("tb {ig}{other}T r{s}.5 {s}; sub R 4; R 1; K {s}; R 2; P; R 3"), &mut out);
                emit_tb(format!("tb {ig}{other}T r{s}.5 {s}; K {s}; T r{s}.6 {s}; W {s}; R 1; K {s}; R 2"), &mut out);
                emit_tb(format!("tb {ig}{other}T c1 {s}; W {s}; R 1; T r{s}.5 {s}; W {s}; R 2; W {s}; R 3"), &mut out);
            }
        }
    }
    // (f) random scripts over the whole statement language
    let n_tb = if o.thorough() { 60_000 } else { 600 };
    let mut rng = Rng::new(o.seed ^ 0x7B11);
    let sigw = ["INT", "QUIT", "TERM", "USR1", "CHLD", "TSTP", "HUP", "2", "15", "124", "0", "EXIT"];
    for _ in 0..n_tb {
        let mut r = rng.fork();
        let mut parts: Vec<String> = vec![];
        if r.chance(1, 4) {
            parts.push(format!("ign {}", r.pick(&["INT", "QUIT", "TERM", "USR1", "INT QUIT"])));
        }
        parts.push("T c9 USR2".into());
        let simple = |r: &mut Rng| -> String {
            match r.below(9) {
                0..=3 => {
                    let n = 1 + r.below(2);
                    let ops: Vec<&str> = (0..n).map(|_| *r.pick(&sigw)).collect();
                    format!("T {} {}", r.pick(&["-", "E", "c1", "c2", "c3", "k4"]), ops.join(" "))
                }
                4 => "P".into(),
                5 => format!("PC {} {}", r.pick(&sigw), r.pick(&sigw)),
                6 => format!("R {}", 1 + r.below(5)),
                7 => format!("S {}", r.below(4)),
                _ => format!("TN {}", r.pick(&["2", "0", "15 124", "3"])),
            }
        };
        let len = 3 + r.below(8);
        for _ in 0..len {
            let st = match r.below(12) {
                0..=4 => simple(&mut r),
                5 | 6 => format!("K {}", r.pick(&["INT", "QUIT", "TERM", "USR1", "CHLD", "HUP", "USR2", "WINCH"])),
                7 => format!("{} {} , {}", r.pick(&["sub", "cs", "bg"]), simple(&mut r), simple(&mut r)).replace("T k4", "T c4"),
                8 => format!("W {} {}", r.pick(&["INT", "USR1", "TERM"]), r.pick(&["INT", "USR1", "QUIT", "USR2"])),
                9 if r.chance(1, 2) => {
                    let s = *r.pick(&["INT", "USR1", "TERM"]);
                    format!("T r{s}.{} {s}", 10 + r.below(5))
                }
                9 => format!("R {}", 1 + r.below(5)),
                10 if r.chance(1, 3) => format!("X {}", r.below(5)),
                _ => simple(&mut r),
            };
            parts.push(st);
        }
        if let Some(i) = parts.iter().position(|p| p.starts_with("W ")) {
            // keep the restrictions of `W` (see run_tb_case)
            let mut kept: Vec<String> = parts[..=i].to_vec();
            kept.extend(parts[i + 1..].iter().filter(|p| !["sub ", "cs ", "bg ", "W "].iter().any(|k| p.starts_with(k))).cloned());
            parts = kept.iter().map(|p| p.replace("CHLD", "HUP")).collect();
        }
        emit_tb(format!("tb {}", parts.join("; ")), &mut out);
    }
    emit_tb("conds".to_string(), &mut out);

    // 7. `sc`: the system-call leg.  Every history of up to 2 (quick) / 3 (thorough) operations that make
    //    system calls, on one focus signal, from both inherited dispositions: first without faults (the
    //    record of calls is the observation), then with a fault at every single call position; random longer
    //    histories over all signals with random fault plans.  A history and all its plans belong to one shard.
    let sc_alpha = |f: &str| -> Vec<String> {
        let mut ops = vec![];
        for a in ["d", "i", "c1"] {
            for ov in [0, 1] {
                ops.push(format!("set {f} {a} {ov}"));
            }
        }
        for x in ["chld", "term+", "term-", "stop+", "stop-", "dis", "sub 0 0", "sub 1 0", "sub 0 1", "sub 1 1"] {
            ops.push(x.to_string());
        }
        ops.push(format!("peek {f}"));
        ops
    };
    let mut sc_index = 0usize;
    let mut sc_history = |hist: &str, extra_plans: &[String]| {
        let mine = sc_index % o.shard.1 == o.shard.0;
        sc_index += 1;
        if !mine {
            return;
        }
        let case = format!("sc -; {hist}");
        let (obs, oracle, n) = run_guarded(&case);
        emit(&case, &obs, &oracle);
        let n: usize = n.parse().unwrap_or(0);
        for k in 0..n.min(40) {
            let plan: String = (0..=k).map(|i| if i == k { '1' } else { '0' }).collect();
            let case = format!("sc {plan}; {hist}");
            let (obs, oracle, _) = run_guarded(&case);
            emit(&case, &obs, &oracle);
        }
        for plan in extra_plans {
            let case = format!("sc {plan}; {hist}");
            let (obs, oracle, _) = run_guarded(&case);
            emit(&case, &obs, &oracle);
        }
    };
    let sc_focus: &[&str] = if o.thorough() { &["INT", "QUIT", "TERM", "CHLD", "TSTP", "USR1", "KILL"] } else { &["INT", "TERM", "CHLD", "TSTP", "USR1"] };
    for f in sc_focus {
        let alpha = sc_alpha(f);
        for ign in [false, true] {
            let prefix = if ign { format!("ign {f}; ") } else { String::new() };
            for a in &alpha {
                sc_history(&format!("{prefix}{a}"), &[]);
                for b in &alpha {
                    sc_history(&format!("{prefix}{a}; {b}"), &["11".to_string(), "011".to_string(), "0101".to_string()]);
                    if o.thorough() && ["INT", "CHLD", "TSTP"].contains(f) {
                        for c in &alpha {
                            sc_history(&format!("{prefix}{a}; {b}; {c}"), &[]);
                        }
                    }
                }
            }
        }
    }
    let mut rng = Rng::new(o.seed ^ 0x5CA11);
    let n_sc = if o.thorough() { 10_000 } else { 1_500 };
    for _ in 0..n_sc {
        let mut r = rng.fork();
        let nsig = 1 + r.below(3);
        let sigs: Vec<&str> = (0..nsig).map(|_| *r.pick(&all)).collect();
        let mut parts: Vec<String> = vec![];
        let ign: Vec<&str> = all.iter().copied().filter(|_| r.chance(1, 5)).collect();
        if !ign.is_empty() {
            parts.push(format!("ign {}", ign.join(" ")));
        }
        let len = 3 + r.below(10);
        for _ in 0..len {
            let s = *r.pick(&sigs);
            parts.push(match r.below(12) {
                0..=4 => {
                    let c = if r.chance(1, 8) { "EXIT" } else { s };
                    let a = match r.below(3) { 0 => "d".to_string(), 1 => "i".to_string(), _ => format!("c{}", 1 + r.below(3)) };
                    format!("set {c} {a} {}", if r.chance(1, 4) { 1 } else { 0 })
                }
                5 => "chld".into(),
                6 => r.pick(&["term+", "term-"]).to_string(),
                7 => r.pick(&["stop+", "stop-"]).to_string(),
                8 => "dis".into(),
                9 | 10 => format!("sub {} {}", r.below(2), r.below(2)),
                _ => format!("peek {}", if r.chance(1, 6) { "EXIT" } else { s }),
            });
        }
        // fault plans: none (single faults are added by sc_history), and two random ones
        let plans: Vec<String> = (0..2)
            .map(|_| (0..24).map(|_| if r.chance(1, 6) { '1' } else { '0' }).collect::<String>())
            .collect();
        sc_history(&parts.join("; "), &plans);
    }
}
