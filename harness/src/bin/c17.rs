//! C17 — alias substitution: the real lexer/parser with an alias glossary against the Lean model
//! `YashModel.Alias` (origin-chain buffer + position automaton).
//!
//! Case line: `<entries> | <hex line>` where `<entries>` is a blank-separated list of
//! `name:n:<hex value>` (ordinary alias) / `name:g:<hex value>` (global alias).
//! Observation (impl): `ok <hex of the substituted text> C=<origins> T=<final alias table>` — `C=` is the origin
//! chain of EVERY character of the buffer (`Lexer::location_range(i..i+1)` followed through `Source::Alias`,
//! alias names innermost first, run-length coded `<n>x<hex name>>…`, `-` = typed) — the content of the real
//! lexer's character buffer after every command line was parsed with the aliases
//! (`Lexer::source_string`) — or `syntax-error` / `TIMEOUT`.
//! Like `read_eval_loop`, the harness parses one command line at a time on ONE lexer and, before parsing
//! the next, executes the line's bare `alias …` / `unalias …` simple commands with the REAL built-ins on a
//! real (virtual) `Env` whose alias set is the parser's glossary: the table changes while a multi-line
//! replacement is still being read.  No other command is executed.
//! Oracle (real code only): the substituted text, parsed again by the real parser WITHOUT aliases, must
//! print the same command lists as the parse with aliases ("the commands executed equal those obtained
//! by performing the textual substitutions by hand"); every word of the result that came out of an
//! alias must carry an origin chain without a repeated name, no longer than the table.

use futures_util::FutureExt as _;
use std::cell::{Cell, RefCell};
use std::rc::Rc;
use yash_env::Env;
use yash_env::builtin::Builtin;
use yash_env::builtin::Type::Mandatory;
use yash_semantics::command::Command as _;
use yash_syntax::alias::{Alias, Glossary, HashEntry};
use yash_syntax::parser::Parser;
use yash_syntax::parser::lex::Lexer;
use yash_syntax::source::{Location, Source};
use yverif::proto::{Opts, dec_str, emit, enc_str, guarded, quiet_panics};
use yverif::rng::Rng;

/// Glossary with a step budget: every substitution needs a look-up, so an endless substitution
/// exhausts the budget (reported as `TIMEOUT`).
struct Budgeted<'a, 'b, S> {
    /// the glossary exactly as `read_eval_loop` passes it: `&RefCell<&mut Env>`
    cell: &'a RefCell<&'b mut Env<S>>,
    left: &'a Cell<usize>,
}

impl<S> std::fmt::Debug for Budgeted<'_, '_, S> {
    fn fmt(&self, f: &mut std::fmt::Formatter<'_>) -> std::fmt::Result {
        write!(f, "Budgeted({})", self.left.get())
    }
}

impl<S: std::fmt::Debug> Glossary for Budgeted<'_, '_, S> {
    fn look_up(&self, name: &str) -> Option<Rc<Alias>> {
        let n = self.left.get();
        if n == 0 {
            panic!("BUDGET");
        }
        self.left.set(n - 1);
        // &T -> RefCell<T> -> &mut T -> Env -> AliasSet, as in the shell
        Glossary::look_up(&self.cell, name)
    }
    fn is_empty(&self) -> bool {
        Glossary::is_empty(&self.cell)
    }
}

#[derive(Clone, Debug)]
struct Entry {
    name: String,
    global: bool,
    value: String,
}

fn parse_case(case: &str) -> Option<(Vec<Entry>, String)> {
    let (t, l) = case.split_once('|')?;
    let mut es = vec![];
    for e in t.split_whitespace() {
        let mut it = e.splitn(3, ':');
        let name = it.next()?.to_string();
        let global = match it.next()? {
            "g" => true,
            "n" => false,
            _ => return None,
        };
        let value = dec_str(it.next()?)?;
        es.push(Entry { name, global, value });
    }
    Some((es, dec_str(l.trim())?))
}

fn show_case(es: &[Entry], line: &str) -> String {
    let t: Vec<String> = es
        .iter()
        .map(|e| format!("{}:{}:{}", e.name, if e.global { "g" } else { "n" }, enc_str(&e.value)))
        .collect();
    format!("{} | {}", t.join(" "), enc_str(line))
}

type VEnv = Env<Rc<yash_env::system::Concurrent<yash_env::VirtualSystem>>>;

fn new_env(es: &[Entry]) -> (VEnv, Rc<RefCell<yash_env::system::r#virtual::SystemState>>) {
    let system = yash_env::VirtualSystem::new();
    let state = Rc::clone(&system.state);
    let mut env = Env::with_system(Rc::new(yash_env::system::Concurrent::new(system)));
    // all real built-ins, as yash-cli installs them: the parser's declaration-utility glossary is the Env
    // (export/readonly/typeset = declaration utilities, command = neutral, anything else = not)
    env.builtins.extend(yash_builtin::iter());
    for e in es {
        // the first definition of a name wins (the model's table look-up is `find?`)
        if env.aliases.get(e.name.as_str()).is_none() {
            env.aliases
                .insert(HashEntry::new(e.name.clone(), e.value.clone(), e.global, Location::dummy("def")));
        }
    }
    (env, state)
}

/// The bare `alias …` / `unalias …` simple commands of a command line (top-level items that are one
/// simple command without assignments, redirections, `!`, `|`, `&&`, `||`, `&`).
fn alias_commands(list: &yash_syntax::syntax::List) -> Vec<Rc<yash_syntax::syntax::Command>> {
    use yash_syntax::syntax::Command;
    let mut v = vec![];
    for item in &list.0 {
        let ao = &item.and_or;
        if item.async_flag.is_some() || !ao.rest.is_empty() || ao.first.negation || ao.first.commands.len() != 1 {
            continue;
        }
        if let Command::Simple(sc) = &*ao.first.commands[0] {
            if sc.assigns.is_empty() && sc.redirs.is_empty() {
                if let Some((w, _)) = sc.words.first() {
                    use yash_syntax::syntax::MaybeLiteral as _;
                    let name = w.to_string_if_literal();
                    // only commands whose words need quote removal only (no expansion of any kind)
                    let plain = sc
                        .words
                        .iter()
                        .all(|(w, _)| !w.to_string().contains(['$', '`', '~', '*', '?', '[']));
                    if plain && (name.as_deref() == Some("alias") || name.as_deref() == Some("unalias")) {
                        v.push(Rc::clone(&ao.first.commands[0]));
                    }
                }
            }
        }
    }
    v
}

struct Parsed {
    /// printed command lists, one per command line; `None` = syntax error
    printed: Option<Vec<String>>,
    /// content of the lexer's buffer up to the current index
    text: String,
    /// origin chain (alias names, innermost first) of every character of `text`, read from the real
    /// lexer with `Lexer::location_range(i..i + 1)`
    origins: Vec<Vec<String>>,
    /// origin chains (innermost first) of all words of simple commands found in the result
    chains: Vec<Vec<String>>,
    /// `Lexer::is_after_blank_ending_alias(i)` for every index of the buffer (asked when the chunk is flushed)
    bits: Vec<bool>,
    /// the private `is_line_continuation` flag of every buffer character (read from the lexer's `Debug` output)
    lcs: Vec<bool>,
    /// `location.range` of every TYPED character of the buffer, in buffer order
    typed_ranges: Vec<(usize, usize, String)>,
    /// exit status and standard output of every executed alias / unalias command
    results: Vec<(i32, Vec<u8>)>,
    /// the alias table at the end, sorted by name
    table: String,
    /// all alias names ever defined
    names: Vec<String>,
}

fn chain_of(loc: &Location) -> Vec<String> {
    let mut v = vec![];
    let mut l = loc;
    while let Source::Alias { original, alias } = &*l.code.source {
        v.push(alias.name.clone());
        l = original;
    }
    v
}

fn collect_chains(list: &yash_syntax::syntax::List, out: &mut Vec<Vec<String>>) {
    use yash_syntax::syntax::Command;
    for item in &list.0 {
        let ao = &item.and_or;
        let pipes = std::iter::once(&ao.first).chain(ao.rest.iter().map(|(_, p)| p));
        for p in pipes {
            for c in &p.commands {
                if let Command::Simple(sc) = &**c {
                    for (w, _) in &sc.words {
                        out.push(chain_of(&w.location));
                    }
                    for a in &sc.assigns {
                        out.push(chain_of(&a.location));
                    }
                }
            }
        }
    }
}

/// An input that hands the script to the lexer in pieces of `k` characters (not line by line): the lexer then has to
/// read more input while the last character of its buffer comes out of an alias (`LexerCore::next_index` follows
/// `Source::Alias { original, .. }`), which a line-oriented input only causes after `Lexer::reset`.
struct Chunked {
    chunks: std::collections::VecDeque<String>,
}

impl Chunked {
    fn new(code: &str, k: usize) -> Self {
        let cs: Vec<char> = code.chars().collect();
        Chunked { chunks: cs.chunks(k.max(1)).map(|c| c.iter().collect()).collect() }
    }
}

impl yash_env::input::Input for Chunked {
    async fn next_line(&mut self, _context: &yash_env::input::Context) -> yash_env::input::Result {
        Ok(self.chunks.pop_front().unwrap_or_default())
    }
}

fn real_parse(es: &[Entry], line: &str, budget: usize, exec: bool) -> Parsed {
    real_parse_with(es, line, budget, exec, None)
}

#[allow(deprecated)]
fn real_parse_with(es: &[Entry], line: &str, budget: usize, exec: bool, chunk: Option<usize>) -> Parsed {
    let (mut env, state) = new_env(es);
    let mut results: Vec<(i32, Vec<u8>)> = vec![];
    let left = Cell::new(budget);
    // three ways to make the lexer: the convenience constructor, the (deprecated) lexer `Config`, `from_memory`
    let mut lexer = match chunk {
        Some(k) => Lexer::config().input(Box::new(Chunked::new(line, k))),
        None if exec => Lexer::with_code(line),
        None => Lexer::from_memory(line, Source::Unknown),
    };
    let mut printed = Some(vec![]);
    let mut typed_ranges: Vec<(usize, usize, String)> = vec![];
    let mut chains = vec![];
    let mut names: Vec<String> = env.aliases.iter().map(|e| e.0.name.clone()).collect();
    let mut rounds = 0usize;
    let mut text = String::new();
    let mut origins: Vec<Vec<String>> = vec![];
    let mut bits: Vec<bool> = vec![];
    let mut lcs: Vec<bool> = vec![];
    let mut push_origins = |lexer: &Lexer, origins: &mut Vec<Vec<String>>| {
        for i in 0..lexer.index() {
            let loc = lexer.location_range(i..i + 1);
            if !matches!(&*loc.code.source, Source::Alias { .. }) {
                // the character sits, in its own code, at the range its location names
                let at = loc.code.value.borrow().chars().nth(loc.range.start).map(|c| c.to_string());
                let here = lexer.source_string(i..i + 1);
                let ok = loc.range.end == loc.range.start + 1 && at.as_deref() == Some(here.as_str());
                typed_ranges.push((loc.range.start, loc.range.end, if ok { String::new() } else { here }));
            }
            origins.push(chain_of(&loc));
            bits.push(lexer.is_after_blank_ending_alias(i));
        }
        if exec {
            // `SourceCharEx { value, is_line_continuation }`: one occurrence of the field per buffer character
            let dbg = format!("{lexer:?}");
            let flags: Vec<bool> =
                dbg.split("is_line_continuation: ").skip(1).map(|r| r.starts_with("true")).collect();
            lcs.extend(flags.into_iter().take(lexer.index()));
        }
    };
    let cell = RefCell::new(&mut env);
    loop {
        rounds += 1;
        if rounds > 3000 {
            panic!("BUDGET");
        }
        // as read_eval_loop does: drop the consumed buffer when nothing is pending, refresh the mode
        if !lexer.pending() {
            text.push_str(&lexer.source_string(0..lexer.index()));
            push_origins(&lexer, &mut origins);
            lexer.flush();
        }
        lexer.set_mode(yash_env::parser::Mode::from(&cell.borrow().options));
        let r = if exec {
            let g = Budgeted { cell: &cell, left: &left };
            Parser::config()
                .aliases(&g)
                .declaration_utilities(&cell)
                .input(&mut lexer)
                .command_line()
                .now_or_never()
                .expect("memory input never blocks")
        } else {
            // no aliases at all: the default configuration (EmptyGlossary)
            Parser::new(&mut lexer)
                .command_line()
                .now_or_never()
                .expect("memory input never blocks")
        };
        match r {
            Ok(Some(list)) => {
                collect_chains(&list, &mut chains);
                printed.as_mut().unwrap().push(list.to_string());
                if exec {
                    let env = &mut **cell.borrow_mut();
                    for c in alias_commands(&list) {
                        let before = yverif::shell::read_file(&state, "/dev/stdout").unwrap_or_default().len();
                        let _ = c.execute(env).now_or_never().expect("built-in never blocks");
                        let after = yverif::shell::read_file(&state, "/dev/stdout").unwrap_or_default();
                        results.push((env.exit_status.0, after[before.min(after.len())..].to_vec()));
                    }
                    for e in env.aliases.iter() {
                        if !names.contains(&e.0.name) {
                            names.push(e.0.name.clone());
                        }
                    }
                }
            }
            Ok(None) => break,
            Err(_) => {
                printed = None;
                break;
            }
        }
    }
    text.push_str(&lexer.source_string(0..lexer.index()));
    push_origins(&lexer, &mut origins);
    drop(cell);
    let mut t: Vec<String> = env
        .aliases
        .iter()
        .map(|e| format!("{}:{}:{}", enc_str(&e.0.name), if e.0.global { "g" } else { "n" }, enc_str(&e.0.replacement)))
        .collect();
    t.sort_by(|a, b| {
        let ka = dec_str(a.split(':').next().unwrap()).unwrap();
        let kb = dec_str(b.split(':').next().unwrap()).unwrap();
        ka.cmp(&kb)
    });
    let table = if t.is_empty() { "-".to_string() } else { t.join(",") };
    Parsed { printed, text, origins, bits, lcs, typed_ranges, chains, results, table, names }
}

/// run-length form of the per-character origins: `<count>x<chain>` per maximal run, chain = hex names
/// joined by `>` (innermost first), `-` = typed character
fn show_origins(o: &[Vec<String>]) -> String {
    if o.is_empty() {
        return "-".into();
    }
    let mut runs: Vec<(usize, &Vec<String>)> = vec![];
    for c in o {
        match runs.last_mut() {
            Some((n, d)) if *d == c => *n += 1,
            _ => runs.push((1, c)),
        }
    }
    runs.iter()
        .map(|(n, c)| {
            let names: Vec<String> = c.iter().map(|x| enc_str(x)).collect();
            format!("{n}x{}", if names.is_empty() { "-".to_string() } else { names.join(">") })
        })
        .collect::<Vec<_>>()
        .join(",")
}

/// run-length form of a bit vector: `<count>x<0|1>` per maximal run
fn show_bits(o: &[bool]) -> String {
    if o.is_empty() {
        return "-".into();
    }
    let mut runs: Vec<(usize, bool)> = vec![];
    for &c in o {
        match runs.last_mut() {
            Some((n, d)) if *d == c => *n += 1,
            _ => runs.push((1, c)),
        }
    }
    runs.iter().map(|(n, c)| format!("{n}x{}", if *c { 1 } else { 0 })).collect::<Vec<_>>().join(",")
}

fn show_printed(p: &Option<Vec<String>>) -> String {
    match p {
        None => "syntax-error".into(),
        Some(v) => v.join(" ;; "),
    }
}

/// every scalar value for which the real `is_blank` holds, as maximal ranges
fn blank_ranges() -> String {
    let mut out = vec![];
    let mut start: Option<u32> = None;
    for n in 0u32..0x110000 {
        let b = char::from_u32(n).is_some_and(yash_syntax::parser::lex::is_blank);
        match (start, b) {
            (None, true) => start = Some(n),
            (Some(lo), false) => {
                out.push(format!("{:x}-{:x}", lo, n - 1));
                start = None;
            }
            _ => {}
        }
    }
    if let Some(lo) = start {
        out.push(format!("{lo:x}-10ffff"));
    }
    out.join(",")
}

/// `Rec::{is_alias_substituted, map, unwrap}`, `EmptyGlossary::look_up`, `Config::default` (coverage triage, session 4):
/// one `take_token_manual(true)` on the first token of the script, against what the token itself says — it is replaced
/// iff it is a `Token(_)` whose literal text names an alias (first token: command position, empty origin chain).
fn rec_api_oracle(es: &[Entry], line: &str) -> Option<String> {
    use yash_syntax::parser::Rec;
    use yash_syntax::parser::lex::TokenId;
    use yash_syntax::syntax::MaybeLiteral as _;
    if yash_syntax::alias::EmptyGlossary.look_up("a").is_some() {
        return Some("EmptyGlossary-defines-an-alias".into());
    }
    let set: yash_syntax::alias::AliasSet = {
        let mut s = yash_syntax::alias::AliasSet::new();
        for e in es {
            if s.get(e.name.as_str()).is_none() {
                s.insert(HashEntry::new(e.name.clone(), e.value.clone(), e.global, Location::dummy("def")));
            }
        }
        s
    };
    // what the first token is, without aliases
    let mut l0 = Lexer::with_code(line);
    let first = Parser::new(&mut l0).take_token_raw().now_or_never()?.ok()?;
    let expect = matches!(first.id, TokenId::Token(_))
        && first.word.to_string_if_literal().is_some_and(|n| set.get(n.as_str()).is_some());
    let text = first.word.to_string();
    for round in 0..2 {
        let mut l1 = Lexer::with_code(line);
        let mut parser = yash_syntax::parser::Config::default().aliases(&set).input(&mut l1);
        let rec = parser.take_token_manual(true).now_or_never()?.ok()?;
        if rec.is_alias_substituted() != expect {
            return Some(format!("Rec::is_alias_substituted={}-expected-{expect}", rec.is_alias_substituted()));
        }
        if round == 0 {
            match rec.map(|t| Ok(t.word.to_string())) {
                Ok(Rec::AliasSubstituted) if expect => {}
                Ok(Rec::Parsed(t)) if !expect && t == text => {}
                _ => return Some("Rec::map-changes-the-variant-or-the-token".into()),
            }
        } else {
            let r = std::panic::catch_unwind(std::panic::AssertUnwindSafe(|| rec.unwrap().word.to_string()));
            match r {
                Err(_) if expect => {}
                Ok(t) if !expect && t == text => {}
                _ => return Some("Rec::unwrap-wrong".into()),
            }
        }
    }
    None
}

/// `yash_env::alias::is_portable_alias_name` on every one-character string below U+0300 (ranges) and on a few longer ones
fn portable_names() -> String {
    let mut out = vec![];
    let mut start: Option<u32> = None;
    for n in 0u32..0x300 {
        let b = char::from_u32(n).is_some_and(|c| yash_env::alias::is_portable_alias_name(&c.to_string()));
        match (start, b) {
            (None, true) => start = Some(n),
            (Some(lo), false) => {
                out.push(format!("{:x}-{:x}", lo, n - 1));
                start = None;
            }
            _ => {}
        }
    }
    let words = ["", "a", "ab_1", "a b", "a=b", "-x", "A!%,-@_9", "é", "a.b", "a/b", "x\ny"];
    let bits: String =
        words.iter().map(|w| if yash_env::alias::is_portable_alias_name(w) { '1' } else { '0' }).collect();
    format!("{} {bits}", out.join(","))
}

fn run_case(case: &str) -> (String, String) {
    if case.trim() == "portable-names" {
        return (format!("portable {}", portable_names()), "-".into());
    }
    if case.trim() == "blank-sweep" {
        return (format!("blank {}", blank_ranges()), "-".into());
    }
    let Some((es, line)) = parse_case(case) else {
        return ("bad-case".into(), "-".into());
    };
    let mut oracle = String::from("-");
    let obs = guarded(|| {
        let p = real_parse(&es, &line, 4000, true);
        match &p.printed {
            None => "syntax-error".to_string(),
            Some(_) => {
                // the property statement on the real code: hand-substituted text == alias parse
                let q = real_parse(&[], &p.text, 10, false);
                let names = &p.names;
                oracle = if q.printed != p.printed {
                    format!(
                        "FAIL:reparse-differs[{}]vs[{}]",
                        show_printed(&p.printed).replace(['\t', '\n'], " "),
                        show_printed(&q.printed).replace(['\t', '\n'], " ")
                    )
                } else if let Some(c) = p.chains.iter().find(|c| {
                    let mut s = (*c).clone();
                    s.sort();
                    s.dedup();
                    s.len() != c.len() || c.len() > names.len()
                }) {
                    format!("FAIL:chain[{}]", c.join(">"))
                } else {
                    "ok".into()
                };
                // (coverage triage, session 4) the same script handed over in pieces of k characters must give the same
                // buffer, origins, blank-rule bits, commands, table and built-in results; and in BOTH runs the k-th typed
                // character sits at k..k+1 of the typed code (`next_index` is what numbers the characters read later)
                if oracle == "ok" {
                    let k = 1 + (p.text.len() + es.len()) % 4;
                    let c = real_parse_with(&es, &line, 4000, true, Some(k));
                    if c.printed != p.printed || c.text != p.text || c.origins != p.origins || c.bits != p.bits
                        || c.table != p.table || c.results != p.results
                    {
                        oracle = format!("FAIL:chunked-input-{k}-differs");
                    }
                    // a typed character of the buffer is the character found at its location's range in its location's code
                    for run in [&p, &c] {
                        if let Some(r) = run.typed_ranges.iter().find(|r| !r.2.is_empty()) {
                            if oracle == "ok" {
                                oracle = format!("FAIL:typed-char-at-{}..{}", r.0, r.1);
                            }
                        }
                    }
                }
                if oracle == "ok" {
                    if let Some(why) = rec_api_oracle(&es, &line) {
                        oracle = format!("FAIL:{why}");
                    }
                }
                // the private line-continuation flags, on the real code alone: flagged characters are exactly
                // the two characters of backslash-newline pairs, and one flag per buffer character was found
                let tc: Vec<char> = p.text.chars().collect();
                if oracle == "ok" {
                    if p.lcs.len() != tc.len() {
                        oracle = format!("FAIL:lc-flags-{}-for-{}-chars", p.lcs.len(), tc.len());
                    } else {
                        for i in 0..tc.len() {
                            let pair_first = tc[i] == '\\' && i + 1 < tc.len() && tc[i + 1] == '\n' && p.lcs[i + 1];
                            let pair_second = tc[i] == '\n' && i > 0 && tc[i - 1] == '\\' && p.lcs[i - 1];
                            if p.lcs[i] && !(pair_first || pair_second) {
                                oracle = format!("FAIL:lc-flag-on-char-{i}");
                                break;
                            }
                        }
                    }
                }
                let xs: Vec<String> = p
                    .results
                    .iter()
                    .map(|(st, out)| format!("{st}:{}", enc_str(&String::from_utf8_lossy(out))))
                    .collect();
                format!(
                    "ok {} C={} B={} T={} X={}",
                    enc_str(&p.text),
                    show_origins(&p.origins),
                    show_bits(&p.bits),
                    p.table,
                    if xs.is_empty() { "-".to_string() } else { xs.join(",") }
                )
            }
        }
    });
    if obs.starts_with("PANIC(BUDGET") {
        return ("TIMEOUT".into(), "FAIL:substitution-does-not-terminate".into());
    }
    if obs.starts_with("PANIC") {
        return (obs.clone(), format!("FAIL:{obs}"));
    }
    (obs, oracle)
}

// ------------------------------------------------------------------------------------------
// generator

const NAMES: [&str; 4] = ["a", "b", "c", "d"];

/// Values an alias may have, given the names in play.
fn value_pool(names: &[&str]) -> Vec<String> {
    let mut v: Vec<String> = vec![];
    for n in names {
        v.push(n.to_string()); // other name / self
        v.push(format!("{n} ")); // name + blank
    }
    v.push(String::new()); // empty
    v.push(" ".into()); // a lone blank
    for w in ["x", "x ", "x y", "x y ", "'a'", "\\a", "\"b\" ", "$a "] {
        v.push(w.into());
    }
    for w in ["if", "then", "! ", "{ ", "}", "for", "in ", "do", "done", "case", "esac", "while ", "fi", "else "] {
        v.push(w.into());
    }
    for w in ["function ", "[[ ", "select", "namespace ", "v=(", "v=(x ", "export ", "command ", "$(x) ", "`x` "] {
        v.push(w.into());
    }
    for w in [";", "|", "&& ", "( ", ")", "> ", "x >", "2>x ", "\n", "; ", "v=1 ", ";;", "x |"] {
        v.push(w.into());
    }
    // non-ASCII material: 2-, 3- and 4-byte characters (byte length != character length), with and
    // without a trailing blank, also as the only content before the blank
    // values whose final blank is quoted: the rule looks at the value's text, not at its tokens
    for w in ["x\\ ", "'x ' ", "\\ "] {
        v.push(w.into());
    }
    for w in ["é", "é ", "あ ", "😀 ", "x é ", "é x ", "あ😀 ", "éé", "x あ", "'é' ", "😀"] {
        v.push(w.into());
    }
    // Unicode blanks (`is_blank` = `char::is_whitespace` minus newline): NBSP (2 bytes), EM SPACE and
    // IDEOGRAPHIC SPACE (3 bytes), NEL; as the final blank of a value, as the only character, inside a value
    for w in ["x\u{a0}", "x\u{3000}", "\u{3000}", "x\u{2003}y", "x\u{85}", "é\u{2003}", "x \u{a0}", "x\u{3000} y"] {
        v.push(w.into());
    }
    for n in names.iter().take(2) {
        v.push(format!("{n}\u{3000}"));
        v.push(format!("{n}\u{a0}"));
    }
    for n in names.iter().take(2) {
        v.push(format!("{n} é "));
        v.push(format!("é {n} "));
        v.push(format!("😀 {n}"));
    }
    // two-token values mentioning names
    for n in names.iter().take(2) {
        v.push(format!("x {n}"));
        v.push(format!("{n} {n} "));
        v.push(format!("! {n}"));
        v.push(format!("v={n} {n}"));
        v.push(format!(">{n} "));
        v.push(format!("> {n} "));
        v.push(format!("x {n} "));
        v.push(format!("{n} x "));
        v.push(format!("\\\n{n} "));
    }
    v
}

/// Command lines placing the names in command, argument, assignment, redirection and post-keyword
/// positions (`{0}` … `{3}` are replaced by names).
const LINES: &[&str] = &[
    "{0}",
    "{0} {1}",
    "{0} {1} {2}",
    "{0} {0}",
    "x {0}",
    "x {0} {1}",
    "{0}; {1}",
    "{0} & {1}",
    "{0} | {1}",
    "{0} && {1}",
    "{0} || {1} {2}",
    "{0}\n{1}",
    "{0} \\\n{1}",
    "{0} \\\n {1} \\\n{2}",
    "v=1 {0}",
    "v={0} {1}",
    "v=1 w=2 {0} {1}",
    ">f {0}",
    "> {0} {1}",
    "{0} > {1}",
    "{0} >{1} {2}",
    "2>f {0} {1}",
    "{0} 2> {1} {2}",
    "( {0} )",
    "( {0} ) {1}",
    "( {0}; {1} ) > {2}",
    "{ {0}; }",
    "{ {0}; {1}; }",
    "! {0}",
    "! {0} | {1}",
    "if {0}; then {1}; fi",
    "if {0}; then {1}; else {2}; fi",
    "if {0}\nthen {1}\nelif {2}\nthen {0}\nfi",
    "while {0}; do {1}; done",
    "until {0} {1}; do {2}; done",
    "for {0} in {1} {2}; do {0}; done",
    "for x in {0}; do {1}; done",
    "for x do {0}; done",
    "for x\ndo {0}\ndone",
    "for x in\ndo {0}; done",
    "case {0} in {1}) {2};; esac",
    "case x in ({0}) {1} ;; {2}) {0} ;; esac",
    "case x in {0} | {1}) {2}; esac",
    "case x\nin\n{0}) {1}\n;;\nesac",
    "{0}() { {1}; }",
    "f() { {0}; }",
    "f ( ) {0}",
    "f()\n{0}",
    "'{0}' {1}",
    "\\{0} {1}",
    "\"{0}\" {1}",
    "{0}x {1}",
    "${0} {1}",
    "{0} '{1}' {2}",
    "{0} # {1}\n{2}",
    "{0} &&\n{1}",
    "{0} |\n{1}",
    "{0} && {1} \n{2}",
    "{0};{1}&{2}",
    "x {0} \\\n {1}; {2}",
    "if {0}; then {1}; fi {2}",
    "if {0}; then {1}; fi > {2} {3}",
    "{ {0}; } {1}",
    "( {0} ) | {1} {2}",
    "f ( {0} { {1}; }",
    "f ( {0} ) { {1}; }",
    "f ( ) {0} {1}; }",
    "case x in ({0}) {1};; esac",
    "case x in (esac) {0};; esac",
    "case {0} {1} {2}) x;; esac",
    "for {0} in {1}; do {2}; done > {3}",
    "for {0} {1} {2}; do x; done",
    "while {0}; do {1}; done {2}",
    "{0} | ! {1}",
    "! ! {0}",
    "{0} && ! {1} {2}",
    "{0} ||\n\n{1} {2}",
    "{0} ; ; {1}",
    "{0} >{1} {2}",
    "x &{0}",
    "{0} |{1}",
    "{0} {1}>f",
    "v=1 >f {0} {1}",
    "{0} {1} \\\n\\\n {2} {3}",
    "{0}\n\n{1} # {2}",
    "{0} <{1}",
    "{0} é {1}",
    "é {0} {1}",
    "{0} あ😀 {1} \\\n {2}",
    "{0} {1}é {2}",
    "é=1 {0} > 😀 {1}",
    "x \\\n{0}",
    "x \\\n {0} \\\n{1}",
    "x\\\n {0} {1}",
    "> \\\n{0} {1}",
    "{0} > \\\n {1} \\\n {2}",
    "for x in \\\n{0} \\\n {1}; do {2}; done",
    "case \\\n{0} in {1} \\\n| {2}) x;; esac",
    "{0} &&\\\n {1} \\\n {2}",
    "if {0} \\\n{1}; then \\\n{2}; fi",
    // Unicode blanks separate tokens and are walked over by the blank rule
    "{0}\u{3000}{1}",
    "{0}\u{a0}{1} {2}",
    "x\u{2003}{0} \u{3000}\\\n\u{a0}{1}",
    "{0} >\u{3000}{1}\u{85}{2}",
    // command substitutions and backquotes: parsed by a nested parser WITHOUT aliases
    "{0} $({1} {2}) {3}",
    "$({0}) {1}",
    "{0} `{1} {2}` {3}",
    "{0} \"$({1}; {2})\" {3}",
    "{0}=$({1}) {2}",
    "x $({0} | ({1})) {2}",
    "{0} > $({1}) {2}",
    "{0} $({1} '{2})' ) {3}",
    // array assignments: the values are taken with take_token_auto
    "v=({0} {1}) {2}",
    "v=(\n{0}\n{1}) {2}",
    "{0} v=({1})",
    "v=() {0}",
    "v=({0}",
    "w=1 v=({0} {1}) {2} {3}",
    "v= ({0})",
    "v=({0} > {1})",
    "v=; {0}",
    "v=\n{0}",
    "v=|{0}",
    "v= {0}",
    // declaration utilities (expansion mode of the arguments; `command` defers the decision)
    "export {0}={1} {2}",
    "readonly {0} {1}",
    "command export {0}={1}",
    "command {0} {1}",
    "typeset {0}=~ {1}",
    // here-documents: the delimiter is a redirection operand (global aliases / blank rule apply to it);
    // the body is read raw at the next newline
    "cat <<{0}\nx\n{0}\n{1}",
    "cat <<E {0}\n{1}\nE\n{2}",
    "{0} <<-E\n\tx {1}\n\tE\n{1}",
    "cat << {0} << {1}\nx\n{0}\ny\n{1}\n{2}",
    "cat <<E\n{0}",
    "{0} <<'E'\n{1}\nE\n",
    "cat <<\\{0}\nx\n{0}\n{1}",
    "if {0} <<E\nx\nE\nthen {1}; fi",
    "cat <<{0}",
    "{0} <<E; {1}\n{2}\nE\n{3}",
    "{0} <<E |\n{1}\nE\n{2}",
    "x {0} << {1} {2}\n{1}\n{2}\n",
    // reserved words the parser knows but does not support
    "function {0}",
    "[[ {0} ]]",
    "{0} function",
    "select {0} in x",
    "{0} && namespace {1}",
];

fn render(tpl: &str, ns: &[&str]) -> String {
    let mut s = tpl.to_string();
    for (i, n) in ns.iter().enumerate() {
        s = s.replace(&format!("{{{i}}}"), n);
    }
    s
}

fn main() {
    quiet_panics();
    let o = Opts::from_args();
    if o.extra.first().map(|s| s.as_str()) == Some("--probe") {
        // --probe 'a=b ' 'g:b=c' -- 'line'
        let mut es = vec![];
        let mut i = 1;
        while i < o.extra.len() && o.extra[i] != "--" {
            let (n, v) = o.extra[i].split_once('=').expect("name=value");
            let (global, n) = match n.strip_prefix("g:") {
                Some(n) => (true, n),
                None => (false, n),
            };
            es.push(Entry { name: n.into(), global, value: v.into() });
            i += 1;
        }
        let line = o.extra[i + 1].replace("\\n", "\n");
        let case = show_case(&es, &line);
        let (obs, oracle) = run_case(&case);
        println!("case   : {case}");
        println!("obs    : {obs}");
        if let Some(h) = obs.strip_prefix("ok ") {
            println!("text   : {:?}", dec_str(h.split(' ').next().unwrap()).unwrap());
        }
        println!("oracle : {oracle}");
        let p = guarded(|| show_printed(&real_parse(&es, &line, 4000, true).printed));
        println!("printed: {p}");
        return;
    }
    if o.extra.first().map(|s| s.as_str()) == Some("--show") {
        let (fixed, _) = o.fixed_cases();
        for c in fixed {
            if let Some((es, line)) = parse_case(&c) {
                let t: Vec<String> = es
                    .iter()
                    .map(|e| format!("{}{}={:?}", if e.global { "g:" } else { "" }, e.name, e.value))
                    .collect();
                println!("{}  ::  {:?}", t.join(" "), line);
            }
        }
        return;
    }
    let (fixed, only) = o.fixed_cases();
    for c in &fixed {
        let (obs, oracle) = run_case(c);
        emit(c, &obs, &oracle);
    }
    if only {
        return;
    }
    let mut idx = 0usize;
    let mut out = |es: &[Entry], line: &str| {
        idx += 1;
        if idx % o.shard.1 != o.shard.0 {
            return;
        }
        let case = show_case(es, line);
        let (obs, oracle) = run_case(&case);
        emit(&case, &obs, &oracle);
    };

    let mut rng = Rng::new(o.seed ^ 0xC17);
    let nnames = if o.thorough() { 4 } else { 3 };
    let names = &NAMES[..nnames];
    let pool = value_pool(names);

    // (1) exhaustive over the core value set {names, name+blank, empty, self} for every name, a few lines
    let core: Vec<String> = {
        let mut v = vec![String::new()];
        for n in names {
            v.push(n.to_string());
            v.push(format!("{n} "));
        }
        v
    };
    let core_lines: Vec<&str> = if o.thorough() {
        vec!["{0} {1} {2} {3}", "{0} {0}; {1}", "x {0}", "{0} \\\n{1} {2}", "{1} > {0} {2}"]
    } else {
        vec!["{0} {1} {2}", "{0} \\\n{1}; {2} {0}", "{1} > {0} {2}"]
    };
    let mut tables: Vec<Vec<Entry>> = vec![vec![]];
    for n in names {
        let mut next = vec![];
        for t in &tables {
            for v in &core {
                let mut t2 = t.clone();
                t2.push(Entry { name: n.to_string(), global: false, value: v.clone() });
                next.push(t2);
            }
        }
        tables = next;
    }
    for t in &tables {
        for l in &core_lines {
            out(t, &render(l, names));
        }
    }

    // (2) random tables over the full pool (with global aliases) × every line template
    let ntables = if o.thorough() { 6000 } else { 130 };
    for _ in 0..ntables {
        let mut r = rng.fork();
        let mut t = vec![];
        let gden = if r.chance(1, 4) { 2 } else { 7 };
        for n in names {
            if r.chance(1, 8) {
                continue; // name left undefined
            }
            let value = if r.chance(1, 2) { r.pick(&core).clone() } else { r.pick(&pool).clone() };
            t.push(Entry { name: n.to_string(), global: r.chance(1, gden), value });
        }
        for l in LINES.iter() {
            // a random assignment of names to the template's slots
            let ns: Vec<&str> = (0..4).map(|_| *r.pick(names)).collect();
            out(&t, &render(l, &ns));
        }
    }

    // (3) aliases named like reserved words: never substituted where the word is recognised as reserved
    // (command start, the `in` of `case`, `esac` after `(`), substituted where it is an ordinary word
    let kw_names = ["if", "then", "fi", "in", "do", "done", "esac", "{", "}", "!", "for", "case"];
    let kw_lines = [
        "if {0}; then {1}; fi",
        "x if then fi",
        "v=1 if x",
        ">f then {0}",
        "case {0} in {1}) {2};; esac",
        "case x in (esac) {0};; esac",
        "case in in in) in;; esac",
        "for x in {0}; do {1}; done",
        "for in in in; do in; done",
        "for do in {0}\ndo {1}\ndone",
        "{ {0}; }",
        "! {0} !",
        "{0} { }",
        "{0} if",
        "f() if {0}; then {1}; fi",
        "f ( ) esac {0}",
        "{0} if {1}",
        "{0} then fi",
        "{0} in {1}",
        "{0} do done",
        "{0} ! {1}",
        "{0} { {1} }",
        "{0} for x",
        "{0} case esac",
        "x {0} if",
        "{0} \\\n if {1} \\\n then",
        "{0} > if then",
        "if {0} if; then {1} fi; fi",
    ];
    let nkw = if o.thorough() { 1500 } else { 60 };
    for _ in 0..nkw {
        let mut r = rng.fork();
        let mut t = vec![];
        for _ in 0..(1 + r.below(3)) {
            let name = r.pick(&kw_names).to_string();
            let value = match r.below(5) {
                0 => r.pick(&kw_names).to_string(),
                1 => format!("{} ", r.pick(names)),
                2 => "x ".to_string(),
                3 => String::new(),
                _ => r.pick(&pool).clone(),
            };
            t.push(Entry { name, global: r.chance(1, 3), value });
        }
        for n in names.iter().take(2) {
            let value = match r.below(4) {
                0 => r.pick(&kw_names).to_string(),
                1 => format!("{} ", r.pick(&kw_names)),
                2 => "x ".to_string(),
                _ => r.pick(&core).clone(),
            };
            t.push(Entry { name: n.to_string(), global: r.chance(1, 6), value });
        }
        for l in kw_lines.iter() {
            let ns: Vec<&str> = (0..4).map(|_| *r.pick(names)).collect();
            out(&t, &render(l, &ns));
        }
    }

    // (4) non-ASCII alias names and values: the blank rule and the recursion guard with byte length !=
    // character length
    let u_names = ["é", "あ", "😀", "a", "b"];
    let u_values = [
        "é ", "あ ", "😀 ", "x é ", "é", "b ", "a ", "😀 é ", "", "x", "é あ ", "b", "a", "é\u{3000}", "b\u{a0}", "a\u{2003}",
        "あ\u{3000}", "\u{a0}",
    ];
    let u_lines = [
        "{0} {1}",
        "{0} {1} {2}",
        "x {0} {1}",
        "{0} \\\n {1} {2}",
        "{0}; {1} {2} {3}",
        "{0} > {1} {2}",
        "if {0} {1}; then {2}; fi",
        "é {0} あ {1} 😀 {2}",
        "{0}{1} {2}",
        "'{0}' {1} {2}",
        "{0}\u{3000}{1}\u{a0}{2}",
        "{0} \u{2003}\\\n\u{3000}{1} {2}",
    ];
    let nu = if o.thorough() { 4000 } else { 150 };
    for _ in 0..nu {
        let mut r = rng.fork();
        let mut t = vec![];
        for n in u_names.iter() {
            if r.chance(1, 6) {
                continue;
            }
            let value = if r.chance(3, 4) { r.pick(&u_values).to_string() } else { r.pick(&pool).clone() };
            t.push(Entry { name: n.to_string(), global: r.chance(1, 8), value });
        }
        for l in u_lines.iter() {
            let ns: Vec<&str> = (0..4).map(|_| *r.pick(&u_names)).collect();
            out(&t, &render(l, &ns));
        }
    }

    // (5) nested substitutions: every value is a sequence of 1-3 names (blank- or `;`-separated, with or
    // without a trailing blank): the recursion guard is consulted at every depth, the blank rule chains
    let n_lines = ["{0}", "{0} {1}", "x {0}", "{0} {1} {2}", "{0}; {1}", "x {0} \\\n{1}", "{0} > {1} {2}", "if {0}; then {1}; fi"];
    let nn = if o.thorough() { 5000 } else { 170 };
    for _ in 0..nn {
        let mut r = rng.fork();
        let mut t = vec![];
        for n in names {
            let k = 1 + r.below(3);
            let mut v = String::new();
            for i in 0..k {
                if i > 0 {
                    v.push_str(r.pick(&[" ", " ", "  ", "; ", " \\\n"]));
                }
                v.push_str(r.pick(names));
            }
            if r.chance(1, 2) {
                v.push(' ');
            }
            t.push(Entry { name: n.to_string(), global: r.chance(1, 10), value: v });
        }
        for l in n_lines.iter() {
            let ns: Vec<&str> = (0..4).map(|_| *r.pick(names)).collect();
            out(&t, &render(l, &ns));
        }
    }

    // (6) the table changes while a replacement is still being read: multi-line values and lines that run
    // `alias` / `unalias` (executed by the real built-ins between command lines); the recursion guard must be
    // about NAMES (redefinition, unalias + re-alias under the same name, definitions of other names)
    let small = |r: &mut Rng| -> String {
        let m = *r.pick(names);
        match r.below(9) {
            0 => "x".to_string(),
            1 => "y ".to_string(),
            2 => m.to_string(),
            3 => format!("{m} "),
            4 => "'x y'".to_string(),
            5 => format!("\"{m} z\""),
            6 => String::new(),
            7 => "r=1".to_string(),
            _ => format!("'{m} {m} '"),
        }
    };
    let v_tpl = [
        "alias {n}={v}\n{n} y",
        "alias {n}={v}\n{m} {n}",
        "unalias {n}\n{n}",
        "unalias {n}\nalias {n}={v}\n{n} z",
        "alias {m}={n}\n{m}",
        "alias {n}={v}; {n}\n{n}",
        "x\nalias {n}={v}\n{n}",
        "unalias -a\n{n} {m}",
        "alias {n}={v} {m}={w}\n{n} {m}",
        "alias {n}={v} &\n{n}",
        "! alias {n}={v}\n{n}",
        "alias {n}={v} | x\n{n}",
        "{ alias {n}={v}\n{n}; }",
        "if alias {n}={v}; then {n}; fi\n{n}",
        "alias {n}={v} > f\n{n}",
        "v=1 alias {n}={v}\n{n}",
        "alias {n}={v} \\\n{m}={w}\n{n} {m}",
        "alias {n}={v} &&\nalias {m}={w}\n{n} {m}",
        "alias {n}={v}\nalias {n}={w}\n{n}",
        "{m}\nalias {m}={v}\n{m} {n}",
        "alias {n}={v}\n\n  {n} # {m}\n{m}",
        "unalias {m} {n}\n{n}; {m}",
        "alias {n}={v}",
        "alias {n}={v}\n",
        "{m} ",
        "x ",
        "alias -x {n}=y\n{n}",
        "alias\n{n}",
        "alias {n}\n{n}",
        "alias {n} {m}={v} zz\n{m}",
        "unalias\n{n}",
        "unalias -a {n}\n{n}",
        "unalias -x\n{n}",
        "alias -- {n}={v}\n{n}",
        "unalias -- {n}\n{n}",
        "unalias {n} {n}\n{n}",
        // `define` splits at the FIRST `=`; the name may be empty
        "alias ={v}\n{n}",
        "alias {n}=={v}\n{n}",
        "alias {n}=\n{n} {m}",
        "alias =x {n}={v}\nunalias ''\n{n}",
        "alias ==\nalias {m}={n}\n{m}",
        // a line continuation inside the command word / the operand: the word is still the literal `alias`
        "al\\\nias {n}={v}\n{n}",
        "unal\\\nias {n}\n{n}",
        "alias {n}\\\n={v}\n{n}",
        "\\\nalias {n}={v}\n{n}",
    ];
    let l_tpl = [
        "{0}",
        "{0}\n{1}",
        "{0}; {1}",
        "{0} {1}\n{0}",
        "alias {0}={v}\n{0}",
        "alias {0}='alias {0}={v}\n{0}'\n{0}",
        "alias {0}='alias {0}=\"r=redefined\"\n{0}'\n{0}\n",
        "unalias {0}\n{0} {1}",
        "alias {0}={1}; {0}\n{0}",
        "{0}\n{0}\n{1}",
        "x {0}\n{1}",
        "alias {0}={v} {1}={w}\n{0} {1}\nunalias {0}\n{0} {1}",
        "{0} &&\n{1}\n{0}",
        "if {0}; then {1}; fi\n{0}",
        "alias ={v}\n{0}",
        "alias {0}=a=b {1}==\n{0} {1}",
        "alias =\nunalias ''\n{0}",
        "alia\\\ns {0}={v}\n{0}",
    ];
    let fill = |tpl: &str, r: &mut Rng, n: &str, m: &str| -> String {
        let v = small(r);
        let w = small(r);
        tpl.replace("{n}", n).replace("{m}", m).replace("{v}", &v).replace("{w}", &w)
    };
    let nr = if o.thorough() { 6000 } else { 220 };
    for _ in 0..nr {
        let mut r = rng.fork();
        let mut t = vec![];
        for n in names {
            if r.chance(1, 5) {
                continue;
            }
            let m = *r.pick(names);
            let value = if r.chance(3, 4) { fill(r.pick(&v_tpl), &mut r, n, m) } else { r.pick(&core).clone() };
            t.push(Entry { name: n.to_string(), global: r.chance(1, 12), value });
        }
        for l in l_tpl.iter() {
            let ns: Vec<&str> = (0..4).map(|_| *r.pick(names)).collect();
            let l2 = fill(l, &mut r, ns[0], ns[1]);
            out(&t, &render(&l2, &ns));
        }
    }

    // (7) every utility class of the declaration-utility glossary x alias names in every argument position:
    // argument words are replaced only by global aliases (or after a blank-ending replacement), whatever the
    // command name is
    let utils = [
        "export", "readonly", "typeset", "command", "command command", "command export", "command -v",
        "command -p", "command --", "export --", "export -p", "x", "alias", "v=1 command", ">f command",
        "2>f v=1 export", "command typeset", "command -p command", "exec", "eval", "\\command", "'command'",
    ];
    let u_tpl = [
        "{u} {0}",
        "{u} {0} {1}",
        "{u} -x {0}",
        "{u} -- {0} {1}",
        "{u} {0}={1} {2}",
        "{u} {0} > {1}",
        "{u} \\\n{0} {1}",
        "{u} {0}; {u} {1}",
        "{0} {u} {1}",
        "{u} {0} | {u} {1}",
        "if {u} {0}; then {u} {1}; fi",
        "{u} '{0}' {1}",
        "{u} > {0} {1}",
        "{u}\n{0}",
    ];
    let nu7 = if o.thorough() { 2500 } else { 60 };
    for _ in 0..nu7 {
        let mut r = rng.fork();
        let mut t = vec![];
        let gden = if r.chance(1, 3) { 2 } else { 6 };
        for n in names {
            if r.chance(1, 8) {
                continue;
            }
            let value = match r.below(6) {
                0 => r.pick(&utils).to_string(),
                1 => format!("{} ", r.pick(&utils)),
                2 | 3 => r.pick(&core).clone(),
                _ => r.pick(&pool).clone(),
            };
            t.push(Entry { name: n.to_string(), global: r.chance(1, gden), value });
        }
        for u in utils.iter() {
            for _ in 0..3 {
                let l = r.pick(&u_tpl).replace("{u}", u);
                let ns: Vec<&str> = (0..4).map(|_| *r.pick(names)).collect();
                out(&t, &render(&l, &ns));
            }
        }
    }
    // (8) every substitution-enabled grammar position x every reason for (not) substituting (wave 3; measured: the
    // random families never produced the blank rule at a here-document delimiter, after `(` / `|` of a case item, at
    // a function body, or a nested blank rule at a redirection operand).  `{L}` = the token that leads into the
    // position (typed, or the value of a global alias with / without a trailing blank, or the end of a chain
    // `a='b ' b=<token>`), `{P}` = the probed word (alias `c`, global or not, typed or out of the wrapper `b`),
    // value of `c` = what the position needs to parse on.
    let mut positions: Vec<(String, String, String)> = vec![];
    for op in ["<", ">", ">>", "<>", ">|", "<&", ">&", ">>|", "<<<"] {
        positions.push(("{L} {P} x".into(), op.into(), "out".into()));
        positions.push(("x {L} {P} y".into(), op.into(), "out".into()));
        positions.push(("{ x; } {L} {P}".into(), op.into(), "out".into()));
    }
    for op in ["<<", "<<-"] {
        positions.push(("{L} {P} x\ny\nc\nout\nz".into(), op.into(), "out".into()));
        positions.push(("x {L} {P}\ny\n\tc\nout\n".into(), op.into(), "out".into()));
        positions.push(("if x; then y; fi {L} {P}\ny\nc\nout\n".into(), op.into(), "'out'".into()));
    }
    for (tpl, lead, val) in [
        ("v=( {L} {P} )", "x", "y"),
        ("v=( {L}\n{P} ) x", "x", "y z"),
        ("f {L} {P} { :; }", "(", ")"),
        ("f ( {L} {P}", ")", "{ :; }"),
        ("f ( {L} {P}", ")", "if x; then y; fi"),
        ("{L} {P} in x; do :; done", "for", "i"),
        ("for {L} {P} x; do :; done", "i", "in"),
        ("for {L} {P} :; done", "i", "do"),
        ("for i in {L} {P}; do :; done", "x", "y"),
        ("for i in x {L} {P} :; done", ";", "do"),
        ("for i in x {L} {P} :; done", "\n", "do"),
        ("{L} {P} in x) ;; esac", "case", "y"),
        ("case {L} {P} x) ;; esac", "x", "in"),
        ("case x {L} {P}) ;; esac", "in", "y"),
        ("case x {L} {P}", "in", "esac"),
        ("case x in {L} {P}) ;; esac", "(", "y"),
        ("case x in {L} {P} ;; esac", "y", ")"),
        ("case x in {L} {P} z) ;; esac", "y", "|"),
        ("case x in y {L} {P}) ;; esac", "|", "z"),
        ("case x in y) ;; {L} {P}) ;; esac", "z |", "y"),
        ("{L} {P}", "x", "y"),
        ("x {L} {P} z", "y", "z"),
        ("{L} {P}", "v=1", "y"),
        ("{L} {P}", "{ x; }", "y"),
        ("x {L} {P}", "&&", "y"),
        // after a compound command a word is taken raw, so the whole `… } >` must come out of one value
        ("{ {L} {P}", "x; } >", "out"),
        ("{ {L} {P}\ny\nc\nout\n", "x; } <<", "out"),
        ("if {L} {P}\ny\n\tc\n\tout\n", "x; then y; fi <<-", "out"),
    ] {
        positions.push((tpl.into(), lead.into(), val.into()));
    }
    let e = |name: &str, global: bool, value: &str| Entry { name: name.into(), global, value: value.into() };
    for (tpl, lead, val) in &positions {
        let typed = |probe: &str| tpl.replace("{L}", lead).replace("{P}", probe);
        let via_a = |probe: &str| tpl.replace("{L}", "a").replace("{P}", probe);
        let lead_b = format!("{lead} ");
        // typed lead: global / ordinary / self-referring / through a global wrapper
        out(&[e("c", true, val)], &typed("c"));
        out(&[e("c", false, val)], &typed("c"));
        out(&[e("c", true, "c")], &typed("c"));
        out(&[e("b", true, "c"), e("c", true, val)], &typed("b"));
        out(&[e("b", true, "c "), e("c", false, val)], &typed("b b"));
        // lead out of a global alias: with and without the trailing blank, across a line continuation, nested
        out(&[e("a", true, &lead_b), e("c", false, val)], &via_a("c"));
        out(&[e("a", true, lead), e("c", false, val)], &via_a("c"));
        out(&[e("a", true, &lead_b), e("c", false, val)], &via_a("\\\n c"));
        out(&[e("a", true, &lead_b), e("b", true, "c"), e("c", false, val)], &via_a("b"));
        out(&[e("a", true, &lead_b), e("b", true, "c"), e("c", false, "c")], &via_a("b"));
        // the lead is the end of a chain `a='b ' b=<lead>`: the blank that counts is `a`'s
        out(&[e("a", true, "b "), e("b", true, lead), e("c", false, val)], &via_a("c"));
        out(&[e("a", false, "b "), e("b", false, lead), e("c", false, val)], &via_a("c"));
        // the probed word is defined but its alias is being processed (recursion guard at this position)
        out(&[e("a", true, &lead_b), e("c", false, &format!("{val} c"))], &via_a("c"));
    }
    // (9) every lexer mode a value can end in x source text that continues it (wave 3): the value ends inside a
    // quotation, a command substitution, after a backslash (which then escapes the first character of the following
    // source text, or forms a line continuation with a following newline), at a comment start, in the middle of an
    // operator, with an IO_NUMBER candidate, with `name=` before a `(`, with a here-document operator; the tail is the
    // source text right after the alias word (the word is always followed by a delimiter, so the tail starts with one)
    let endings: [&str; 34] = [
        "echo 'x", "echo \"x", "echo \"$(x", "echo $(x 'y", "echo `x", "echo x\\", "echo \\", "\\", "echo x #", "#",
        "x &", "x |", "x ;", "x <", "x >", "x <<", "x >>", "x >|", "x <<-", "x 2", "x 12", "v=", "x v=", "x; v=",
        "f", "if x; then y", "case x in y", "for i in", "{ x", "( x", "x && !", "x\n", "x \\\n", "cat <<E\nx\nE",
    ];
    let tails: [&str; 26] = [
        " y' z", " y\" z", " y) z\" w", "' ) z", " y` z", " y", "\ny", "\n", " y; z", "\nz", "& y", "| y", "; y", "; esac",
        "& z", "< y", "> y", ">y\nout\ny\n", "- y", ">f", "<f", "(p q)", "( ) { :; }", "; fi", ") z", ";; esac",
    ];
    for (i, en) in endings.iter().enumerate() {
        for (j, tl) in tails.iter().enumerate() {
            // the full cross product in the thorough tier, a diagonal band of it in the quick tier
            if !o.thorough() && (i + 3 * j) % 4 != 0 {
                continue;
            }
            out(&[e("a", false, en)], &format!("a{tl}"));
            out(&[e("a", false, &format!("{en} ")), e("y", false, "Y"), e("z", true, "Z")], &format!("a{tl}"));
            out(&[e("b", true, en)], &format!("x b{tl}"));
        }
    }
    // (10) the alias / unalias built-ins themselves (wave 3): every argument form, with the exit status and the
    // standard output of every executed command in the observation (`X=`), over tables whose names and values need
    // every kind of quoting in the printed form (`yash_quote::quoted`: C07's model), followed by `alias` printing all
    let b_tables: Vec<Vec<Entry>> = vec![
        vec![],
        vec![e("a", false, "x y"), e("b", true, "it's"), e("c", false, "c")],
        vec![e("a", false, ""), e("b", false, "~x"), e("d", false, "a=b"), e("zz", false, "#c"), e("q r", false, "{x}")],
        vec![e("a", false, "x\ny"), e("b", false, "'\"\\"), e("é", false, "あ "), e("c", false, "*?["), e("-x", false, "v")],
        vec![e("a", false, "$x `y`"), e("b", false, "a;b|c&d"), e("c", false, "<>()"), e("if", false, "!"), e("", false, "e")],
    ];
    let b_cmds = [
        "alias", "alias a", "alias zz", "alias a b zz c=1 c", "alias c=1 d=2", "alias -p", "alias -g x=y", "alias --",
        "alias -- a", "alias -- -x=1", "alias -", "alias - a", "alias a=b -x", "alias 'q r'=s", "alias 'q r'",
        "alias a=\"x'y\" b='x\"y' c='x y' d='' e='a\\b'", "alias a='x\ny'", "alias =v", "alias a==", "alias é=ü é",
        "alias --help", "alias -- -- a", "alias a a a", "alias nn a nn=1 nn",
        "unalias", "unalias a", "unalias zz", "unalias a a", "unalias a nn b", "unalias -a", "unalias -aa",
        "unalias -a -a", "unalias -a --", "unalias -a a", "unalias -- a", "unalias -- -a", "unalias --", "unalias -x",
        "unalias --all", "unalias - a", "unalias -ax", "unalias 'q r' ''", "unalias -- -x", "unalias a -a",
        "alias a=1; alias a; unalias a; alias a", "alias a=1 &\nunalias b | x\n! alias c=3",
    ];
    for t in &b_tables {
        for c in &b_cmds {
            out(t, &format!("{c}\nalias"));
            out(t, &format!("{c}; alias a b\nunalias c\nalias"));
        }
    }
    // (11) aliases whose value is a reserved word, ends the command, or begins with a blank / an operator (wave 3,
    // third pass): the reserved word that comes out of a replacement is recognised where a typed one would be (and the
    // next word is then in command position or not, as after the typed word), `echo;` puts the next word in command
    // position, a leading blank / operator / newline is rescanned as typed text
    let k_values = [
        "while", "until", "if", "then", "else", "elif", "fi", "do", "done", "for", "case", "esac", "in", "{", "}", "!",
        "echo;", "echo x;", "echo &", "x |", "x &&", " x", "\tx", " ", "; x", "&& x", "| x", "> f", "\nx", ")", "(", ";;",
        "while x; do", "if x; then", "for i in", "case x in", "f()", "! !", "{ x; }", "x; }",
    ];
    let k_lines = [
        "k x; do y; done", "if x; k y; fi", "if x; then y; k z; fi", "if x; then y; k", "while x; k y; done",
        "while x; do y; k", "k i in x; do y; done", "for i k x; do y; done", "for i in x; k y; done", "k x in y) z;; esac",
        "case x k y) z;; esac", "case x in y) z;; k", "case x in (k) z;; esac", "k x; }", "{ x; k", "k x", "x k y", "k",
        "k k", "x; k y", "k y; z", "k\ny", "y k", "f() k x; }", "x && k y", "k y) z;; esac", "k y; done", "k y; fi",
        "x | k y", "k > k y",
    ];
    for v in k_values.iter() {
        for l in k_lines.iter() {
            out(&[e("k", false, v), e("y", false, "Y"), e("z", true, "Z")], l);
            out(&[e("k", true, &format!("{v} ")), e("y", false, "Y")], l);
        }
    }
}
