//! C10 — errexit and shell errors: programs of the core language with failing commands of every
//! category planted at random positions, errexit on/off, an EXIT trap, and syntax errors on later
//! lines; run by the real shell on the virtual system and compared with the Lean `Exec` model.
//!
//! Case line and observation as in c02 (`yverif::prog`). Oracle: when the script installs the EXIT
//! trap (`probe 99`) up front, the trap's probe appears exactly once and last in the trace.

use yverif::prog::{Gen, observe_real, parse_case, render, run_case, sx_script};
use yverif::proto::{Opts, emit, quiet_panics};
use yverif::rng::Rng;

/// Every `REAL_EVERY`-th case also runs on the real `yash3` binary (through `yash_cli::main`, its
/// argument parsing and `run_as_shell_process`): the observation must be the same.
fn real_leg(case: &str, obs: &str) -> Option<String> {
    // the command-search names need `$PATH` entries and substitutive built-ins the prologue of the
    // real-binary run cannot provide
    // (and a signal caught while a probe *function* of the prologue runs would be handled inside it)
    if ["sbin", "sbout", "xtin", "xtpath", "trapsig"].iter().any(|n| case.contains(n)) {
        return None;
    }
    let (seed, lines) = parse_case(case)?;
    let real = observe_real(seed, &lines);
    if real == "NO-BINARY" {
        return Some("FAIL:real-binary-could-not-be-built".into());
    }
    if real != obs {
        return Some(format!("FAIL:real-binary-differs({})", real.replace(['\t', '\n'], " ")));
    }
    None
}

fn oracle_all(case: &str, obs: &str, with_real: bool) -> String {
    if with_real {
        if let Some(f) = real_leg(case, obs) {
            return f;
        }
    }
    oracle(case, obs)
}

fn oracle(case: &str, obs: &str) -> String {
    if !case.contains("((trapexit ((probe 99)") || !obs.starts_with("trace=") {
        return "-".into();
    }
    let trace = obs
        .strip_prefix("trace=")
        .and_then(|s| s.split(' ').next())
        .unwrap_or("");
    let entries: Vec<&str> = trace.split(',').filter(|e| !e.is_empty()).collect();
    let n = entries.iter().filter(|e| e.starts_with("99:")).count();
    if n != 1 {
        return format!("FAIL:exit-trap-ran-{n}-times");
    }
    if !entries.last().unwrap().starts_with("99:") {
        return "FAIL:commands-ran-after-exit-trap".into();
    }
    "ok".into()
}


// =================================================================================================
// The `sc` family (extension round): ONE structured simple command — every part of it (words,
// redirections, assignments, target of every kind, body of the built-in) succeeding or failing on
// its own — in the contexts that decide whether errexit applies, read by the non-interactive or the
// interactive read-eval loop, with an EXIT action.  Model: lean/YashModel/Errexit/Model.lean
// (`execSimple`, `readEvalLoop`, `runShellSc`); grammar of the case line: Errexit/ScDriver.lean.
// Observation: `trace=… div=<result of the read-eval loop> pre=<$? before the EXIT trap> status=<n>`.
// =================================================================================================
mod sc {
    use std::cell::{Cell, RefCell};
    use std::ops::ControlFlow::{Break, Continue};
    use std::rc::Rc;
    use yash_cli::startup::args::{InitFile, Run, Source, Work};
    use yash_cli::startup::configure_environment;
    use yash_cli::startup::input::prepare_input;
    use yash_env::Env;
    use yash_env::builtin::{Builtin, Type};
    use yash_env::semantics::{Divert, ExitStatus, Field};
    use yash_env::source::pretty::{Report, ReportType};
    use yash_env::system::r#virtual::{FileBody, Inode, VirtualSystem};
    use yash_env::system::{Concurrent, Mode};
    use yash_env::variable::Scope;
    use yash_semantics::trap::run_exit_trap;
    use yash_semantics::{interactive_read_eval_loop, read_eval_loop};
    use yverif::proto::dec_str;
    use yverif::rng::Rng;
    use yverif::shell::{BuiltinFuture, VEnv, probe_builtins, write_file};

    #[derive(Clone, Debug)]
    pub enum Words { Ok, Cs(u32), Err }
    #[derive(Clone, Debug)]
    pub enum Redirs { None, Ok, Cs(u32), Err, XErr }
    #[derive(Clone, Debug)]
    pub enum Assigns { None, Ok, Cs(u32), Err }
    #[derive(Clone, Debug)]
    pub enum Body {
        Res(u32), Resd(u32, &'static str), Rep(u32), Probe(u32), Cmd(Box<Body>), Eval(Box<Simple>), EvalSyn,
        DotMissing, Dot(Box<Simple>), DotSyn, DotIoErr, ExecFail(bool), EvalEmpty,
    }
    #[derive(Clone, Debug)]
    pub enum Target { Absent, Ext(u32), Fn(&'static str, u32), Bi(&'static str, Body) }
    #[derive(Clone, Debug)]
    pub struct Simple { pub w: Words, pub t: Target, pub r: Redirs, pub a: Assigns }
    #[derive(Clone, Debug)]
    pub enum Stmt {
        Plain(Simple), If(Simple, u32, u32), Neg(Simple), And(Simple, u32), Or(Simple, u32), Sub(Simple, u32),
        Grp(Redirs, u32),
    }
    #[derive(Clone, Debug)]
    pub enum Line { Cmds(Vec<Stmt>), SynErr }
    #[derive(Clone, Debug)]
    pub struct Case { pub seed: u64, pub interactive: bool, pub errexit: bool, pub trap: Option<Vec<Stmt>>, pub lines: Vec<Line> }

    // ---------------------------------------------------------------------------------------------
    // S-expression writer

    fn sx_words(w: &Words) -> String {
        match w { Words::Ok => "ok".into(), Words::Cs(n) => format!("(cs {n})"), Words::Err => "err".into() }
    }
    fn sx_redirs(r: &Redirs) -> String {
        match r {
            Redirs::None => "none".into(), Redirs::Ok => "ok".into(), Redirs::Cs(n) => format!("(cs {n})"),
            Redirs::Err => "err".into(), Redirs::XErr => "xerr".into(),
        }
    }
    fn sx_assigns(a: &Assigns) -> String {
        match a {
            Assigns::None => "none".into(), Assigns::Ok => "ok".into(), Assigns::Cs(n) => format!("(cs {n})"),
            Assigns::Err => "err".into(),
        }
    }
    fn sx_body(b: &Body) -> String {
        match b {
            Body::Res(n) => format!("(res {n})"),
            Body::Resd(n, d) => format!("(resd {n} {d})"),
            Body::Rep(n) => format!("(rep {n})"),
            Body::Probe(m) => format!("(probe {m})"),
            Body::Cmd(b) => format!("(cmd {})", sx_body(b)),
            Body::Eval(c) => format!("(eval {})", sx_simple(c)),
            Body::EvalSyn => "evalsyn".into(),
            Body::DotMissing => "dotmissing".into(),
            Body::Dot(c) => format!("(dot {})", sx_simple(c)),
            Body::DotSyn => "dotsyn".into(),
            Body::DotIoErr => "dotioerr".into(),
            Body::EvalEmpty => "evalempty".into(),
            Body::ExecFail(i) => format!("(execfail {})", *i as u8),
        }
    }
    fn sx_target(t: &Target) -> String {
        match t {
            Target::Absent => "absent".into(),
            Target::Ext(n) => format!("(ext {n})"),
            Target::Fn(k, n) => format!("(fn {k} {n})"),
            Target::Bi(ty, b) => format!("(bi {ty} {})", sx_body(b)),
        }
    }
    pub fn sx_simple(c: &Simple) -> String {
        format!("(s {} {} {} {})", sx_words(&c.w), sx_target(&c.t), sx_redirs(&c.r), sx_assigns(&c.a))
    }
    fn sx_stmt(s: &Stmt) -> String {
        match s {
            Stmt::Plain(c) => format!("(plain {})", sx_simple(c)),
            Stmt::If(c, a, b) => format!("(if {} {a} {b})", sx_simple(c)),
            Stmt::Neg(c) => format!("(neg {})", sx_simple(c)),
            Stmt::And(c, m) => format!("(and {} {m})", sx_simple(c)),
            Stmt::Or(c, m) => format!("(or {} {m})", sx_simple(c)),
            Stmt::Sub(c, m) => format!("(sub {} {m})", sx_simple(c)),
            Stmt::Grp(r, m) => format!("(grp {} {m})", sx_redirs(r)),
        }
    }
    pub fn sx_case(c: &Case) -> String {
        let trap = match &c.trap {
            None => "-".to_string(),
            Some(v) => format!("({})", v.iter().map(sx_stmt).collect::<Vec<_>>().join(" ")),
        };
        let mut out = format!("sc {} ({} {} {})", c.seed, c.interactive as u8, c.errexit as u8, trap);
        for l in &c.lines {
            match l {
                Line::SynErr => out.push_str(" (synerr)"),
                Line::Cmds(v) => {
                    out.push_str(" (L");
                    for s in v {
                        out.push(' ');
                        out.push_str(&sx_stmt(s));
                    }
                    out.push(')');
                }
            }
        }
        out
    }

    // ---------------------------------------------------------------------------------------------
    // S-expression reader (replay / corpus)

    #[derive(Debug)]
    enum Sx { A(String), L(Vec<Sx>) }
    fn tokenize(s: &str) -> Vec<String> {
        let mut out = vec![];
        let mut cur = String::new();
        for ch in s.chars() {
            if ch == '(' || ch == ')' || ch == ' ' {
                if !cur.is_empty() { out.push(std::mem::take(&mut cur)); }
                if ch != ' ' { out.push(ch.to_string()); }
            } else { cur.push(ch); }
        }
        if !cur.is_empty() { out.push(cur); }
        out
    }
    fn parse_sx(t: &[String], i: &mut usize) -> Option<Sx> {
        let tok = t.get(*i)?;
        *i += 1;
        if tok == "(" {
            let mut v = vec![];
            loop {
                if t.get(*i)? == ")" { *i += 1; return Some(Sx::L(v)); }
                v.push(parse_sx(t, i)?);
            }
        } else if tok == ")" { None } else { Some(Sx::A(tok.clone())) }
    }
    fn num(x: &Sx) -> Option<u32> { if let Sx::A(a) = x { a.parse().ok() } else { None } }
    fn atom(x: &Sx) -> Option<&str> { if let Sx::A(a) = x { Some(a) } else { None } }
    fn head(x: &Sx) -> Option<(&str, &[Sx])> {
        if let Sx::L(v) = x { Some((atom(v.first()?)?, &v[1..])) } else { None }
    }
    fn stat(s: &str, table: &[&'static str]) -> Option<&'static str> { table.iter().copied().find(|t| *t == s) }
    fn to_words(x: &Sx) -> Option<Words> {
        match x {
            Sx::A(a) if a == "ok" => Some(Words::Ok),
            Sx::A(a) if a == "err" => Some(Words::Err),
            _ => { let (h, r) = head(x)?; if h == "cs" && r.len() == 1 { Some(Words::Cs(num(&r[0])?)) } else { None } }
        }
    }
    fn to_redirs(x: &Sx) -> Option<Redirs> {
        match x {
            Sx::A(a) => match a.as_str() { "none" => Some(Redirs::None), "ok" => Some(Redirs::Ok), "err" => Some(Redirs::Err), "xerr" => Some(Redirs::XErr), _ => None },
            _ => { let (h, r) = head(x)?; if h == "cs" && r.len() == 1 { Some(Redirs::Cs(num(&r[0])?)) } else { None } }
        }
    }
    fn to_assigns(x: &Sx) -> Option<Assigns> {
        match x {
            Sx::A(a) => match a.as_str() { "none" => Some(Assigns::None), "ok" => Some(Assigns::Ok), "err" => Some(Assigns::Err), _ => None },
            _ => { let (h, r) = head(x)?; if h == "cs" && r.len() == 1 { Some(Assigns::Cs(num(&r[0])?)) } else { None } }
        }
    }
    fn to_body(x: &Sx) -> Option<Body> {
        if let Sx::A(a) = x {
            return match a.as_str() { "evalsyn" => Some(Body::EvalSyn), "dotmissing" => Some(Body::DotMissing), "dotsyn" => Some(Body::DotSyn), "dotioerr" => Some(Body::DotIoErr), "evalempty" => Some(Body::EvalEmpty), _ => None };
        }
        let (h, r) = head(x)?;
        match (h, r.len()) {
            ("res", 1) => Some(Body::Res(num(&r[0])?)),
            ("resd", 2) => Some(Body::Resd(num(&r[0])?, stat(atom(&r[1])?, &["abort", "exit"])?)),
            ("rep", 1) => Some(Body::Rep(num(&r[0])?)),
            ("probe", 1) => Some(Body::Probe(num(&r[0])?)),
            ("cmd", 1) => Some(Body::Cmd(Box::new(to_body(&r[0])?))),
            ("eval", 1) => Some(Body::Eval(Box::new(to_simple(&r[0])?))),
            ("dot", 1) => Some(Body::Dot(Box::new(to_simple(&r[0])?))),
            ("execfail", 1) => Some(Body::ExecFail(num(&r[0])? != 0)),
            _ => None,
        }
    }
    fn to_target(x: &Sx) -> Option<Target> {
        if let Sx::A(a) = x { return if a == "absent" { Some(Target::Absent) } else { None }; }
        let (h, r) = head(x)?;
        match (h, r.len()) {
            ("ext", 1) => Some(Target::Ext(num(&r[0])?)),
            ("fn", 2) => Some(Target::Fn(stat(atom(&r[0])?, &["st", "ret"])?, num(&r[1])?)),
            ("bi", 2) => Some(Target::Bi(stat(atom(&r[0])?, &["sp", "ma", "el", "ex", "su"])?, to_body(&r[1])?)),
            _ => None,
        }
    }
    fn to_simple(x: &Sx) -> Option<Simple> {
        let (h, r) = head(x)?;
        if h != "s" || r.len() != 4 { return None; }
        Some(Simple { w: to_words(&r[0])?, t: to_target(&r[1])?, r: to_redirs(&r[2])?, a: to_assigns(&r[3])? })
    }
    fn to_stmt(x: &Sx) -> Option<Stmt> {
        let (h, r) = head(x)?;
        match (h, r.len()) {
            ("plain", 1) => Some(Stmt::Plain(to_simple(&r[0])?)),
            ("if", 3) => Some(Stmt::If(to_simple(&r[0])?, num(&r[1])?, num(&r[2])?)),
            ("neg", 1) => Some(Stmt::Neg(to_simple(&r[0])?)),
            ("and", 2) => Some(Stmt::And(to_simple(&r[0])?, num(&r[1])?)),
            ("or", 2) => Some(Stmt::Or(to_simple(&r[0])?, num(&r[1])?)),
            ("sub", 2) => Some(Stmt::Sub(to_simple(&r[0])?, num(&r[1])?)),
            ("grp", 2) => Some(Stmt::Grp(to_redirs(&r[0])?, num(&r[1])?)),
            _ => None,
        }
    }
    pub fn parse_case(case: &str) -> Option<Case> {
        let t = tokenize(case);
        if t.first()? != "sc" { return None; }
        let seed: u64 = t.get(1)?.parse().ok()?;
        let mut i = 2;
        let flags = parse_sx(&t, &mut i)?;
        let Sx::L(f) = &flags else { return None };
        if f.len() != 3 { return None; }
        let trap = match &f[2] {
            Sx::A(a) if a == "-" => None,
            Sx::L(v) => Some(v.iter().map(to_stmt).collect::<Option<Vec<_>>>()?),
            _ => return None,
        };
        let mut lines = vec![];
        while i < t.len() {
            let x = parse_sx(&t, &mut i)?;
            let (h, r) = head(&x)?;
            match h {
                "synerr" => lines.push(Line::SynErr),
                "L" => lines.push(Line::Cmds(r.iter().map(to_stmt).collect::<Option<Vec<_>>>()?)),
                _ => return None,
            }
        }
        Some(Case { seed, interactive: num(&f[0])? != 0, errexit: num(&f[1])? != 0, trap, lines })
    }

    // ---------------------------------------------------------------------------------------------
    // renderer: shell text (+ the files the `.` built-in reads)

    pub struct Render { rng: Rng, pub files: Vec<(String, String)>, /// the command may be rendered inside a loop: `break`/`continue` are no errors there
        pub maybe_in_loop: bool,
        /// the case runs with the `Interactive` option on: `exec no_such_command` does not abort such a shell
        /// (yash-builtin/src/exec.rs), so the Abort body is rendered by the harness built-in only
        pub interactive: bool }

    impl Render {
        fn pick<'a>(&mut self, xs: &[&'a str]) -> &'a str { xs[self.rng.below(xs.len())] }

        /// command name and arguments of a built-in body of type `ty` (`wrapped`: under `command`)
        fn body(&mut self, ty: &str, b: &Body) -> String {
            match b {
                Body::Probe(m) => format!("probe {m}"),
                Body::Cmd(inner) => format!("command {}", self.body("sp", inner)),
                Body::Eval(c) => format!("eval '{}'", self.simple(c)),
                Body::EvalSyn => format!("eval \"{}\"", self.pick(&["fi", "if", ")", "st 0 &&", "{ st 0"])),
                Body::DotMissing => {
                    let f = self.pick(&[". ./missing_file", ". missing_in_path", "source ./missing_file", ". /nonexistent/dir/file", "source missing_in_path"]);
                    f.to_string()
                }
                Body::Dot(c) => {
                    let text = self.simple(c);
                    let path = format!("/tmp/dot{}", self.files.len());
                    // lines without a command before / after the command keep the command's status
                    let (pre, post) = (self.pick(&["", "", "# first\n\n", "\n"]), self.pick(&["", "", "\n# last\n", "\n\n", "   \n# end"]));
                    self.files.push((path.clone(), format!("{pre}{text}\n{post}")));
                    format!("{} {path}", self.pick(&[".", "source"]))
                }
                Body::DotIoErr => self.pick(&[". /tmp", "source /tmp", ". /bin"]).to_string(),
                Body::EvalEmpty => {
                    // an input without any command: `read_eval_loop` sets `$?` to 0
                    // an input that holds no command - possibly blank and comment lines (since 4afb140 those do not count
                    // as executed commands): `.` of such a file, `eval` of such a text
                    if self.rng.chance(1, 2) {
                        let path = format!("/tmp/dot{}", self.files.len());
                        let text = self.pick(&["\n", "# nothing\n", "  \n\n", "# a\n\n   # b\n", "\n\n\n# end"]);
                        self.files.push((path.clone(), text.to_string()));
                        format!("{} {path}", self.pick(&[".", "source"]))
                    } else { self.pick(&["eval \"\"", "eval \"  \"", "eval \"# nothing\"", "eval", "eval \"\n# c\n\n\""]).to_string() }
                }
                Body::ExecFail(_) => self.pick(&["exec no_such_command_xyz", "exec /nonexistent/cmd"]).to_string(),
                Body::DotSyn => {
                    let path = format!("/tmp/dot{}", self.files.len());
                    let bad = self.pick(&["fi", "if", ")", "st 0 &&"]);
                    self.files.push((path.clone(), format!("{bad}\n")));
                    format!(". {path}")
                }
                Body::Res(n) => {
                    if ty == "sp" && *n == 0 && self.rng.chance(1, 2) { ":".into() }
                    else if ty == "sp" && *n == 1 && self.rng.chance(1, 2) { "trap - NO_SUCH_SIGNAL".into() }
                    else if ty == "ma" && self.rng.chance(1, 2) { format!("st {n}") }
                    else { format!("b_{ty} res {n}") }
                }
                Body::Resd(n, d) => {
                    if *d == "abort" && *n == 127 && !self.interactive {
                        self.pick(&["exec no_such_command_xyz", "exec /nonexistent/cmd"]).to_string()
                    } else { format!("b_{ty} resd {n} {d}") }
                }
                Body::Rep(n) => {
                    if ty == "sp" && *n == 1 && self.rng.chance(2, 3) {
                        if self.maybe_in_loop { self.pick(&["shift 99", "readonly ro=2", "export ro=2", "unset ro", "unset -v ro"]).to_string() }
                        else { self.pick(&["shift 99", "break", "continue", "readonly ro=2", "export ro=2", "unset ro", "unset -v ro"]).to_string() }
                    } else if ty == "sp" && *n == 2 && self.rng.chance(2, 3) {
                        self.pick(&["set -o no_such_option", "return x", "return 1 2", "exit x", "exit 1 2", "break 0", "continue x",
                                    "times x", "unset -x", "export -x", "readonly -x", "exec -x", "shift x", "trap -x", "eval -x", ". -x",
                                    "shift 1 2"]).to_string()
                    } else if ty == "ma" && *n == 2 && self.rng.chance(1, 3) {
                        self.pick(&["alias -x", "getopts", "cd /nonexistent/dir", "command -x", "command --no-such-option st 0"]).to_string()
                    } else { format!("b_{ty} rep {n}") }
                }
            }
        }

        pub fn simple(&mut self, c: &Simple) -> String {
            let mut parts: Vec<String> = vec![];
            match &c.a {
                Assigns::None => {}
                Assigns::Ok => parts.push("x=1".into()),
                Assigns::Cs(n) => parts.push(format!("x=$(st {n})")),
                Assigns::Err => parts.push(self.pick(&["ro=1", "x=1 ro=2", "x=${unset_u?}", "ro=${unset_u?}"]).to_string()),
            }
            let redir = match &c.r {
                Redirs::None => None,
                Redirs::Ok => Some(self.pick(&["</dev/null", "3</dev/null", "< /dev/null"]).to_string()),
                Redirs::Cs(n) => Some(format!("<\"/dev/null$(st {n})\"")),
                Redirs::Err => Some(self.pick(&["</nonexistent/f", "< /nonexistent/f", "3</nonexistent/f", "<&7", "</dev/null </nonexistent/f"]).to_string()),
                Redirs::XErr => Some(self.pick(&["<${unset_u?}", "</dev/null${unset_u?}", "3<\"${unset_u?}\"", "</dev/null <${unset_u?}"]).to_string()),
            };
            let redir_first = redir.is_some() && self.rng.chance(1, 3);
            if redir_first { parts.push(redir.clone().unwrap()); }
            match &c.t {
                Target::Absent => {}
                Target::Ext(n) => parts.push(if *n == 126 { "/bin/xt_noexec".into() } else { self.pick(&["no_such_command_xyz", "/nonexistent/cmd"]).to_string() }),
                Target::Fn(k, n) => parts.push(format!("h{k}{n}")),
                Target::Bi(ty, b) => { let t = self.body(ty, b); parts.push(t) }
            }
            match &c.w {
                Words::Ok => {}
                Words::Cs(n) => parts.push(format!("$(st {n})")),
                Words::Err => parts.push(self.pick(&["${unset_u?}", "\"${unset_u?}\"", "${unset_u:?msg}"]).to_string()),
            }
            if !redir_first { if let Some(r) = redir { parts.push(r); } }
            if parts.is_empty() { parts.push("$(st 0)".into()); }
            parts.join(" ")
        }

        fn stmt(&mut self, s: &Stmt) -> String {
            match s {
                Stmt::Plain(c) => self.simple(c),
                Stmt::If(c, a, b) => format!("if {}; then probe {a}; else probe {b}; fi", self.simple(c)),
                Stmt::Neg(c) => format!("! {}", self.simple(c)),
                Stmt::And(c, m) => format!("{} && probe {m}", self.simple(c)),
                Stmt::Or(c, m) => format!("{} || probe {m}", self.simple(c)),
                Stmt::Sub(c, m) => format!("( {}; probe {m} )", self.simple(c)),
                Stmt::Grp(r, m) => {
                    let c = Simple { w: Words::Ok, t: Target::Absent, r: r.clone(), a: Assigns::None };
                    let mut text = self.simple(&c);
                    if matches!(r, Redirs::None) { text = String::new(); }
                    let open = self.pick(&["{ probe M; }", "{ probe M\n}", "{\nprobe M; }"]);
                    format!("{} {}", open.replace('M', &m.to_string()), text)
                }
            }
        }
        fn stmts(&mut self, v: &[Stmt]) -> String { v.iter().map(|s| self.stmt(s)).collect::<Vec<_>>().join("; ") }
    }

    pub const PROLOGUE: &str = "hst0() { probe 7; st 0; }\nhst1() { probe 7; st 1; }\nhst3() { probe 7; st 3; }\n\
hret0() { probe 7; return 0; probe 8; }\nhret1() { probe 7; return 1; probe 8; }\nhret3() { probe 7; return 3; probe 8; }\n";

    pub fn render(c: &Case) -> (String, Vec<(String, String)>) {
        let mut r = Render { rng: Rng::new(c.seed ^ 0x5C), files: vec![], maybe_in_loop: false, interactive: c.interactive };
        let mut out = String::from(PROLOGUE);
        if c.errexit { out.push_str(r.pick(&["set -e\n", "set -o errexit\n"])); }
        if let Some(t) = &c.trap {
            let text = r.stmts(t);
            assert!(!text.contains('\''));
            out.push_str(&format!("trap '{}' EXIT\n", text));
        }
        for l in &c.lines {
            match l {
                // (a syntax error inside `$(…)`, also in a here-document, is a syntax error of the line: read eagerly)
                Line::SynErr => out.push_str(r.pick(&["fi\n", ")\n", "st 0 && ;\n", "if then fi\n"])),
                Line::Cmds(v) => { out.push_str(&r.stmts(v)); out.push('\n'); }
            }
        }
        (out, r.files)
    }

    // ---------------------------------------------------------------------------------------------
    // generator

    pub struct Gen { pub rng: Rng, pub marker: u32, pub depth: u32, pub interactive: bool }
    impl Gen {
        fn m(&mut self) -> u32 { self.marker += 1; 10 + self.marker }
        fn status(&mut self) -> u32 { *self.rng.pick(&[0, 0, 1, 3]) }
        fn body(&mut self, ty: &'static str) -> Body {
            let k = self.rng.below(100);
            match ty {
                "sp" => match k {
                    0..=19 => Body::Res(*self.rng.pick(&[0, 0, 1])),
                    20..=54 => Body::Rep(*self.rng.pick(&[1, 2])),
                    55..=66 => Body::DotMissing,
                    67..=72 if self.depth == 0 => { self.depth += 1; let c = self.simple(); self.depth -= 1; Body::Eval(Box::new(c)) }
                    73..=78 if self.depth == 0 => { self.depth += 1; let c = self.simple(); self.depth -= 1; Body::Dot(Box::new(c)) }
                    79..=83 => Body::EvalSyn,
                    84..=87 => Body::DotSyn,
                    88..=89 => Body::DotIoErr,
                    90..=91 => Body::Resd(127, "abort"),
                    92..=93 => Body::ExecFail(self.interactive),
                    94..=97 => Body::EvalEmpty,
                    _ => Body::Rep(1),
                },
                "ma" => match k {
                    0..=29 => Body::Res(self.status()),
                    30..=49 => Body::Rep(*self.rng.pick(&[1, 2])),
                    50..=59 => Body::Probe(self.m()),
                    _ => Body::Cmd(Box::new(self.body("sp"))),
                },
                _ => if k < 50 { Body::Res(self.status()) } else { Body::Rep(*self.rng.pick(&[1, 2])) },
            }
        }
        pub fn simple(&mut self) -> Simple {
            let w = match self.rng.below(100) { 0..=74 => Words::Ok, 75..=84 => Words::Cs(self.status()), _ => Words::Err };
            let t = match self.rng.below(100) {
                0..=11 => Target::Absent,
                12..=19 => Target::Ext(*self.rng.pick(&[127, 126])),
                20..=31 => Target::Fn(*self.rng.pick(&["st", "ret"]), *self.rng.pick(&[0, 1, 3])),
                32..=61 => { let b = self.body("sp"); Target::Bi("sp", b) }
                62..=84 => { let b = self.body("ma"); Target::Bi("ma", b) }
                _ => { let ty = *self.rng.pick(&["el", "ex", "su"]); let b = self.body(ty); Target::Bi(ty, b) }
            };
            let r = match self.rng.below(100) { 0..=54 => Redirs::None, 55..=62 => Redirs::Ok, 63..=67 => Redirs::Cs(self.status()), 68..=87 => Redirs::Err, _ => Redirs::XErr };
            let a = match self.rng.below(100) { 0..=59 => Assigns::None, 60..=71 => Assigns::Ok, 72..=79 => Assigns::Cs(self.status()), _ => Assigns::Err };
            // a text inside `eval '…'` / a trap action must not need quotes of its own
            Simple { w, t, r, a }
        }
        fn probe(&mut self) -> Stmt {
            let m = self.m();
            Stmt::Plain(Simple { w: Words::Ok, t: Target::Bi("ma", Body::Probe(m)), r: Redirs::None, a: Assigns::None })
        }
        fn stmt(&mut self) -> Stmt {
            let c = self.simple();
            match self.rng.below(100) {
                0..=44 => Stmt::Plain(c),
                45..=54 => { let (a, b) = (self.m(), self.m()); Stmt::If(c, a, b) }
                55..=62 => Stmt::Neg(c),
                63..=70 => { let m = self.m(); Stmt::And(c, m) }
                71..=78 => { let m = self.m(); Stmt::Or(c, m) }
                79..=90 => { let m = self.m(); Stmt::Sub(c, m) }
                _ => { let m = self.m(); Stmt::Grp(c.r, m) }
            }
        }
        pub fn case(&mut self, seed: u64) -> Case {
            let interactive = self.rng.chance(1, 4);
            self.interactive = interactive;
            let errexit = self.rng.chance(1, 2);
            let trap = match self.rng.below(4) {
                0 | 1 => None,
                2 => Some(vec![Stmt::Plain(Simple { w: Words::Ok, t: Target::Bi("ma", Body::Probe(99)), r: Redirs::None, a: Assigns::None })]),
                _ => {
                    self.depth += 1; // no `eval '…'` inside the quoted action
                    let s = self.stmt();
                    self.depth -= 1;
                    Some(vec![Stmt::Plain(Simple { w: Words::Ok, t: Target::Bi("ma", Body::Probe(99)), r: Redirs::None, a: Assigns::None }), s])
                }
            };
            let nlines = 1 + self.rng.below(3);
            let mut lines = vec![];
            if self.rng.chance(1, 40) {
                // an input without commands after an exempt failure (the shape oracle (3) speaks about)
                let plain = |t: Target| Simple { w: Words::Ok, t, r: Redirs::None, a: Assigns::None };
                let n = *self.rng.pick(&[0, 0, 1]);
                let e = if self.rng.chance(1, 2) { Target::Bi("sp", Body::EvalEmpty) } else { Target::Bi("ma", Body::Cmd(Box::new(Body::EvalEmpty))) };
                let p = self.probe();
                lines.push(Line::Cmds(vec![Stmt::Neg(plain(Target::Bi("ma", Body::Res(n)))), Stmt::Plain(plain(e)), p]));
            }
            for k in 0..nlines {
                if k > 0 && self.rng.chance(1, 8) { lines.push(Line::SynErr); continue; }
                let mut v = vec![self.stmt()];
                while self.rng.chance(1, 3) && v.len() < 3 { v.push(self.stmt()); }
                v.push(self.probe());
                lines.push(Line::Cmds(v));
            }
            let p = self.probe();
            lines.push(Line::Cmds(vec![p]));
            Case { seed, interactive, errexit, trap, lines }
        }
    }

    // ---------------------------------------------------------------------------------------------
    // runner: the shell on the virtual system, wired like `yverif::shell::run_with`, but the tail of
    // `run_as_shell_process` is spelled out here so that the result of the read-eval loop and `$?`
    // before the EXIT trap can be observed, and the interactive loop can be chosen.

    /// built-ins of every `Type` whose body does what the case says: `res N` returns N, `rep N` reports an
    /// error through `yash_builtin::common::report::report` with status N, `resd N abort|exit` returns N
    /// with that divert
    fn b_main(env: &mut VEnv, args: Vec<Field>) -> BuiltinFuture<'_> {
        Box::pin(async move {
            let kind = args.first().map(|f| f.value.clone()).unwrap_or_default();
            let n: i32 = args.get(1).and_then(|f| f.value.parse().ok()).unwrap_or(0);
            match kind.as_str() {
                "rep" => {
                    let mut report = Report::new();
                    report.r#type = ReportType::Error;
                    report.title = "planted error".into();
                    yash_builtin::common::report::report(env, report, ExitStatus(n)).await
                }
                "resd" => {
                    let d = match args.get(2).map(|f| f.value.as_str()) {
                        Some("abort") => Divert::Abort(None),
                        _ => Divert::Exit(None),
                    };
                    yash_env::builtin::Result::with_exit_status_and_divert(ExitStatus(n), Break(d))
                }
                _ => ExitStatus(n).into(),
            }
        })
    }

    /// `tick c k` (a copy of the one in yverif::prog): succeeds while the shell variable `_t<c>` is below k
    /// (and increments it)
    fn tick_main(env: &mut VEnv, args: Vec<Field>) -> BuiltinFuture<'_> {
        let c = args.first().map(|f| f.value.clone()).unwrap_or_default();
        let k: u32 = args.get(1).and_then(|f| f.value.parse().ok()).unwrap_or(0);
        let name = format!("_t{c}");
        let v: u32 = env.variables.get(&name)
            .and_then(|v| match &v.value { Some(yash_env::variable::Value::Scalar(s)) => Some(s.clone()), _ => None })
            .and_then(|s| s.parse().ok())
            .unwrap_or(0);
        let st = if v < k {
            let mut var = env.variables.get_or_new(&name, Scope::Global);
            let _ = var.assign((v + 1).to_string(), None);
            0
        } else { 1 };
        Box::pin(async move { ExitStatus(st).into() })
    }

    pub struct Observed { pub stdout: Vec<u8>, pub div: String, pub pre: i32, pub status: i32, pub stuck: bool }

    fn show_opt(e: Option<ExitStatus>) -> String { e.map(|e| e.0.to_string()).unwrap_or_else(|| "-".into()) }

    /// the tail of `yash_cli::run_as_shell_process` (kept identical to it by tools/tables/errexit.py)
    async fn sc_tail(env: &mut VEnv, source: &Source, interactive: bool) -> (String, i32, i32) {
        let ref_env = RefCell::new(env);
        let lexer = match prepare_input(&ref_env, source).await {
            Ok(lexer) => lexer,
            Err(_) => return ("NO-INPUT".into(), -1, 127),
        };
        let result = if interactive {
            interactive_read_eval_loop(&ref_env, &mut { lexer }).await
        } else {
            read_eval_loop(&ref_env, &mut { lexer }).await
        };
        let env = ref_env.into_inner();
        let div = match result {
            Continue(()) => "cont".to_string(),
            Break(Divert::Continue { count }) => format!("Continue:{count}"),
            Break(Divert::Break { count }) => format!("Break:{count}"),
            Break(Divert::Return(e)) => format!("Return:{}", show_opt(e)),
            Break(Divert::Interrupt(e)) => format!("Interrupt:{}", show_opt(e)),
            Break(Divert::Exit(e)) => format!("Exit:{}", show_opt(e)),
            Break(Divert::Abort(e)) => format!("Abort:{}", show_opt(e)),
        };
        env.apply_result(result);
        let pre = env.exit_status.0;
        match result {
            Continue(())
            | Break(Divert::Continue { .. })
            | Break(Divert::Break { .. })
            | Break(Divert::Return(_))
            | Break(Divert::Interrupt(_))
            | Break(Divert::Exit(_)) => run_exit_trap(env).await,
            Break(Divert::Abort(_)) => (),
        }
        (div, pre, env.exit_status.0)
    }

    pub fn run(script: String, files: Vec<(String, String)>, interactive: bool) -> Observed {
        let system = VirtualSystem::new();
        let state = Rc::clone(&system.state);
        let executor = yash_executor::Executor::new();
        state.borrow_mut().executor = Some(Rc::new(executor.spawner()));
        let env = Env::with_system(Rc::new(Concurrent::new(system)));
        let concurrent = Rc::clone(&env.system);
        let result: Rc<Cell<Option<(String, i32, i32)>>> = Rc::new(Cell::new(None));
        let result2 = Rc::clone(&result);
        let state2 = Rc::clone(&state);
        let main = async move {
            let mut env = env;
            let run = Run {
                // `\0READERR<e>`: the main input is a directory (it opens, reading fails: EISDIR), errexit = <e>
                work: Work {
                    source: if script.starts_with("\0READERR") { Source::File { path: "/tmp".into() } } else { Source::String(script.clone()) },
                    profile: InitFile::None, rcfile: InitFile::None },
                options: vec![],
                arg0: "yash".into(),
                positional_params: vec![],
            };
            let work = configure_environment(&mut env, run).await;
            env.builtins.extend(probe_builtins());
            for (name, ty) in [("b_sp", Type::Special), ("b_ma", Type::Mandatory), ("b_el", Type::Elective),
                               ("b_ex", Type::Extension), ("b_su", Type::Substitutive)] {
                env.builtins.insert(name, Builtin::new(ty, b_main));
            }
            env.builtins.insert("tick", Builtin::new(Type::Mandatory, tick_main));
            for path in ["/bin/b_su", "/bin/xt_noexec"] {
                let mut inode = Inode::new(Vec::new());
                inode.body = FileBody::Regular { content: vec![], is_native_executable: true };
                inode.permissions.set(Mode::USER_EXEC, true);
                state2.borrow_mut().file_system.save(path, Rc::new(RefCell::new(inode))).unwrap();
            }
            write_file(&state2, "/dev/null", b"");
            for (path, content) in &files {
                write_file(&state2, path, content.as_bytes());
            }
            {
                let mut path = env.variables.get_or_new("PATH", Scope::Global);
                let _ = path.assign("/nonexistent:/bin", None);
            }
            {
                let mut ro = env.variables.get_or_new("ro", Scope::Global);
                let _ = ro.assign("0", None);
                ro.make_read_only(yash_syntax::source::Location::dummy("ro"));
            }
            // wave 3: an interactive case runs with the `Interactive` option ON (as `yash -i` would: the option
            // selects the loop in `run_as_shell_process`, makes built-ins interruptible by SIGINT
            // (execute_builtin), lets `noexec` be ignored and `exit` look at stopped jobs)
            if interactive {
                env.options.set(yash_env::option::Option::Interactive, yash_env::option::State::On);
            }
            if script == "\0READERR1" {
                env.options.set(yash_env::option::Option::ErrExit, yash_env::option::State::On);
            }
            let interactive = env.options.get(yash_env::option::Option::Interactive) == yash_env::option::State::On;
            let t = sc_tail(&mut env, &work.source, interactive).await;
            result2.set(Some(t));
        };
        let runner = async move { concurrent.run_virtual(main).await };
        // SAFETY: single-threaded, as in yash_env::test_helper::in_virtual_system
        unsafe { executor.spawn_pinned(Box::pin(runner)) };
        let mut rounds = 0usize;
        let mut stuck = false;
        let mut out = None;
        loop {
            executor.run_until_stalled();
            if let Some(r) = result.take() { out = Some(r); break; }
            rounds += 1;
            let mut st = state.borrow_mut();
            if let Some(next) = st.scheduled_wakers.next_wake_time() { st.advance_time(next); }
            drop(st);
            if executor.wake_count() == 0 || rounds > 50_000 { stuck = true; break; }
        }
        let stdout = yverif::shell::read_file(&state, "/dev/stdout").unwrap_or_default();
        let (div, pre, status) = out.unwrap_or(("NONE".into(), -1, -1));
        Observed { stdout, div, pre, status, stuck }
    }

    pub fn observe(c: &Case) -> String {
        let (script, files) = render(c);
        observe_script(script, files, c.interactive)
    }

    pub fn observe_script(script: String, files: Vec<(String, String)>, interactive: bool) -> String {
        let o = run(script, files, interactive);
        if o.stuck { return "TIMEOUT".into(); }
        let mut trace = vec![];
        for line in String::from_utf8_lossy(&o.stdout).lines() {
            let Some((st, hex)) = line.split_once(':') else { return format!("GARBLED({line})"); };
            let m = dec_str(hex).unwrap_or_default();
            trace.push(format!("{m}:{st}"));
        }
        format!("trace={} div={} pre={} status={}", trace.join(","), o.div, o.pre, o.status)
    }

    pub fn run_case(case: &str) -> String {
        match parse_case(case) {
            Some(c) => {
                yverif::proto::watch_case(case, 60);
                yverif::proto::guarded(|| observe(&c))
            }
            None => "bad-case".into(),
        }
    }

    /// docs/src/termination.md "Shell errors" read off the *syntax* of the command (the harness's own copy of
    /// the table, independent of the Lean Spec): class and exit status of the first part that fails
    fn body_error(special: bool, b: &Body) -> Option<(&'static str, u32)> {
        match b {
            Body::Res(_) | Body::Resd(..) | Body::Probe(_) | Body::DotIoErr | Body::ExecFail(_) | Body::EvalEmpty => None,
            Body::Rep(n) => if special && *n != 0 { Some(("special-builtin", *n)) } else { None },
            Body::Cmd(inner) => body_error(false, inner),
            Body::Eval(c) | Body::Dot(c) => shell_error(c),
            Body::EvalSyn | Body::DotSyn => Some(("syntax", 2)),
            Body::DotMissing => if special { Some(("special-builtin", 1)) } else { None },
        }
    }
    pub fn shell_error(c: &Simple) -> Option<(&'static str, u32)> {
        if matches!(c.w, Words::Err) { return Some(("assign-or-expansion", 2)); }
        let assign = if matches!(c.a, Assigns::Err) { Some(("assign-or-expansion", 2)) } else { None };
        match &c.t {
            // no name: redirection errors "are reported but do not abort the command"
            Target::Absent => assign,
            Target::Bi(ty, b) => match c.r {
                Redirs::XErr => Some(("assign-or-expansion", 2)),
                Redirs::Err => Some((if *ty == "sp" { "special-builtin" } else { "redirection" }, 2)),
                _ => assign.or_else(|| body_error(*ty == "sp", b)),
            },
            _ => match c.r {
                Redirs::XErr => Some(("assign-or-expansion", 2)),
                Redirs::Err => Some(("redirection", 2)),
                _ => assign,
            },
        }
    }

    fn markers_simple(c: &Simple, out: &mut Vec<u32>) {
        if let Target::Bi(_, b) = &c.t { markers_body(b, out); }
    }
    fn markers_body(b: &Body, out: &mut Vec<u32>) {
        match b {
            Body::Probe(m) => out.push(*m),
            Body::Cmd(i) => markers_body(i, out),
            Body::Eval(c) | Body::Dot(c) => markers_simple(c, out),
            _ => {}
        }
    }
    fn markers_stmt(s: &Stmt, out: &mut Vec<u32>) {
        match s {
            Stmt::Plain(c) | Stmt::Neg(c) => markers_simple(c, out),
            Stmt::If(c, a, b) => { markers_simple(c, out); out.push(*a); out.push(*b); }
            Stmt::And(c, m) | Stmt::Or(c, m) | Stmt::Sub(c, m) => { markers_simple(c, out); out.push(*m); }
            Stmt::Grp(_, m) => out.push(*m),
        }
    }

    /// the property's own statement on the real run, independent of the model:
    /// (1) an EXIT action that starts with `probe 99` prints that marker exactly once unless the shell was
    ///     aborted (`Divert::Abort`);
    /// (2) when the first command of a non-interactive script has a shell error that the documentation says
    ///     ends the shell (every class but a plain redirection error without errexit), nothing of the script
    ///     runs after it and — with no EXIT action that could change it — the exit status is the error's
    pub fn oracle(case: &str, obs: &str) -> String {
        let Some(c) = parse_case(case) else { return "-".into() };
        if !obs.starts_with("trace=") { return "-".into(); }
        let trace = obs.strip_prefix("trace=").and_then(|s| s.split(' ').next()).unwrap_or("");
        let entries: Vec<&str> = trace.split(',').filter(|e| !e.is_empty()).collect();
        let mut verdict = "-".to_string();
        if c.trap.is_some() {
            let n = entries.iter().filter(|e| e.starts_with("99:")).count();
            let aborted = obs.contains(" div=Abort");
            if aborted && n != 0 { return "FAIL:exit-trap-ran-after-abort".into(); }
            if !aborted && n != 1 { return format!("FAIL:exit-trap-ran-{n}-times"); }
            verdict = "ok".into();
        }
        // (3) POSIX `.`/`eval` (docs/src/builtins/source.md, eval.md): "zero if no command is executed" — a first line of the
        //     shape `! <built-in that only returns a status>; <eval/. of an input without commands>; probe m` must print `m:0`
        //     first, errexit on or off, interactive or not: the exempt `!` cannot end the shell and the empty input resets `$?`
        if let Some(Line::Cmds(first)) = c.lines.first() {
            if let [Stmt::Neg(a), Stmt::Plain(b), Stmt::Plain(p), ..] = first.as_slice() {
                let clean = |s: &Simple| matches!(s.w, Words::Ok) && matches!(s.r, Redirs::None) && matches!(s.a, Assigns::None);
                let a_ok = clean(a) && matches!(&a.t, Target::Bi(ty, Body::Res(_)) if *ty == "ma" || *ty == "el");
                let b_ok = clean(b) && (matches!(&b.t, Target::Bi("sp", Body::EvalEmpty))
                    || matches!(&b.t, Target::Bi("ma", Body::Cmd(i)) if matches!(**i, Body::EvalEmpty)));
                if let (true, true, true, Target::Bi("ma", Body::Probe(m))) = (a_ok, b_ok, clean(p), &p.t) {
                    if entries.first().copied() != Some(format!("{m}:0").as_str()) {
                        return format!("FAIL:input-without-commands-must-leave-status-0:expected-first-probe-{m}:0");
                    }
                    if verdict == "-" { verdict = "ok".into(); }
                }
            }
        }
        if c.interactive { return verdict; }
        let Some(Line::Cmds(first)) = c.lines.first() else { return verdict };
        let Some(Stmt::Plain(cmd)) = first.first() else { return verdict };
        let Some((class, st)) = shell_error(cmd) else { return verdict };
        if class == "redirection" && !c.errexit { return verdict; }
        let mut script_markers = vec![];
        for l in &c.lines {
            if let Line::Cmds(v) = l { for s in v { markers_stmt(s, &mut script_markers); } }
        }
        for e in &entries {
            let m: u32 = e.split(':').next().and_then(|m| m.parse().ok()).unwrap_or(0);
            if script_markers.contains(&m) {
                return format!("FAIL:ran-after-shell-error({class}):probe-{m}");
            }
        }
        let plain_trap = match &c.trap { None => true, Some(v) => v.len() == 1 };
        if plain_trap && !obs.ends_with(&format!(" status={st}")) {
            return format!("FAIL:exit-status-after-shell-error({class}):expected-{st}");
        }
        "ok".into()
    }

    // =============================================================================================
    // The `nc` family (wave 3): structured simple commands at ANY depth of the constructs that decide
    // whether errexit applies and where a shell error ends — groups (with redirections), subshells,
    // `if`, `while`/`until`, `!`, and-or lists and function calls, nested in each other, with the
    // control built-ins (`break`, `continue`, `return`, `exit`, `set -e`/`set +e`) among the leaves.
    // Model: lean/YashModel/Errexit/Nested.lean (`execN`); grammar: Errexit/NcDriver.lean.
    // =============================================================================================
    pub mod nc {
        use super::*;

        #[derive(Clone, Debug)]
        pub enum Ctl { Probe(u32), St(u32), Brk(u32), Cont(u32), Ret(Option<u32>), Exit(Option<u32>), SetE(bool), SetPf(bool), Tick(u32, u32), TrapSig(u8), Raise(u32), RaiseErr, SetP(u32) }
        #[derive(Clone, Debug)]
        pub enum NCmd {
            S(Simple), Ctl(Ctl), Grp(Redirs, Vec<NCmd>), Sub(Vec<NCmd>), If(Vec<NCmd>, Vec<NCmd>, Option<Vec<NCmd>>),
            Loop(bool, Vec<NCmd>, Vec<NCmd>), Neg(Box<NCmd>), Ao(Box<NCmd>, Vec<(bool, NCmd)>), Call(Vec<NCmd>),
            Pipe(Vec<NCmd>), For(bool, bool, u32, Vec<NCmd>), Case(bool, Vec<(bool, bool, char, Vec<NCmd>)>), Async(Vec<NCmd>),
            ForPos(Vec<NCmd>), P(Box<NCmd>),
        }
        #[derive(Clone, Debug)]
        pub enum NLine { Cmds(Vec<NCmd>), SynErr }
        #[derive(Clone, Debug)]
        pub struct NCase { pub seed: u64, pub errexit: bool, pub trap: Option<Vec<NLine>>, pub lines: Vec<NLine> }

        // ---- writer
        fn sx_opt(n: &Option<u32>) -> String { n.map(|n| format!(" {n}")).unwrap_or_default() }
        fn sx_ctl(c: &Ctl) -> String {
            match c {
                Ctl::Probe(m) => format!("(probe {m})"), Ctl::St(n) => format!("(st {n})"),
                Ctl::Brk(n) => format!("(brk {n})"), Ctl::Cont(n) => format!("(cont {n})"),
                Ctl::Ret(n) => format!("(ret{})", sx_opt(n)), Ctl::Exit(n) => format!("(exit{})", sx_opt(n)),
                Ctl::SetE(b) => format!("(sete {})", *b as u8), Ctl::SetPf(b) => format!("(setpf {})", *b as u8),
                Ctl::Tick(c, k) => format!("(tick {c} {k})"),
                Ctl::TrapSig(k) => format!("(trapsig ({}))", TRAP_ACTIONS[*k as usize].0),
                Ctl::Raise(n) => format!("(raise {n})"), Ctl::RaiseErr => "(raiseerr)".into(),
                Ctl::SetP(n) => format!("(setp {n})"),
            }
        }
        /// the actions of `trap … USR1` (grammar of the shared model / shell text)
        const TRAP_ACTIONS: [(&str, &str); 5] = [
            ("(probe 97)", "probe 97"), ("(probe 97) (exit 5)", "probe 97; exit 5"), ("(probe 97) (ret 1)", "probe 97; return 1"),
            ("(probe 97) (st 1)", "probe 97; st 1"), ("(probe 97) (exit)", "probe 97; exit"),
        ];
        fn sx_list(v: &[NCmd]) -> String { v.iter().map(sx_ncmd).collect::<Vec<_>>().join(" ") }
        pub fn sx_ncmd(n: &NCmd) -> String {
            match n {
                NCmd::S(c) => sx_simple(c),
                NCmd::Ctl(c) => format!("(ctl {})", sx_ctl(c)),
                NCmd::Grp(r, b) => format!("(grp {} {})", sx_redirs(r), sx_list(b)),
                NCmd::Sub(b) => format!("(sub {})", sx_list(b)),
                NCmd::If(c, b, e) => format!("(if ({}) ({}) {})", sx_list(c), sx_list(b),
                    e.as_ref().map(|e| format!("({})", sx_list(e))).unwrap_or_else(|| "-".into())),
                NCmd::Loop(u, c, b) => format!("(loop {} ({}) ({}))", *u as u8, sx_list(c), sx_list(b)),
                NCmd::Neg(c) => format!("(neg {})", sx_ncmd(c)),
                NCmd::Ao(f, r) => {
                    let mut out = format!("(ao {}", sx_ncmd(f));
                    for (k, c) in r { out.push_str(&format!(" ({} {})", *k as u8, sx_ncmd(c))); }
                    out.push(')');
                    out
                }
                NCmd::Call(b) => format!("(call {})", sx_list(b)),
                NCmd::Pipe(b) => format!("(pipe {})", sx_list(b)),
                NCmd::For(w, ro, n, b) => format!("(for {} {} {n} {})", *w as u8, *ro as u8, sx_list(b)),
                NCmd::Case(se, items) => {
                    let mut out = format!("(case {}", *se as u8);
                    for (m, e, k, b) in items {
                        out.push_str(&format!(" ({} {} {k}{}{})", *m as u8, *e as u8, if b.is_empty() { "" } else { " " }, sx_list(b)));
                    }
                    out.push(')');
                    out
                }
                NCmd::Async(b) => format!("(async {})", sx_list(b)),
                NCmd::ForPos(b) => format!("(forpos {})", sx_list(b)),
                NCmd::P(c) => format!("(p {})", sx_ncmd(c)),
            }
        }
        fn sx_line(l: &NLine) -> String {
            match l { NLine::SynErr => "(synerr)".into(), NLine::Cmds(v) => format!("(L {})", sx_list(v)) }
        }
        pub fn sx_case(c: &NCase) -> String {
            let trap = match &c.trap {
                None => "0".to_string(),
                Some(ls) if ls.len() == 1 && sx_line(&ls[0]) == "(L (ctl (probe 99)))" => "1".to_string(),
                Some(ls) => format!("(A {})", ls.iter().map(sx_line).collect::<Vec<_>>().join(" ")),
            };
            let mut out = format!("nc {} ({} {})", c.seed, c.errexit as u8, trap);
            for l in &c.lines { out.push(' '); out.push_str(&sx_line(l)); }
            out
        }

        // ---- reader (replay / corpus)
        fn to_ctl(x: &Sx) -> Option<Ctl> {
            let (h, r) = head(x)?;
            match (h, r.len()) {
                ("probe", 1) => Some(Ctl::Probe(num(&r[0])?)), ("st", 1) => Some(Ctl::St(num(&r[0])?)),
                ("brk", 1) => Some(Ctl::Brk(num(&r[0])?)), ("cont", 1) => Some(Ctl::Cont(num(&r[0])?)),
                ("ret", 0) => Some(Ctl::Ret(None)), ("ret", 1) => Some(Ctl::Ret(Some(num(&r[0])?))),
                ("exit", 0) => Some(Ctl::Exit(None)), ("exit", 1) => Some(Ctl::Exit(Some(num(&r[0])?))),
                ("sete", 1) => Some(Ctl::SetE(num(&r[0])? != 0)),
                ("setpf", 1) => Some(Ctl::SetPf(num(&r[0])? != 0)),
                ("tick", 2) => Some(Ctl::Tick(num(&r[0])?, num(&r[1])?)),
                ("raise", 1) => Some(Ctl::Raise(num(&r[0])?)), ("raiseerr", 0) => Some(Ctl::RaiseErr),
                ("setp", 1) => Some(Ctl::SetP(num(&r[0])?)),
                ("trapsig", 1) => {
                    let Sx::L(v) = &r[0] else { return None };
                    let text = v.iter().map(|x| match x { Sx::L(w) => format!("({})", w.iter().filter_map(atom).collect::<Vec<_>>().join(" ")), Sx::A(a) => a.clone() }).collect::<Vec<_>>().join(" ");
                    Some(Ctl::TrapSig(TRAP_ACTIONS.iter().position(|a| a.0 == text)? as u8))
                }
                _ => None,
            }
        }
        fn to_list(v: &[Sx]) -> Option<Vec<NCmd>> { v.iter().map(to_ncmd).collect() }
        fn sub_list(x: &Sx) -> Option<Vec<NCmd>> { if let Sx::L(v) = x { to_list(v) } else { None } }
        fn to_ncmd(x: &Sx) -> Option<NCmd> {
            let (h, r) = head(x)?;
            match h {
                "s" => Some(NCmd::S(to_simple(x)?)),
                "ctl" if r.len() == 1 => Some(NCmd::Ctl(to_ctl(&r[0])?)),
                "grp" if !r.is_empty() => Some(NCmd::Grp(to_redirs(&r[0])?, to_list(&r[1..])?)),
                "sub" => Some(NCmd::Sub(to_list(r)?)),
                "if" if r.len() == 3 => {
                    let e = match &r[2] { Sx::A(a) if a == "-" => None, other => Some(sub_list(other)?) };
                    Some(NCmd::If(sub_list(&r[0])?, sub_list(&r[1])?, e))
                }
                "loop" if r.len() == 3 => Some(NCmd::Loop(num(&r[0])? != 0, sub_list(&r[1])?, sub_list(&r[2])?)),
                "neg" if r.len() == 1 => Some(NCmd::Neg(Box::new(to_ncmd(&r[0])?))),
                "ao" if !r.is_empty() => {
                    let mut rest = vec![];
                    for p in &r[1..] {
                        let Sx::L(v) = p else { return None };
                        if v.len() != 2 { return None; }
                        rest.push((num(&v[0])? != 0, to_ncmd(&v[1])?));
                    }
                    Some(NCmd::Ao(Box::new(to_ncmd(&r[0])?), rest))
                }
                "call" => Some(NCmd::Call(to_list(r)?)),
                "pipe" => Some(NCmd::Pipe(to_list(r)?)),
                "for" if r.len() >= 3 => Some(NCmd::For(num(&r[0])? != 0, num(&r[1])? != 0, num(&r[2])?, to_list(&r[3..])?)),
                "case" if !r.is_empty() => {
                    let mut items = vec![];
                    for it in &r[1..] {
                        let Sx::L(v) = it else { return None };
                        if v.len() < 3 { return None; }
                        let k = atom(&v[2])?.chars().next()?;
                        if !"bfc".contains(k) { return None; }
                        items.push((num(&v[0])? != 0, num(&v[1])? != 0, k, to_list(&v[3..])?));
                    }
                    Some(NCmd::Case(num(&r[0])? != 0, items))
                }
                "async" => Some(NCmd::Async(to_list(r)?)),
                "forpos" => Some(NCmd::ForPos(to_list(r)?)),
                "p" if r.len() == 1 => Some(NCmd::P(Box::new(to_ncmd(&r[0])?))),
                _ => None,
            }
        }
        fn to_line(x: &Sx) -> Option<NLine> {
            let (h, r) = head(x)?;
            match h { "synerr" => Some(NLine::SynErr), "L" => Some(NLine::Cmds(to_list(r)?)), _ => None }
        }
        pub fn parse_case(case: &str) -> Option<NCase> {
            let t = tokenize(case);
            if t.first()? != "nc" { return None; }
            let seed: u64 = t.get(1)?.parse().ok()?;
            let mut i = 2;
            let flags = parse_sx(&t, &mut i)?;
            let Sx::L(f) = &flags else { return None };
            if f.len() != 2 { return None; }
            let trap = match &f[1] {
                Sx::A(a) if a == "0" => None,
                Sx::A(a) if a == "1" => Some(vec![NLine::Cmds(vec![NCmd::Ctl(Ctl::Probe(99))])]),
                Sx::L(v) if v.first().and_then(atom) == Some("A") => Some(v[1..].iter().map(to_line).collect::<Option<Vec<_>>>()?),
                _ => return None,
            };
            let mut lines = vec![];
            while i < t.len() {
                let x = parse_sx(&t, &mut i)?;
                lines.push(to_line(&x)?);
            }
            Some(NCase { seed, errexit: num(&f[0])? != 0, trap, lines })
        }

        // ---- renderer
        struct NRender { r: Render, funcs: Vec<String> }
        impl NRender {
            fn ctl(&mut self, c: &Ctl) -> String {
                match c {
                    Ctl::Probe(m) => format!("probe {m}"),
                    Ctl::St(n) => format!("st {n}"),
                    Ctl::Brk(n) => if *n == 1 && self.r.rng.chance(1, 2) { "break".into() } else { format!("break {n}") },
                    Ctl::Cont(n) => if *n == 1 && self.r.rng.chance(1, 2) { "continue".into() } else { format!("continue {n}") },
                    Ctl::Ret(n) => match n { Some(n) => format!("return {n}"), None => "return".into() },
                    Ctl::Exit(n) => match n { Some(n) => format!("exit {n}"), None => "exit".into() },
                    Ctl::SetE(b) => if *b { self.r.pick(&["set -e", "set -o errexit"]).into() } else { self.r.pick(&["set +e", "set +o errexit"]).into() },
                    Ctl::SetPf(b) => if *b { "set -o pipefail".into() } else { "set +o pipefail".into() },
                    Ctl::Tick(c, k) => format!("tick {c} {k}"),
                    Ctl::TrapSig(k) => format!("trap '{}' USR1", TRAP_ACTIONS[*k as usize].1),
                    Ctl::Raise(n) => format!("st {n} {}", self.r.pick(&["$(kill -s USR1 $$)", "`kill -s USR1 $$`"])),
                    Ctl::RaiseErr => "st 0 $(kill -s USR1 $$) ${unset_u?}".into(),
                    Ctl::SetP(n) => format!("set -- {}", (0..*n).map(|k| format!("a{k}")).collect::<Vec<_>>().join(" ")).trim_end().to_string(),
                }
            }
            fn list(&mut self, v: &[NCmd]) -> String { v.iter().map(|n| self.ncmd(n)).collect::<Vec<_>>().join("; ") }
            fn ncmd(&mut self, n: &NCmd) -> String {
                match n {
                    NCmd::S(c) => self.r.simple(c),
                    NCmd::Ctl(c) => self.ctl(c),
                    NCmd::Grp(r, b) => {
                        let body = self.list(b);
                        let c = Simple { w: Words::Ok, t: Target::Absent, r: r.clone(), a: Assigns::None };
                        let redir = if matches!(r, Redirs::None) { String::new() } else { format!(" {}", self.r.simple(&c)) };
                        format!("{{ {body}; }}{redir}")
                    }
                    NCmd::Sub(b) => format!("( {} )", self.list(b)),
                    NCmd::If(c, b, e) => {
                        let (c, b) = (self.list(c), self.list(b));
                        match e {
                            Some(e) => format!("if {c}; then {b}; else {}; fi", self.list(e)),
                            None => format!("if {c}; then {b}; fi"),
                        }
                    }
                    NCmd::Loop(u, c, b) => {
                        let (c, b) = (self.list(c), self.list(b));
                        format!("{} {c}; do {b}; done", if *u { "until" } else { "while" })
                    }
                    NCmd::Neg(c) => format!("! {}", self.ncmd(c)),
                    NCmd::Ao(f, rest) => {
                        let mut out = self.ncmd(f);
                        for (k, c) in rest {
                            out.push_str(if *k { " && " } else { " || " });
                            out.push_str(&self.ncmd(c));
                        }
                        out
                    }
                    NCmd::Call(b) => {
                        let body = self.list(b);
                        let name = format!("nf{}", self.funcs.len());
                        self.funcs.push(format!("{name}() {{ {body}; }}\n"));
                        name
                    }
                    NCmd::Pipe(b) => b.iter().map(|n| self.ncmd(n)).collect::<Vec<_>>().join(" | "),
                    NCmd::For(w, ro, n, b) => {
                        let mut words: Vec<String> = (0..*n).map(|k| format!("w{k}")).collect();
                        if *w { words.insert(self.r.rng.below(words.len() + 1), "${unset_u?}".into()); }
                        let body = self.list(b);
                        format!("for {} in {}; do {body}; done", if *ro { "ro" } else { "v" }, words.join(" "))
                    }
                    NCmd::Case(se, items) => {
                        let mut out = format!("case {} in ", if *se { "${unset_u?}" } else { "x" });
                        for (m, e, k, b) in items {
                            let pat = match (*m, *e) {
                                (true, false) => *self.r.rng.pick(&["x", "y|x", "\"x\"", "?"]),
                                (false, false) => *self.r.rng.pick(&["y", "y|z", "xx"]),
                                (true, true) => "${unset_u?}|x",
                                (false, true) => "y|${unset_u?}",
                            };
                            let body = self.list(b);
                            let cont = match k { 'b' => ";;", 'f' => ";&", _ => ";;&" };
                            out.push_str(&format!("({pat}) {body} {cont} "));
                        }
                        out.push_str("esac");
                        out
                    }
                    NCmd::Async(b) => format!("{{ {}; }} & wait", self.list(b)),
                    NCmd::ForPos(b) => format!("for v do {}; done", self.list(b)),
                    NCmd::P(c) => self.ncmd(c),
                }
            }
        }
        pub fn render(c: &NCase) -> (String, Vec<(String, String)>) {
            let mut r = NRender { r: Render { rng: Rng::new(c.seed ^ 0x9C), files: vec![], maybe_in_loop: true, interactive: false }, funcs: vec![] };
            let mut body = String::new();
            for l in &c.lines {
                match l {
                    NLine::SynErr => body.push_str(r.r.pick(&["fi\n", ")\n", "st 0 && ;\n", "done\n"])),
                    NLine::Cmds(v) if v.is_empty() => body.push_str(r.r.pick(&["\n", "# a comment\n", "   \n"])),
                    NLine::Cmds(v) => { body.push_str(&r.list(v)); body.push('\n'); }
                }
            }
            let trap_text = c.trap.as_ref().map(|ls| {
                let mut text = String::new();
                for l in ls {
                    match l {
                        NLine::SynErr => text.push_str(r.r.pick(&["fi\n", ")\n", "done\n"])),
                        NLine::Cmds(v) if v.is_empty() => text.push_str(r.r.pick(&["\n", "# a comment\n"])),
                        NLine::Cmds(v) => { text.push_str(&r.list(v)); text.push('\n'); }
                    }
                }
                assert!(!text.contains('\''));
                text
            });
            // every function is defined before the first line of the script runs
            let mut out = String::from(PROLOGUE);
            for f in &r.funcs { out.push_str(f); }
            if c.errexit { out.push_str(r.r.pick(&["set -e\n", "set -o errexit\n"])); }
            if let Some(text) = trap_text { out.push_str(&format!("trap '{}' EXIT\n", text.trim_end())); }
            out.push_str(&body);
            (out, r.r.files)
        }

        // ---- generator
        pub struct NGen { pub g: Gen, pub budget: i32, pub counter: u32, pub sig: bool }
        impl NGen {
            fn leaf(&mut self, in_loop: bool, in_fn: bool, no_cont: bool) -> NCmd {
                if self.sig && self.g.rng.chance(1, 4) {
                    // the shell receives the trapped signal while a (failing) command runs
                    return if self.g.rng.chance(1, 5) { NCmd::Ctl(Ctl::RaiseErr) } else { NCmd::Ctl(Ctl::Raise(self.g.status())) };
                }
                if !in_fn && self.g.rng.chance(1, 25) { return NCmd::Ctl(Ctl::SetP(self.g.rng.below(3) as u32)); }
                match self.g.rng.below(100) {
                    0..=39 => NCmd::S(self.g.simple()),
                    40..=61 => NCmd::Ctl(Ctl::Probe(self.g.m())),
                    62..=74 => NCmd::Ctl(Ctl::St(self.g.status())),
                    75..=83 => {
                        let n = 1 + self.g.rng.below(2) as u32;
                        let brk = no_cont || self.g.rng.chance(1, 2);
                        if in_loop || self.g.rng.chance(1, 4) { if brk { NCmd::Ctl(Ctl::Brk(n)) } else { NCmd::Ctl(Ctl::Cont(n)) } }
                        else { NCmd::Ctl(Ctl::Probe(self.g.m())) }
                    }
                    84..=90 => {
                        if in_fn || self.g.rng.chance(1, 5) { NCmd::Ctl(Ctl::Ret(*self.g.rng.pick(&[None, Some(0), Some(1), Some(3)]))) }
                        else { NCmd::Ctl(Ctl::St(self.g.status())) }
                    }
                    91..=93 => NCmd::Ctl(Ctl::Exit(*self.g.rng.pick(&[None, Some(0), Some(1), Some(4)]))),
                    94..=97 => NCmd::Ctl(Ctl::SetE(self.g.rng.chance(1, 2))),
                    _ => NCmd::Ctl(Ctl::SetPf(self.g.rng.chance(2, 3))),
                }
            }
            fn list(&mut self, depth: u32, in_loop: bool, in_fn: bool, no_cont: bool) -> Vec<NCmd> {
                let mut v = vec![self.ncmd(depth, in_loop, in_fn, no_cont)];
                while self.g.rng.chance(2, 5) && v.len() < 3 { v.push(self.ncmd(depth, in_loop, in_fn, no_cont)); }
                if self.g.rng.chance(1, 2) { v.push(NCmd::Ctl(Ctl::Probe(self.g.m()))); }
                v
            }
            /// a command that is not an and-or list or a negation (what `!` and `&&`/`||` take as operands)
            fn operand(&mut self, depth: u32, in_loop: bool, in_fn: bool, no_cont: bool) -> NCmd {
                loop {
                    let n = self.ncmd(depth, in_loop, in_fn, no_cont);
                    if !matches!(n, NCmd::Ao(..) | NCmd::Neg(_) | NCmd::Async(_)) { return n; }
                }
            }
            /// a command that prints no probe: a stage of a pipeline other than the last (its output goes into the pipe)
            fn quiet(&mut self, depth: u32) -> NCmd {
                match self.g.rng.below(100) {
                    0..=49 => loop {
                        let c = self.g.simple();
                        let ok = match &c.t {
                            Target::Absent | Target::Ext(_) => true,
                            Target::Fn(..) => false,
                            Target::Bi(_, b) => matches!(b, Body::Res(_) | Body::Rep(_) | Body::DotMissing | Body::EvalSyn | Body::DotSyn | Body::Resd(..))
                                || matches!(b, Body::Cmd(i) if matches!(**i, Body::Res(_) | Body::Rep(_) | Body::DotMissing)),
                        };
                        if ok { return NCmd::S(c); }
                    },
                    50..=69 => NCmd::Ctl(Ctl::St(self.g.status())),
                    70..=79 => NCmd::Ctl(Ctl::Exit(*self.g.rng.pick(&[None, Some(0), Some(1), Some(4)]))),
                    80..=89 if depth > 0 => NCmd::Grp(Redirs::None, vec![self.quiet(depth - 1), self.quiet(depth - 1)]),
                    90..=94 if depth > 0 => NCmd::Sub(vec![self.quiet(depth - 1)]),
                    _ => NCmd::Ctl(Ctl::St(self.g.status())),
                }
            }
            pub fn ncmd(&mut self, depth: u32, in_loop: bool, in_fn: bool, no_cont: bool) -> NCmd {
                self.budget -= 1;
                if depth == 0 || self.budget <= 0 || self.g.rng.chance(1, 4) { return self.leaf(in_loop, in_fn, no_cont); }
                let d = depth - 1;
                let mut k = self.g.rng.below(100);
                if self.sig && ((75..=80).contains(&k) || (91..=94).contains(&k)) { k = 0; }
                if !in_fn && (81..=85).contains(&k) && self.g.rng.chance(1, 3) {
                    return NCmd::ForPos(self.list(d, true, in_fn, no_cont));
                }
                match k {
                    11..=15 => NCmd::Call(self.list(d, in_loop, true, no_cont)),
                    0..=10 => {
                        let r = match self.g.rng.below(10) { 0..=5 => Redirs::None, 6 => Redirs::Ok, 7 => Redirs::Cs(self.g.status()), 8 => Redirs::Err, _ => Redirs::XErr };
                        NCmd::Grp(r, self.list(d, in_loop, in_fn, no_cont))
                    }
                    16..=27 => NCmd::Sub(self.list(d, in_loop, in_fn, no_cont)),
                    28..=42 => {
                        let c = self.list(d, in_loop, in_fn, no_cont);
                        let b = self.list(d, in_loop, in_fn, no_cont);
                        let e = if self.g.rng.chance(1, 2) { Some(self.list(d, in_loop, in_fn, no_cont)) } else { None };
                        NCmd::If(c, b, e)
                    }
                    43..=57 => {
                        // the condition ends in `tick c k` (succeeds k times): the loop ends; nothing in the
                        // condition may `continue` (the tick would never be reached again)
                        self.counter += 1;
                        let until = self.g.rng.chance(1, 3);
                        let tick = NCmd::Ctl(Ctl::Tick(self.counter, 1 + self.g.rng.below(2) as u32));
                        let last = if until { NCmd::Neg(Box::new(tick)) } else { tick };
                        let mut c = vec![];
                        if self.g.rng.chance(1, 2) { c.push(self.ncmd(d, false, in_fn, true)); }
                        c.push(last);
                        let b = self.list(d, true, in_fn, no_cont);
                        NCmd::Loop(until, c, b)
                    }
                    58..=63 => NCmd::Neg(Box::new(self.operand(d, in_loop, in_fn, no_cont))),
                    64..=74 => {
                        let f = if self.g.rng.chance(1, 4) { NCmd::Neg(Box::new(self.operand(d, in_loop, in_fn, no_cont))) } else { self.operand(d, in_loop, in_fn, no_cont) };
                        let mut rest = vec![];
                        let n = self.g.rng.below(3);   // 0: an and-or list of one pipeline
                        for _ in 0..n { rest.push((self.g.rng.chance(1, 2), self.operand(d, in_loop, in_fn, no_cont))); }
                        NCmd::Ao(Box::new(f), rest)
                    }
                    75..=80 => {
                        // a pipeline: only the last command may print probes
                        let mut v = vec![self.quiet(d)];
                        if self.g.rng.chance(1, 3) { v.push(self.quiet(d)); }
                        let last = loop {
                            let n = self.ncmd(d, false, in_fn, no_cont);
                            if !matches!(n, NCmd::Ao(..) | NCmd::Neg(_) | NCmd::Async(_) | NCmd::Pipe(_)) { break n; }
                        };
                        v.push(last);
                        NCmd::Pipe(v)
                    }
                    81..=85 => {
                        let (w, ro) = match self.g.rng.below(10) { 0 | 1 => (true, false), 2 | 3 => (false, true), 4 => (true, true), _ => (false, false) };
                        NCmd::For(w, ro, self.g.rng.below(3) as u32, self.list(d, true, in_fn, no_cont))
                    }
                    86..=90 => {
                        let se = self.g.rng.chance(1, 8);
                        let mut items = vec![];
                        for _ in 0..(1 + self.g.rng.below(3)) {
                            let m = self.g.rng.chance(1, 2);
                            let e = self.g.rng.chance(1, 6);
                            let k = *self.g.rng.pick(&['b', 'b', 'f', 'c']);
                            let b = if self.g.rng.chance(1, 6) { vec![] } else { self.list(d, in_loop, in_fn, no_cont) };
                            items.push((m, e, k, b));
                        }
                        NCmd::Case(se, items)
                    }
                    91..=94 => NCmd::Async(self.list(d, false, in_fn, no_cont)),
                    _ => NCmd::Call(self.list(d, in_loop, true, no_cont)),
                }
            }
            pub fn case(&mut self, seed: u64, depth: u32) -> NCase {
                let errexit = self.g.rng.chance(1, 2);
                let p99 = NLine::Cmds(vec![NCmd::Ctl(Ctl::Probe(99))]);
                let trap = match self.g.rng.below(8) {
                    0..=3 => None,
                    4 | 5 => Some(vec![p99]),
                    6 => {
                        // an action with commands of its own (no `eval '…'` inside the quoted text)
                        self.g.depth += 1;
                        let l = self.list(1, false, false, false);
                        self.g.depth -= 1;
                        if self.g.rng.chance(1, 2) { Some(vec![NLine::Cmds(vec![]), p99, NLine::Cmds(l), NLine::Cmds(vec![])]) }
                        else { Some(vec![p99, NLine::Cmds(l)]) }
                    }
                    _ => Some(vec![p99, NLine::SynErr, NLine::Cmds(vec![NCmd::Ctl(Ctl::Probe(98))])]),
                };
                self.sig = self.g.rng.chance(1, 5);
                let nlines = 1 + self.g.rng.below(2);
                let mut lines = vec![];
                if self.sig { lines.push(NLine::Cmds(vec![NCmd::Ctl(Ctl::TrapSig(self.g.rng.below(5) as u8))])); }
                for k in 0..nlines {
                    if k > 0 && self.g.rng.chance(1, 8) { lines.push(NLine::SynErr); continue; }
                    if self.g.rng.chance(1, 6) { lines.push(NLine::Cmds(vec![])); }
                    let mut v = vec![self.ncmd(depth, false, false, false)];
                    if self.g.rng.chance(1, 3) { v.push(self.ncmd(depth.saturating_sub(1), false, false, false)); }
                    v.push(NCmd::Ctl(Ctl::Probe(self.g.m())));
                    lines.push(NLine::Cmds(v));
                }
                lines.push(NLine::Cmds(vec![NCmd::Ctl(Ctl::Probe(self.g.m()))]));
                if self.sig {
                    // every simple and compound command is a boundary at which caught signals are handled
                    for l in lines.iter_mut() { if let NLine::Cmds(v) = l { *v = v.drain(..).map(wrap).collect(); } }
                    let trap = trap.map(|ls| ls.into_iter().map(|l| match l { NLine::Cmds(v) => NLine::Cmds(v.into_iter().map(wrap).collect()), x => x }).collect());
                    return NCase { seed, errexit, trap, lines };
                }
                NCase { seed, errexit, trap, lines }
            }
        }

        fn wrap_list(v: Vec<NCmd>) -> Vec<NCmd> { v.into_iter().map(wrap).collect() }
        /// wraps every `syntax::Command` (simple, compound, function call) in the command-boundary node
        fn wrap(n: NCmd) -> NCmd {
            let p = |n: NCmd| NCmd::P(Box::new(n));
            match n {
                NCmd::S(_) | NCmd::Ctl(_) => p(n),
                NCmd::Grp(r, b) => p(NCmd::Grp(r, wrap_list(b))),
                NCmd::Sub(b) => p(NCmd::Sub(wrap_list(b))),
                NCmd::If(c, b, e) => p(NCmd::If(wrap_list(c), wrap_list(b), e.map(wrap_list))),
                NCmd::Loop(u, c, b) => p(NCmd::Loop(u, wrap_list(c), wrap_list(b))),
                NCmd::Call(b) => p(NCmd::Call(wrap_list(b))),
                NCmd::For(w, ro, k, b) => p(NCmd::For(w, ro, k, wrap_list(b))),
                NCmd::ForPos(b) => p(NCmd::ForPos(wrap_list(b))),
                NCmd::Case(se, items) => p(NCmd::Case(se, items.into_iter().map(|(m, e, k, b)| (m, e, k, wrap_list(b))).collect())),
                NCmd::Neg(c) => NCmd::Neg(Box::new(wrap(*c))),
                NCmd::Ao(f, rest) => NCmd::Ao(Box::new(wrap(*f)), rest.into_iter().map(|(k, c)| (k, wrap(c))).collect()),
                NCmd::Pipe(b) => NCmd::Pipe(wrap_list(b)),
                NCmd::Async(b) => NCmd::Async(wrap_list(b)),
                NCmd::P(c) => NCmd::P(c),
            }
        }

        pub fn observe(c: &NCase) -> String {
            let (script, files) = render(c);
            observe_script(script, files, false)
        }
        pub fn run_case(case: &str) -> String {
            match parse_case(case) {
                Some(c) => {
                    yverif::proto::watch_case(case, 60);
                    yverif::proto::guarded(|| observe(&c))
                }
                None => "bad-case".into(),
            }
        }

        // ---- oracle (independent of the Lean model)
        /// the first command the construct executes, when that is a structured simple command reached without
        /// entering a subshell or passing a group whose redirection fails; `exempt`: some construct on the way is a
        /// context where errexit is ignored
        fn first_leaf<'a>(n: &'a NCmd, exempt: &mut bool) -> Option<&'a Simple> {
            match n {
                NCmd::S(c) => Some(c),
                NCmd::P(c) => first_leaf(c, exempt),
                NCmd::Grp(r, b) => if matches!(r, Redirs::Err | Redirs::XErr) { None } else { first_leaf(b.first()?, exempt) },
                NCmd::Call(b) => first_leaf(b.first()?, exempt),
                NCmd::If(c, _, _) | NCmd::Loop(_, c, _) => { *exempt = true; first_leaf(c.first()?, exempt) }
                NCmd::Neg(c) => { *exempt = true; first_leaf(c, exempt) }
                NCmd::Ao(f, rest) => { if !rest.is_empty() { *exempt = true; } first_leaf(f, exempt) }
                NCmd::For(false, false, n, b) if *n > 0 => first_leaf(b.first()?, exempt),
                NCmd::Case(false, items) => match items.first()? {
                    (true, false, _, b) => first_leaf(b.first()?, exempt),
                    _ => None,
                },
                NCmd::Sub(_) | NCmd::Ctl(_) | NCmd::Pipe(_) | NCmd::For(..) | NCmd::Case(..) | NCmd::Async(_) | NCmd::ForPos(_) => None,
            }
        }
        fn markers(n: &NCmd, out: &mut Vec<u32>) {
            match n {
                NCmd::S(c) => markers_simple(c, out),
                NCmd::Ctl(Ctl::Probe(m)) => out.push(*m),
                NCmd::Ctl(_) => {}
                NCmd::Grp(_, b) | NCmd::Sub(b) | NCmd::Call(b) | NCmd::Pipe(b) | NCmd::Async(b) | NCmd::For(_, _, _, b) => b.iter().for_each(|n| markers(n, out)),
                NCmd::Case(_, items) => items.iter().for_each(|(_, _, _, b)| b.iter().for_each(|n| markers(n, out))),
                NCmd::If(c, b, e) => {
                    c.iter().chain(b.iter()).for_each(|n| markers(n, out));
                    if let Some(e) = e { e.iter().for_each(|n| markers(n, out)); }
                }
                NCmd::Loop(_, c, b) => c.iter().chain(b.iter()).for_each(|n| markers(n, out)),
                NCmd::Neg(c) | NCmd::P(c) => markers(c, out),
                NCmd::ForPos(b) => b.iter().for_each(|n| markers(n, out)),
                NCmd::Ao(f, rest) => { markers(f, out); rest.iter().for_each(|(_, n)| markers(n, out)); }
            }
        }
        /// (1) the EXIT action's marker exactly once unless the shell was aborted; (2) when the first command the
        /// script executes — at whatever depth of groups, functions, conditions, negations and and-or lists — has a
        /// shell error that docs/src/termination.md says ends the shell, or is a plain failing command where errexit
        /// applies (docs/src/language/commands/exit_status.md: not in a condition / negation / non-last and-or
        /// pipeline, functions and groups called from there included), no probe of the script runs and the exit
        /// status is the error's / the command's
        pub fn oracle(case: &str, obs: &str) -> String {
            let Some(c) = parse_case(case) else { return "-".into() };
            if !obs.starts_with("trace=") { return "-".into(); }
            let trace = obs.strip_prefix("trace=").and_then(|s| s.split(' ').next()).unwrap_or("");
            let entries: Vec<&str> = trace.split(',').filter(|e| !e.is_empty()).collect();
            let mut verdict = "-".to_string();
            let mut script_markers = vec![];
            for l in &c.lines {
                if let NLine::Cmds(v) = l { for n in v { markers(n, &mut script_markers); } }
            }
            if let Some(action) = &c.trap {
                let n = entries.iter().filter(|e| e.starts_with("99:")).count();
                let aborted = obs.contains(" div=Abort");
                if aborted && n != 0 { return "FAIL:exit-trap-ran-after-abort".into(); }
                if !aborted && n != 1 { return format!("FAIL:exit-trap-ran-{n}-times"); }
                if !aborted {
                    // nothing of the script runs after the action has started
                    let at = entries.iter().position(|e| e.starts_with("99:")).unwrap();
                    for e in &entries[at + 1..] {
                        let m: u32 = e.split(':').next().and_then(|m| m.parse().ok()).unwrap_or(0);
                        if script_markers.contains(&m) { return format!("FAIL:script-ran-after-exit-trap:probe-{m}"); }
                    }
                    // a line of the action that does not parse ends the action and the exit status is 2 (F23)
                    // (when `probe 99` saw `$? = 0`: with a non-zero `$?` under errexit the probe itself ends the action)
                    if action.iter().any(|l| matches!(l, NLine::SynErr)) && entries[at] == "99:0" {
                        if entries.iter().any(|e| e.starts_with("98:")) { return "FAIL:action-ran-past-its-syntax-error".into(); }
                        if !obs.ends_with(" status=2") { return "FAIL:syntax-error-in-exit-action:expected-status-2".into(); }
                    }
                }
                verdict = "ok".into();
            }
            let plain_trap = match &c.trap { None => true, Some(a) => a.len() == 1 };
            let Some(NLine::Cmds(first)) = c.lines.first() else { return verdict };
            let Some(n) = first.first() else { return verdict };
            let mut exempt = false;
            let Some(cmd) = first_leaf(n, &mut exempt) else { return verdict };
            let applies = c.errexit && !exempt;
            let (class, st) = match shell_error(cmd) {
                Some(("redirection", st)) => if applies { ("redirection", st) } else { return verdict },
                Some(x) => x,
                None => match (&cmd.w, &cmd.t, &cmd.r, &cmd.a) {
                    (Words::Ok, Target::Ext(st), Redirs::None, Assigns::None) if applies => ("errexit", *st),
                    _ => return verdict,
                },
            };
            for e in &entries {
                let m: u32 = e.split(':').next().and_then(|m| m.parse().ok()).unwrap_or(0);
                if script_markers.contains(&m) {
                    return format!("FAIL:ran-after-{class}-at-depth:probe-{m}");
                }
            }
            if !obs.contains(&format!(" pre={st} ")) {
                return format!("FAIL:status-before-exit-trap-after-{class}-at-depth:expected-{st}");
            }
            if plain_trap && !obs.ends_with(&format!(" status={st}")) {
                return format!("FAIL:exit-status-after-{class}-at-depth:expected-{st}");
            }
            "ok".into()
        }
    }

}

/// `rp <status> <frame, top first>…`: `yash_builtin::common::report::report` on an Env with that frame stack
fn rp_case(case: &str) -> (String, String) {
    use futures_util::FutureExt as _;
    use yash_env::semantics::{Divert, ExitStatus, Field};
    use yash_env::source::pretty::{Report, ReportType};
    use yash_env::stack::{Builtin, Frame, Stack};
    let f: Vec<&str> = case.split(' ').filter(|s| !s.is_empty()).collect();
    if f.len() < 2 || f[0] != "rp" { return ("bad-case".into(), "-".into()); }
    let Ok(st) = f[1].parse::<i32>() else { return ("bad-case".into(), "-".into()) };
    let mut frames = vec![];
    for name in f[2..].iter().rev() {
        frames.push(match *name {
            "loop" => Frame::Loop, "sub" => Frame::Subshell, "cond" => Frame::Condition, "dot" => Frame::DotScript,
            "init" => Frame::InitFile, "trap" => yash_env::trap::Condition::Exit.into(),
            "bs" => Builtin { name: Field::dummy("b"), is_special: true }.into(),
            "bn" => Builtin { name: Field::dummy("b"), is_special: false }.into(),
            _ => return ("bad-case".into(), "-".into()),
        });
    }
    // the property's own statement: the innermost built-in decides
    let innermost = f[2..].iter().find(|n| **n == "bs" || **n == "bn").copied();
    let obs = yverif::proto::guarded(|| {
        let mut env = yash_env::Env::new_virtual();
        env.stack = Stack::from(frames);
        let mut report = Report::new();
        report.r#type = ReportType::Error;
        report.title = "planted error".into();
        let Some(r) = yash_builtin::common::report::report(&mut env, report, ExitStatus(st)).now_or_never() else { return "PENDING".into() };
        let div = match r.divert() {
            std::ops::ControlFlow::Continue(()) => "cont".to_string(),
            std::ops::ControlFlow::Break(Divert::Interrupt(None)) => "Interrupt:-".to_string(),
            std::ops::ControlFlow::Break(d) => format!("{d:?}").replace(' ', ""),
        };
        format!("status={} div={div}", r.exit_status().0)
    });
    let want = if innermost == Some("bs") { "Interrupt:-" } else { "cont" };
    let oracle = if obs == format!("status={st} div={want}") { "ok".to_string() } else { format!("FAIL:report-divert:expected-{want}") };
    (obs, oracle)
}

/// `rd <seed> (<interactive> <errexit> 0)`: the shell whose main input cannot be read
fn rd_case(case: &str) -> String {
    let f: Vec<&str> = case.split(|c| c == ' ' || c == '(' || c == ')').filter(|s| !s.is_empty()).collect();
    if f.len() != 5 || f[0] != "rd" { return "bad-case".into(); }
    let (i, e) = (f[2] == "1", f[3] == "1");
    yverif::proto::guarded(|| sc::observe_script(format!("\0READERR{}", e as u8), vec![], i))
}

fn main() {
    quiet_panics();
    let o = Opts::from_args();
    if o.extra.first().map(|s| s.as_str()) == Some("--show") {
        let (fixed, _) = o.fixed_cases();
        for c in fixed {
            if let Some(sc) = sc::parse_case(&c) {
                let (text, files) = sc::render(&sc);
                println!("{text}");
                for (p, t) in files {
                    println!("# {p}: {}", t.trim_end());
                }
            } else if let Some(nc) = sc::nc::parse_case(&c) {
                let (text, files) = sc::nc::render(&nc);
                println!("{text}");
                for (p, t) in files {
                    println!("# {p}: {}", t.trim_end());
                }
            } else if let Some((seed, lines)) = parse_case(&c) {
                println!("{}", render(seed, &lines));
            }
        }
        return;
    }
    let (fixed, only) = o.fixed_cases();
    for c in &fixed {
        if c.starts_with("sc ") {
            let obs = sc::run_case(c);
            emit(c, &obs, &sc::oracle(c, &obs));
            continue;
        }
        if c.starts_with("rp ") {
            let (obs, oracle) = rp_case(c);
            emit(c, &obs, &oracle);
            continue;
        }
        if c.starts_with("rd ") {
            let obs = rd_case(c);
            emit(c, &obs, "-");
            continue;
        }
        if c.starts_with("nc ") {
            let obs = sc::nc::run_case(c);
            emit(c, &obs, &sc::nc::oracle(c, &obs));
            continue;
        }
        let obs = run_case(c);
        emit(c, &obs, &oracle_all(c, &obs, true));
    }
    if only {
        return;
    }
    // `--only-nc` (development aid): only the last family
    let only_nc = o.extra.iter().any(|a| a == "--only-nc");
    let n = if only_nc { 0 } else if o.thorough() { 200_000 } else { 6_000 };
    let mut rng = Rng::new(o.seed ^ 0xC10);
    for k in 0..n {
        let s = rng.next();
        if k % o.shard.1 != o.shard.0 {
            continue;
        }
        let mut g = Gen {
            call_limit: yverif::prog::CALLABLE,
            loop_depth: 0,
            rng: Rng::new(s),
            marker: 0,
            counter: 0,
            budget: if o.thorough() { 26 } else { 18 },
            max_depth: if o.thorough() { 2 + (k % 4) as u32 } else { 1 + (k % 3) as u32 },
            errors: true,
            sig: false,
            defined: vec![],
        };
        let lines = g.script();
        let surface = g.rng.next() % 1000;
        let case = format!("{} {}", surface, sx_script(&lines));
        let obs = run_case(&case);
        let with_real = k % (if o.thorough() { 40 } else { 10 }) == 0;
        emit(&case, &obs, &oracle_all(&case, &obs, with_real));
    }
    // the `sc` family: one structured simple command in context
    let n = if only_nc { 0 } else if o.thorough() { 200_000 } else { 8_000 };
    let mut rng = Rng::new(o.seed ^ 0x5C10);
    for k in 0..n {
        let s = rng.next();
        if k % o.shard.1 != o.shard.0 {
            continue;
        }
        let mut g = sc::Gen { rng: Rng::new(s), marker: 0, depth: 0, interactive: false };
        let c = g.case(s % 1000);
        let case = sc::sx_case(&c);
        let obs = sc::run_case(&case);
        emit(&case, &obs, &sc::oracle(&case, &obs));
    }
    // the main input cannot be read (4 cases, shard 0 only)
    if !only_nc && o.shard.0 == 0 {
        for (i, e) in [(0, 0), (0, 1), (1, 0), (1, 1)] {
            let case = format!("rd 0 ({i} {e} 0)");
            let obs = rd_case(&case);
            emit(&case, &obs, "-");
        }
    }
    // `report()` on every frame stack of up to 3 frames (585 cases, shard 0 only)
    if !only_nc && o.shard.0 == 0 {
        let kinds = ["loop", "sub", "cond", "bs", "bn", "dot", "trap", "init"];
        let mut stacks: Vec<Vec<&str>> = vec![vec![]];
        let mut last: Vec<Vec<&str>> = vec![vec![]];
        for _ in 0..3 {
            let mut next = vec![];
            for s in &last { for k in kinds { let mut v = s.clone(); v.push(k); next.push(v); } }
            stacks.extend(next.iter().cloned());
            last = next;
        }
        for (k, s) in stacks.iter().enumerate() {
            let case = format!("rp {} {}", 1 + k % 2, s.join(" ")).trim_end().to_string();
            let (obs, oracle) = rp_case(&case);
            emit(&case, &obs, &oracle);
        }
    }
    // the `nc` family: structured simple commands at any depth of the enclosing constructs
    let n = if o.thorough() { 160_000 } else { 5_000 };
    let mut rng = Rng::new(o.seed ^ 0x9C10);
    for k in 0..n {
        let s = rng.next();
        if k % o.shard.1 != o.shard.0 {
            continue;
        }
        let mut g = sc::nc::NGen { g: sc::Gen { rng: Rng::new(s), marker: 0, depth: 0, interactive: false }, budget: if o.thorough() { 16 } else { 12 }, counter: 0, sig: false };
        let c = g.case(s % 1000, 1 + (k % 4) as u32);
        let case = sc::nc::sx_case(&c);
        let obs = sc::nc::run_case(&case);
        emit(&case, &obs, &sc::nc::oracle(&case, &obs));
    }
}
