//! C10 — errexit and shell errors: programs of the core language with failing commands of every
//! category planted at random positions, errexit on/off, an EXIT trap, and syntax errors on later
//! lines; run by the real shell on the virtual system and compared with the Lean `Exec` model.
//!
//! Case line and observation as in c02 (`yverif::prog`). Oracle: when the script installs the EXIT
//! trap (`probe 99`) up front, the trap's probe appears exactly once and last in the trace.

use yverif::prog::{Gen, observe_real, parse_case, render, run_case, sx_script};
use yverif::proto::{Opts, emit, quiet_panics};
use yverif::rng::Rng;

/// Every `REAL_EVERY`-th case also runs on the real `yash3` binary (through `yash_cli::main`, its
/// argument parsing and `run_as_shell_process`): the observation must be the same.
fn real_leg(case: &str, obs: &str) -> Option<String> {
    // the command-search names need `$PATH` entries and substitutive built-ins the prologue of the
    // real-binary run cannot provide
    // (and a signal caught while a probe *function* of the prologue runs would be handled inside it)
    if ["sbin", "sbout", "xtin", "xtpath", "trapsig"].iter().any(|n| case.contains(n)) {
        return None;
    }
    let (seed, lines) = parse_case(case)?;
    let real = observe_real(seed, &lines);
    if real == "NO-BINARY" {
        return Some("FAIL:real-binary-could-not-be-built".into());
    }
    if real != obs {
        return Some(format!("FAIL:real-binary-differs({})", real.replace(['\t', '\n'], " ")));
    }
    None
}

fn oracle_all(case: &str, obs: &str, with_real: bool) -> String {
    if with_real {
        if let Some(f) = real_leg(case, obs) {
            return f;
        }
    }
    oracle(case, obs)
}

fn oracle(case: &str, obs: &str) -> String {
    if !case.contains("((trapexit ((probe 99)") || !obs.starts_with("trace=") {
        return "-".into();
    }
    let trace = obs
        .strip_prefix("trace=")
        .and_then(|s| s.split(' ').next())
        .unwrap_or("");
    let entries: Vec<&str> = trace.split(',').filter(|e| !e.is_empty()).collect();
    let n = entries.iter().filter(|e| e.starts_with("99:")).count();
    if n != 1 {
        return format!("FAIL:exit-trap-ran-{n}-times");
    }
    if !entries.last().unwrap().starts_with("99:") {
        return "FAIL:commands-ran-after-exit-trap".into();
    }
    "ok".into()
}

fn main() {
    quiet_panics();
    let o = Opts::from_args();
    if o.extra.first().map(|s| s.as_str()) == Some("--show") {
        let (fixed, _) = o.fixed_cases();
        for c in fixed {
            if let Some((seed, lines)) = parse_case(&c) {
                println!("{}", render(seed, &lines));
            }
        }
        return;
    }
    let (fixed, only) = o.fixed_cases();
    for c in &fixed {
        let obs = run_case(c);
        emit(c, &obs, &oracle_all(c, &obs, true));
    }
    if only {
        return;
    }
    let n = if o.thorough() { 200_000 } else { 10_000 };
    let mut rng = Rng::new(o.seed ^ 0xC10);
    for k in 0..n {
        let s = rng.next();
        if k % o.shard.1 != o.shard.0 {
            continue;
        }
        let mut g = Gen {
            call_limit: yverif::prog::CALLABLE,
            loop_depth: 0,
            rng: Rng::new(s),
            marker: 0,
            counter: 0,
            budget: if o.thorough() { 26 } else { 18 },
            max_depth: if o.thorough() { 2 + (k % 4) as u32 } else { 1 + (k % 3) as u32 },
            errors: true,
            sig: false,
            defined: vec![],
        };
        let lines = g.script();
        let surface = g.rng.next() % 1000;
        let case = format!("{} {}", surface, sx_script(&lines));
        let obs = run_case(&case);
        let with_real = k % (if o.thorough() { 40 } else { 10 }) == 0;
        emit(&case, &obs, &oracle_all(&case, &obs, with_real));
    }
}
