//! C12 — job table consistency: histories of job events against the real `JobList`.
//!
//! Case line: operations separated by `;` (see /verif/lean/YashModel/Job/Main.lean).
//! Observation: the public view after every operation.  Oracle: the clauses of the property
//! statement evaluated on the real table after every operation (only while the `insert`
//! precondition — pid fresh or designating a finished job — has been respected).

use std::collections::{HashSet, VecDeque};
use yash_env::job::id::{FindError, JobId};
use yash_env::job::{Job, JobList, Pid, ProcessResult, ProcessState, SetCurrentJobError};
use yash_env::semantics::ExitStatus;
use yash_env::signal::Number as SigNum;
use yverif::proto::{Opts, emit, guarded, quiet_panics};
use yverif::rng::Rng;

fn sig(n: i32) -> SigNum {
    SigNum::from_raw_unchecked(std::num::NonZeroI32::new(n).unwrap())
}

fn parse_state(t: &str) -> Option<ProcessState> {
    let (k, rest) = t.split_at(1);
    Some(match k {
        "R" if rest.is_empty() => ProcessState::Running,
        "S" => ProcessState::stopped(sig(rest.parse().ok()?)),
        "E" => ProcessState::exited(ExitStatus(rest.parse().ok()?)),
        "K" => ProcessState::Halted(ProcessResult::Signaled {
            signal: sig(rest.parse().ok()?),
            core_dump: false,
        }),
        _ => return None,
    })
}

fn show_state(s: &ProcessState) -> String {
    match s {
        ProcessState::Running => "R".into(),
        ProcessState::Halted(ProcessResult::Stopped(n)) => format!("S{}", n.as_raw()),
        ProcessState::Halted(ProcessResult::Exited(e)) => format!("E{}", e.0),
        ProcessState::Halted(ProcessResult::Signaled { signal, .. }) => {
            format!("K{}", signal.as_raw())
        }
    }
}

fn opt(n: Option<usize>) -> String {
    n.map(|n| n.to_string()).unwrap_or_else(|| "-".into())
}

fn pids_mentioned(ops: &[&str]) -> Vec<i32> {
    let mut v: Vec<i32> = vec![];
    for op in ops {
        let w: Vec<&str> = op.split_whitespace().collect();
        if matches!(w.first(), Some(&"ins") | Some(&"upd") | Some(&"async")) {
            if let Some(p) = w.get(1).and_then(|p| p.parse().ok()) {
                if !v.contains(&p) {
                    v.push(p);
                }
            }
        }
    }
    v
}

fn observe(l: &JobList, r: &str, pids: &[i32]) -> String {
    let jobs: Vec<String> = l
        .iter()
        .map(|(i, j)| {
            format!(
                "{}:{}:{}:{}:{}:{}",
                i,
                j.pid.0,
                show_state(&j.state),
                j.state_changed as u8,
                j.is_owned as u8,
                j.expected_state
                    .map(|s| show_state(&s))
                    .unwrap_or_else(|| "-".into())
            )
        })
        .collect();
    let ids = [
        JobId::CurrentJob,
        JobId::PreviousJob,
        JobId::JobNumber(1.try_into().unwrap()),
        JobId::JobNumber(2.try_into().unwrap()),
        JobId::JobNumber(3.try_into().unwrap()),
        JobId::JobNumber(4.try_into().unwrap()),
        JobId::JobNumber(5.try_into().unwrap()),
    ];
    let finds: Vec<String> = ids
        .iter()
        .map(|id| match id.find(l) {
            Ok(i) => i.to_string(),
            Err(FindError::NotFound) => "nf".into(),
            Err(FindError::Ambiguous) => "amb".into(),
        })
        .collect();
    let px: Vec<String> = pids
        .iter()
        .map(|p| format!("{}:{}", p, opt(l.find_by_pid(Pid(*p)))))
        .collect();
    format!(
        "r={} jobs={} len={} cur={} prev={} async={} find={} pidx={}",
        r,
        jobs.join(","),
        l.len(),
        opt(l.current_job()),
        opt(l.previous_job()),
        l.last_async_pid().0,
        finds.join(","),
        px.join(",")
    )
}

/// The clauses of the property statement on the real table.
fn invariant(l: &JobList) -> Result<(), String> {
    let n = l.len();
    let cur = l.current_job();
    let prev = l.previous_job();
    if n > 0 && cur.is_none() {
        return Err("nonempty-without-current".into());
    }
    if let Some(c) = cur {
        if l.get(c).is_none() {
            return Err("current-dangling".into());
        }
    }
    if n >= 2 && (prev.is_none() || prev == cur) {
        return Err("no-distinct-previous".into());
    }
    if let Some(p) = prev {
        if l.get(p).is_none() {
            return Err("previous-dangling".into());
        }
    }
    let sus: Vec<usize> = l
        .iter()
        .filter(|(_, j)| j.state.is_stopped())
        .map(|(i, _)| i)
        .collect();
    if !sus.is_empty() && !cur.map(|c| sus.contains(&c)).unwrap_or(false) {
        return Err("current-not-suspended".into());
    }
    if sus.len() >= 2 && !prev.map(|p| sus.contains(&p)).unwrap_or(false) {
        return Err("previous-not-suspended".into());
    }
    let mut seen = HashSet::new();
    for (i, j) in l.iter() {
        if !seen.insert(j.pid) {
            return Err("pid-twice".into());
        }
        if l.find_by_pid(j.pid) != Some(i) {
            return Err("pid-index-mismatch".into());
        }
    }
    Ok(())
}

fn stable(before: &[(usize, i32)], l: &JobList) -> bool {
    before.iter().all(|(i, p)| {
        l.get(*i).map(|j| j.pid.0 == *p).unwrap_or(false) || !l.iter().any(|(_, j)| j.pid.0 == *p)
    })
}

/// Runs one history; returns (observation, oracle, visible state key after the last op).
fn run_case(case: &str) -> (String, String, String) {
    let ops: Vec<&str> = case
        .split(';')
        .map(|s| s.trim())
        .filter(|s| !s.is_empty())
        .collect();
    let pids = pids_mentioned(&ops);
    let mut l = JobList::new();
    let mut obs = vec![];
    let mut verdict: Option<String> = None;
    let mut pre = true;
    for (k, op) in ops.iter().enumerate() {
        let w: Vec<&str> = op.split_whitespace().collect();
        let before: Vec<(usize, i32)> = l.iter().map(|(i, j)| (i, j.pid.0)).collect();
        let r: String = match w.as_slice() {
            ["ins", p, st] => {
                let pid = Pid(p.parse().unwrap());
                if let Some(i) = l.find_by_pid(pid) {
                    if l.get(i).map(|j| j.state.is_alive()).unwrap_or(false) {
                        pre = false;
                    }
                }
                let mut j = Job::new(pid);
                j.state = parse_state(st).unwrap();
                l.insert(j).to_string()
            }
            ["upd", p, st] => opt(l.update_status(Pid(p.parse().unwrap()), parse_state(st).unwrap())),
            ["cur", i] => match l.set_current_job(i.parse().unwrap()) {
                Ok(()) => "ok".into(),
                Err(SetCurrentJobError::NoSuchJob) => "nosuch".into(),
                Err(SetCurrentJobError::NotSuspended) => "notsusp".into(),
            },
            ["rm", i] => l
                .remove(i.parse().unwrap())
                .map(|j| j.pid.0.to_string())
                .unwrap_or_else(|| "-".into()),
            ["rmdone", r] => {
                let report = *r != "0";
                let v: Vec<String> = l
                    .extract_if(|_, mut j| {
                        if report {
                            j.state_reported();
                        }
                        !j.state.is_alive()
                    })
                    .map(|(i, _)| i.to_string())
                    .collect();
                v.join(".")
            }
            ["rmchg"] => {
                let v: Vec<String> = l
                    .extract_if(|_, j| j.state_changed && !j.state.is_alive())
                    .map(|(i, _)| i.to_string())
                    .collect();
                v.join(".")
            }
            ["rep"] => {
                for (_, mut j) in l.iter_mut() {
                    j.state_reported();
                }
                "-".into()
            }
            ["exp", i, st] => {
                if let Some(mut j) = l.get_mut(i.parse().unwrap()) {
                    j.expect(if *st == "-" { None } else { parse_state(st) });
                }
                "-".into()
            }
            ["disown"] => {
                l.disown_all();
                "-".into()
            }
            ["async", p] => {
                l.set_last_async_pid(Pid(p.parse().unwrap()));
                "-".into()
            }
            _ => return ("bad-case".into(), "-".into(), String::new()),
        };
        if verdict.is_none() && pre {
            if let Err(e) = invariant(&l) {
                verdict = Some(format!("FAIL:inv@{k}:{e}"));
            } else if !stable(&before, &l) {
                verdict = Some(format!("FAIL:index@{k}"));
            }
        }
        obs.push(observe(&l, &r, &pids));
    }
    let key = obs.last().cloned().unwrap_or_default();
    let key = key.split_once(' ').map(|x| x.1.to_string()).unwrap_or(key);
    let oracle = verdict.unwrap_or_else(|| if pre { "ok".into() } else { "ok-until-pre".into() });
    (obs.join(" | "), oracle, key)
}

fn run_guarded(case: &str) -> (String, String, String) {
    let mut out = (String::new(), String::new(), String::new());
    let o = guarded(|| {
        out = run_case(case);
        out.0.clone()
    });
    if o.starts_with("PANIC") {
        (o.clone(), format!("FAIL:{o}"), String::new())
    } else {
        out
    }
}

const PIDS: [i32; 4] = [101, 102, 103, 104];
const STATES: [&str; 4] = ["R", "S19", "E0", "K9"];

fn alphabet() -> Vec<String> {
    let mut ops = vec![];
    for p in PIDS {
        ops.push(format!("ins {p} R"));
        ops.push(format!("ins {p} S20"));
        for s in STATES {
            ops.push(format!("upd {p} {s}"));
        }
    }
    for i in 0..5 {
        ops.push(format!("cur {i}"));
        ops.push(format!("rm {i}"));
    }
    ops.push("rmdone 0".into());
    ops.push("rmdone 1".into());
    ops.push("rmchg".into());
    ops.push("rep".into());
    ops
}

/// `ins` of a pid whose job is alive violates the stated precondition: keep only some of those.
fn respects_pre(key: &str, op: &str) -> bool {
    let w: Vec<&str> = op.split_whitespace().collect();
    if w[0] != "ins" {
        return true;
    }
    // key contains "jobs=i:pid:state:..." entries
    let jobs = key.split(' ').find_map(|f| f.strip_prefix("jobs=")).unwrap_or("");
    for e in jobs.split(',').filter(|e| !e.is_empty()) {
        let f: Vec<&str> = e.split(':').collect();
        if f[1] == w[1] && (f[2] == "R" || f[2].starts_with('S')) {
            return false;
        }
    }
    true
}

fn main() {
    quiet_panics();
    let o = Opts::from_args();
    let (fixed, only) = o.fixed_cases();
    for c in &fixed {
        let (obs, oracle, _) = run_guarded(c);
        emit(c, &obs, &oracle);
    }
    if only {
        return;
    }
    let depth = if o.thorough() { 6 } else { 4 };
    let alpha = alphabet();
    // breadth-first over histories with deduplication of the visible state
    let mut seen: HashSet<String> = HashSet::new();
    let mut queue: VecDeque<(String, String, usize)> = VecDeque::new();
    queue.push_back((String::new(), String::new(), 0));
    seen.insert(String::new());
    let mut edges = 0usize;
    while let Some((hist, key, d)) = queue.pop_front() {
        if d >= depth {
            continue;
        }
        for op in &alpha {
            if !respects_pre(&key, op) {
                continue;
            }
            let case = if hist.is_empty() { op.clone() } else { format!("{hist}; {op}") };
            let (obs, oracle, nkey) = run_guarded(&case);
            edges += 1;
            if edges % o.shard.1 == o.shard.0 {
                emit(&case, &obs, &oracle);
            }
            if seen.insert(nkey.clone()) {
                queue.push_back((case, nkey, d + 1));
            }
        }
    }
    // random long histories, including ones that break the insert precondition, more pids
    let mut rng = Rng::new(o.seed ^ 0xC12);
    let n = if o.thorough() { 50_000 } else { 3_000 };
    for k in 0..n {
        if k % o.shard.1 != o.shard.0 {
            rng.next();
            continue;
        }
        let mut r = rng.fork();
        let len = 5 + r.below(if o.thorough() { 60 } else { 30 });
        let npids = 2 + r.below(7);
        let honour = !r.chance(1, 5);
        let mut ops: Vec<String> = vec![];
        let mut hist = String::new();
        let mut key = String::new();
        for _ in 0..len {
            let op = loop {
                let p = 101 + r.below(npids);
                let cand = match r.below(12) {
                    0 | 1 | 2 => format!("ins {p} {}", r.pick(&["R", "S20", "S19", "R"])),
                    3 | 4 | 5 | 6 => format!("upd {p} {}", r.pick(&["R", "S19", "S20", "E0", "E3", "K9"])),
                    7 => format!("cur {}", r.below(npids + 1)),
                    8 => format!("rm {}", r.below(npids + 1)),
                    9 => r.pick(&["rmdone 0", "rmdone 1", "rmchg", "rep"]).to_string(),
                    10 => format!("exp {} {}", r.below(npids), r.pick(&["-", "R", "S19", "E0"])),
                    _ => r.pick(&["disown".to_string(), format!("async {p}")]).clone(),
                };
                if !honour || respects_pre(&key, &cand) {
                    break cand;
                }
            };
            ops.push(op.clone());
            hist = ops.join("; ");
            if honour {
                key = run_guarded(&hist).2;
            }
        }
        let (obs, oracle, _) = run_guarded(&hist);
        emit(&hist, &obs, &oracle);
    }
}
