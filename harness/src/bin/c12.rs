//! C12 — job table consistency: histories of job events against the real `JobList`, including the
//! built-ins that work on the table (`jobs`, `bg`, `fg`, `wait`) and the asynchronous command
//! `cmd &` (`yash-semantics/src/command/item.rs`), all run on a `VirtualSystem`.
//!
//! Case line: operations separated by `;` (see /verif/lean/YashModel/Job/Main.lean).
//! Observation: the public view after every operation (for a built-in also
//! `<exit status>:<hex stdout>:<error classes>`).  Oracle: the clauses of the property statement
//! evaluated on the real table after every operation (only while the `insert` precondition — pid
//! fresh or designating a finished job — has been respected), plus what the documentation says
//! about markers, removal by `jobs`, `$!` and the job an operand designates.

use std::cell::RefCell;
use std::collections::{HashSet, VecDeque};
use std::future::Future;
use std::pin::Pin;
use std::rc::Rc;
use std::task::{Context, Waker};
use yash_env::Env;
use yash_env::builtin::{Builtin, Type};
use yash_env::job::id::{FindError, JobId};
use yash_env::job::{Job, JobList, Pid, ProcessResult, ProcessState, SetCurrentJobError};
use yash_env::option::Option::{Interactive, Monitor};
use yash_env::option::State::{Off, On};
use yash_env::semantics::{ExitStatus, Field};
use yash_env::signal::Number as SigNum;
use yash_env::system::Concurrent;
use yash_env::system::r#virtual::{Process, SystemState, VirtualSystem};
use yash_env::trap::RunSignalTrapIfCaught;
use yash_semantics::command::Command as _;
use yash_syntax::source::Location;
use yverif::proto::{Opts, emit, enc_str, guarded, quiet_panics};
use yverif::rng::Rng;
use yverif::shell::{BuiltinFuture, VEnv, VSys, read_file};

fn sig(n: i32) -> SigNum {
    SigNum::from_raw_unchecked(std::num::NonZeroI32::new(n).unwrap())
}

fn parse_state(t: &str) -> Option<ProcessState> {
    let (k, rest) = t.split_at(1);
    Some(match k {
        "R" if rest.is_empty() => ProcessState::Running,
        "S" => ProcessState::stopped(sig(rest.parse().ok()?)),
        "E" => ProcessState::exited(ExitStatus(rest.parse().ok()?)),
        "K" | "C" => ProcessState::Halted(ProcessResult::Signaled {
            signal: sig(rest.parse().ok()?),
            core_dump: k == "C",
        }),
        _ => return None,
    })
}

fn show_state(s: &ProcessState) -> String {
    match s {
        ProcessState::Running => "R".into(),
        ProcessState::Halted(ProcessResult::Stopped(n)) => format!("S{}", n.as_raw()),
        ProcessState::Halted(ProcessResult::Exited(e)) => format!("E{}", e.0),
        ProcessState::Halted(ProcessResult::Signaled { signal, core_dump }) => {
            format!("{}{}", if *core_dump { "C" } else { "K" }, signal.as_raw())
        }
    }
}

/// the closure handed to `remove_if` / `extract_if`: `done`, `chg`, `all`, `none`, `susp`, `run`, `alive`,
/// `unowned`, `m<bit mask over indices>`, `p<pid>`
#[derive(Clone, Copy, Debug, PartialEq)]
enum RmPred {
    Done,
    Chg,
    All,
    Nothing,
    Susp,
    Run,
    Alive,
    Unowned,
    Mask(u64),
    PidIs(i32),
}

fn parse_pred(t: &str) -> Option<RmPred> {
    Some(match t {
        "done" => RmPred::Done,
        "chg" => RmPred::Chg,
        "all" => RmPred::All,
        "none" => RmPred::Nothing,
        "susp" => RmPred::Susp,
        "run" => RmPred::Run,
        "alive" => RmPred::Alive,
        "unowned" => RmPred::Unowned,
        _ => match t.split_at(1) {
            ("m", r) => RmPred::Mask(r.parse().ok()?),
            ("p", r) => RmPred::PidIs(r.parse().ok()?),
            _ => return None,
        },
    })
}

impl RmPred {
    fn eval(self, i: usize, j: &Job) -> bool {
        match self {
            RmPred::Done => !j.state.is_alive(),
            RmPred::Chg => j.state_changed && !j.state.is_alive(),
            RmPred::All => true,
            RmPred::Nothing => false,
            RmPred::Susp => j.state.is_stopped(),
            RmPred::Run => j.state == ProcessState::Running,
            RmPred::Alive => j.state.is_alive(),
            RmPred::Unowned => !j.is_owned,
            RmPred::Mask(m) => i < 64 && (m >> i) & 1 == 1,
            RmPred::PidIs(p) => j.pid.0 == p,
        }
    }
}

/// What the documentation of `remove_if` / `extract_if` / `remove` promises about one call, evaluated on
/// the real table (independent of the Lean model).  `take`: the iterator is advanced that many times and
/// then dropped ("the remaining jobs are retained in the list").  `returned`: the indices the iterator
/// yielded (`None` for `remove_if`, which returns nothing).
fn removal_check(
    before: &JobList,
    after: &JobList,
    pred: RmPred,
    report: bool,
    take: Option<usize>,
    returned: Option<&[usize]>,
    first: Option<usize>,
) -> Option<String> {
    // the jobs the call decides about, in the order of the indices ("Jobs are iterated in the order of indices")
    let mut removed: Vec<usize> = vec![];
    let mut visited: Vec<usize> = vec![];
    for (i, j) in before.iter() {
        if take.map(|n| removed.len() >= n).unwrap_or(false) {
            break;
        }
        visited.push(i);
        // `first`: a closure that counts selects only the first so many jobs its predicate accepts
        if pred.eval(i, j) && first.map(|k| removed.len() < k).unwrap_or(true) {
            removed.push(i);
        }
    }
    for (i, j) in before.iter() {
        if removed.contains(&i) {
            if after.get(i).is_some() {
                return Some(format!("rmif-table:{i}-kept"));
            }
        } else {
            // "You can reset the `state_changed` flag of a job regardless of whether you choose to remove it or not."
            let mut want = j.clone();
            if report && visited.contains(&i) {
                want.state_changed = false;
            }
            if after.get(i) != Some(&want) {
                return Some(format!("rmif-table:{i}-lost"));
            }
        }
    }
    if after.iter().any(|(i, _)| before.get(i).is_none()) {
        return Some("rmif-new-job".into());
    }
    if let Some(r) = returned {
        if r != removed.as_slice() {
            return Some("rmif-result".into());
        }
    }
    // `remove`: "If the removed job is the current job, the previous job becomes the current job and another job
    // is selected for the new previous job, if any.  If the removed job is the previous job, another job is
    // selected for the new previous job, if any."  Hence: a current job that stays is still the current job; if it
    // goes and the previous job stays, that one is the current job; if both stay, the previous job is unchanged.
    let (c, p) = (before.current_job(), before.previous_job());
    if let Some(c) = c {
        if !removed.contains(&c) {
            if after.current_job() != Some(c) {
                return Some("rmif-current".into());
            }
            if let Some(p) = p {
                if !removed.contains(&p) && after.previous_job() != Some(p) {
                    return Some("rmif-previous".into());
                }
            }
        } else if let Some(p) = p {
            if !removed.contains(&p) && after.current_job() != Some(p) {
                return Some("rmif-current".into());
            }
        }
    }
    if after.last_async_pid() != before.last_async_pid() {
        return Some("rmif-async".into());
    }
    None
}

fn opt(n: Option<usize>) -> String {
    n.map(|n| n.to_string()).unwrap_or_else(|| "-".into())
}

/// `101:E0,102:S120` (`-` = no event)
fn parse_evs(t: &str) -> Option<Vec<(i32, ProcessState)>> {
    if t == "-" {
        return Some(vec![]);
    }
    t.split(',')
        .map(|e| {
            let (p, st) = e.split_once(':')?;
            Some((p.parse().ok()?, parse_state(st)?))
        })
        .collect()
}

fn pids_mentioned(ops: &[&str]) -> Vec<i32> {
    let mut v: Vec<i32> = vec![];
    for op in ops {
        let w: Vec<&str> = op.split_whitespace().collect();
        if matches!(w.first(), Some(&"sync") | Some(&"waitb")) {
            for (p, _) in w.get(1).and_then(|e| parse_evs(e)).unwrap_or_default() {
                if !v.contains(&p) {
                    v.push(p);
                }
            }
            continue;
        }
        if matches!(
            w.first(),
            Some(&"ins") | Some(&"upd") | Some(&"async") | Some(&"job") | Some(&"amp") | Some(&"hjs") | Some(&"add") | Some(&"ajs")
        ) {
            if let Some(p) = w.get(1).and_then(|p| p.parse().ok()) {
                if !v.contains(&p) {
                    v.push(p);
                }
            }
        }
    }
    v
}

fn observe(l: &JobList, r: &str, pids: &[i32]) -> String {
    let jobs: Vec<String> = l
        .iter()
        .map(|(i, j)| {
            format!(
                "{}:{}:{}:{}:{}:{}:{}:{}",
                i,
                j.pid.0,
                show_state(&j.state),
                j.state_changed as u8,
                j.is_owned as u8,
                j.expected_state
                    .map(|s| show_state(&s))
                    .unwrap_or_else(|| "-".into()),
                j.job_controlled as u8,
                enc_str(&j.name)
            )
        })
        .collect();
    let ids = [
        JobId::default(),
        JobId::PreviousJob,
        JobId::JobNumber(1.try_into().unwrap()),
        JobId::JobNumber(2.try_into().unwrap()),
        JobId::JobNumber(3.try_into().unwrap()),
        JobId::JobNumber(4.try_into().unwrap()),
        JobId::JobNumber(5.try_into().unwrap()),
        JobId::NamePrefix("a"),
        JobId::NameSubstring("b"),
    ];
    let finds: Vec<String> = ids
        .iter()
        .map(|id| match id.find(l) {
            Ok(i) => i.to_string(),
            Err(FindError::NotFound) => "nf".into(),
            Err(FindError::Ambiguous) => "amb".into(),
        })
        .collect();
    let px: Vec<String> = pids
        .iter()
        .map(|p| format!("{}:{}", p, opt(l.find_by_pid(Pid(*p)))))
        .collect();
    format!(
        "r={} jobs={} len={} cur={} prev={} async={} find={} pidx={}",
        r,
        jobs.join(","),
        l.len(),
        opt(l.current_job()),
        opt(l.previous_job()),
        l.last_async_pid().0,
        finds.join(","),
        px.join(",")
    )
}

/// The clauses of the property statement on the real table.
fn invariant(l: &JobList) -> Result<(), String> {
    let n = l.len();
    let cur = l.current_job();
    let prev = l.previous_job();
    if n > 0 && cur.is_none() {
        return Err("nonempty-without-current".into());
    }
    if let Some(c) = cur {
        if l.get(c).is_none() {
            return Err("current-dangling".into());
        }
    }
    if n >= 2 && (prev.is_none() || prev == cur) {
        return Err("no-distinct-previous".into());
    }
    if let Some(p) = prev {
        if l.get(p).is_none() {
            return Err("previous-dangling".into());
        }
    }
    let sus: Vec<usize> = l
        .iter()
        .filter(|(_, j)| j.state.is_stopped())
        .map(|(i, _)| i)
        .collect();
    if !sus.is_empty() && !cur.map(|c| sus.contains(&c)).unwrap_or(false) {
        return Err("current-not-suspended".into());
    }
    if sus.len() >= 2 && !prev.map(|p| sus.contains(&p)).unwrap_or(false) {
        return Err("previous-not-suspended".into());
    }
    // `ExitStatus::try_from(ProcessState)`, `ProcessState::from(ProcessResult)`
    for (_, j) in l.iter() {
        let expect = match j.state {
            ProcessState::Running => None,
            ProcessState::Halted(ProcessResult::Exited(e)) => Some(e.0),
            ProcessState::Halted(ProcessResult::Stopped(n)) => Some(n.as_raw() + 384),
            ProcessState::Halted(ProcessResult::Signaled { signal, .. }) => Some(signal.as_raw() + 384),
        };
        if ExitStatus::try_from(j.state).ok().map(|e| e.0) != expect {
            return Err("exit-status-of-state".into());
        }
        if let ProcessState::Halted(r) = j.state {
            if ProcessState::from(r) != j.state || !ProcessState::from(r).is_alive() != !r.is_stopped() {
                return Err("state-of-result".into());
            }
        }
    }
    let mut seen = HashSet::new();
    for (i, j) in l.iter() {
        if !seen.insert(j.pid) {
            return Err("pid-twice".into());
        }
        if l.find_by_pid(j.pid) != Some(i) {
            return Err("pid-index-mismatch".into());
        }
    }
    Ok(())
}

fn stable(before: &[(usize, i32)], l: &JobList) -> bool {
    before.iter().all(|(i, p)| {
        l.get(*i).map(|j| j.pid.0 == *p).unwrap_or(false) || !l.iter().any(|(_, j)| j.pid.0 == *p)
    })
}

// ------------------------------------------------------------------------------------------
// the built-ins on a virtual system

/// names that `cmd &` can run: registered as built-ins that do nothing
const NAMES: [&str; 5] = ["a", "ab", "abc", "b", "ba"];

fn noop_main(_env: &mut VEnv, _args: Vec<Field>) -> BuiltinFuture<'_> {
    Box::pin(async move { ExitStatus::SUCCESS.into() })
}

fn jobs_builtin_main(env: &mut VEnv, args: Vec<Field>) -> BuiltinFuture<'_> {
    Box::pin(yash_builtin::jobs::main(env, args))
}

fn wait_builtin_main(env: &mut VEnv, args: Vec<Field>) -> BuiltinFuture<'_> {
    Box::pin(yash_builtin::wait::main(env, args))
}

/// an argument that goes through the shell's parser unquoted
fn safe_arg(a: &str) -> bool {
    !a.is_empty() && a.chars().all(|c| c.is_ascii_alphanumeric() || "%-+".contains(c))
}

/// An environment on a `VirtualSystem` with an executor for child processes.  The job list of
/// the case is moved into `env.jobs` for the duration of one built-in.
struct World {
    env: VEnv,
    system: VSys,
    state: Rc<RefCell<SystemState>>,
    executor: yash_executor::Executor<'static>,
    shell_pid: Pid,
    out_len: usize,
    err_len: usize,
}

/// What one built-in left behind.
struct Ran {
    status: i32,
    divert: String,
    stdout: String,
    stderr: String,
    stuck: bool,
}

impl World {
    fn new() -> World {
        let system = VirtualSystem::new();
        let shell_pid = system.process_id;
        let state = Rc::clone(&system.state);
        let executor = yash_executor::Executor::new();
        state.borrow_mut().executor = Some(Rc::new(executor.spawner()));
        let mut env = Env::with_system(Rc::new(Concurrent::new(system)));
        let system = Rc::clone(&env.system);
        env.any.insert(Box::new(RunSignalTrapIfCaught::<VSys>(|_, _| {
            Box::pin(std::future::ready(None))
        })));
        for n in NAMES {
            env.builtins.insert(n, Builtin::new(Type::Mandatory, noop_main));
        }
        env.builtins.insert("jobs", Builtin::new(Type::Mandatory, jobs_builtin_main));
        env.builtins.insert("wait", Builtin::new(Type::Mandatory, wait_builtin_main));
        // the standard input of an asynchronous command without job control
        yverif::shell::write_file(&state, "/dev/null", b"");
        World { env, system, state, executor, shell_pid, out_len: 0, err_len: 0 }
    }

    /// Runs `f(env)` as the shell process: the future is polled by hand, the executor runs the
    /// child processes in between, `hook` plays the outside world whenever the shell is blocked.
    fn drive<T>(
        &mut self,
        hook: &mut dyn FnMut(&Rc<RefCell<SystemState>>),
        f: impl for<'e> FnOnce(&'e mut VEnv) -> Pin<Box<dyn Future<Output = T> + 'e>>,
    ) -> Option<T> {
        let mut result = None;
        {
            let slot = &mut result;
            let env = &mut self.env;
            let task = async move {
                *slot = Some(f(env).await);
            };
            let mut fut = std::pin::pin!(self.system.run_virtual(task));
            let mut cx = Context::from_waker(Waker::noop());
            for _ in 0..200 {
                if fut.as_mut().poll(&mut cx).is_ready() {
                    break;
                }
                self.executor.run_until_stalled();
                hook(&self.state);
            }
        }
        // let children finish
        for _ in 0..50 {
            if self.executor.run_until_stalled() == 0 {
                break;
            }
        }
        result
    }

    fn take_output(&mut self) -> (String, String) {
        let out = read_file(&self.state, "/dev/stdout").unwrap_or_default();
        let err = read_file(&self.state, "/dev/stderr").unwrap_or_default();
        let o = String::from_utf8_lossy(&out[self.out_len.min(out.len())..]).into_owned();
        let e = String::from_utf8_lossy(&err[self.err_len.min(err.len())..]).into_owned();
        self.out_len = out.len();
        self.err_len = err.len();
        (o, e)
    }

    /// removes every process but the shell
    fn clear_processes(&mut self) {
        let shell = self.shell_pid;
        self.state.borrow_mut().processes.retain(|pid, _| *pid == shell);
    }

    fn add_process(&mut self, pid: Pid, ppid: Pid, st: ProcessState) {
        let mut p = Process::with_parent_and_group(ppid, pid);
        let _ = p.set_state(st);
        let _ = p.take_state();
        self.state.borrow_mut().processes.insert(pid, p);
    }

    fn run_builtin(
        &mut self,
        hook: &mut dyn FnMut(&Rc<RefCell<SystemState>>),
        f: impl for<'e> FnOnce(&'e mut VEnv) -> Pin<Box<dyn Future<Output = yash_env::builtin::Result> + 'e>>,
    ) -> Ran {
        // `$?` is not part of the job table: every command of a history starts with `$?` = 0 (the interactive
        // `fg` hands the previous `$?` back as its own exit status next to `Divert::Interrupt`, so a status left by
        // an earlier `( jobs %9 )` would otherwise show in the next `fg`)
        self.env.exit_status = ExitStatus::SUCCESS;
        let r = self.drive(hook, f);
        let (stdout, stderr) = self.take_output();
        self.clear_processes();
        match r {
            Some(r) => Ran {
                status: r.exit_status().0,
                divert: match r.divert() {
                    std::ops::ControlFlow::Continue(()) => String::new(),
                    std::ops::ControlFlow::Break(yash_env::semantics::Divert::Interrupt(Some(es))) => {
                        format!("!intr{}", es.0)
                    }
                    std::ops::ControlFlow::Break(_) => "!divert".into(),
                },
                stdout,
                stderr,
                stuck: false,
            },
            None => Ran { status: -1, divert: String::new(), stdout, stderr, stuck: true },
        }
    }
}

/// error classes of the messages on standard error, in order of appearance
fn err_classes(stderr: &str) -> Vec<String> {
    const PATTERNS: [(&str, &str); 16] = [
        ("error printing results", "stdout"),
        ("cannot start a subshell", "nofork"),
        ("job not found", "nf"),
        ("matches more than one job", "amb"),
        ("ambiguous job\n", "amb"),
        ("a job ID must start with", "badid"),
        ("not controlled by the current shell", "unowned"),
        ("not job-controlled", "unmon"),
        ("job control is disabled", "nomon"),
        ("there is no job", "nojob"),
        ("no job to wait for", "nowait"),
        ("too many operands", "many"),
        ("system error", "sys"),
        ("conflicting options", "conflict"),
        ("unknown option", "unkopt"),
        ("invalid job specification", "badspec"),
    ];
    // `FindError::Ambiguous` prints "ambiguous job" (bg, fg, jobs); the title of `wait`'s report
    // is "ambiguous job ID", which is not counted (its labels are)
    let text = stderr.replace("ambiguous job ID", "AMBIGUOUS-ID").replace("ambiguous job", "ambiguous job\n");
    let mut found: Vec<(usize, &str)> = vec![];
    for (pat, class) in PATTERNS {
        let mut from = 0;
        while let Some(i) = text[from..].find(pat) {
            found.push((from + i, class));
            from += i + pat.len();
        }
    }
    found.sort();
    let mut v: Vec<String> = found.into_iter().map(|(_, c)| c.to_string()).collect();
    if v.is_empty() && !stderr.trim().is_empty() {
        // `[n] pid` printed by an interactive shell for `cmd &`
        let t = stderr.trim();
        if let Some(rest) = t.strip_prefix('[') {
            if let Some((n, pid)) = rest.split_once("] ") {
                if n.parse::<usize>().is_ok() && pid.parse::<i32>().is_ok() {
                    return vec![format!("async:{n}:{pid}")];
                }
            }
        }
        v.push("other".into());
    }
    v
}

fn show_ran(r: &Ran) -> String {
    if r.stuck {
        return "STUCK".into();
    }
    let errs = err_classes(&r.stderr);
    format!(
        "{}{}:{}:{}",
        r.status,
        r.divert,
        enc_str(&r.stdout),
        if errs.is_empty() { "-".to_string() } else { errs.join("+") }
    )
}

/// an argument token of a built-in: `''` is the empty string, `\s` a space; long options are not modelled
fn parse_args(ws: &[&str]) -> Option<Vec<Field>> {
    let mut v = vec![];
    for w in ws {
        if *w == "''" {
            v.push(Field::dummy(""));
        } else if w.starts_with("--") && w.len() > 2 {
            return None;
        } else {
            v.push(Field::dummy(w.replace("\\s", " ")));
        }
    }
    Some(v)
}

fn parse_bool(t: &str) -> Option<bool> {
    match t {
        "1" => Some(true),
        "0" => Some(false),
        _ => None,
    }
}

/// `(number, marker)` of every line of a `jobs` report in the default or `-l` format
fn report_heads(out: &str) -> Vec<(usize, char)> {
    out.lines()
        .filter_map(|l| {
            let rest = l.strip_prefix('[')?;
            let (n, tail) = rest.split_once("] ")?;
            Some((n.parse().ok()?, tail.chars().next()?))
        })
        .collect()
}

/// snapshot used by the documentation checks: (index, pid, alive, state text, name)
type Snap = Vec<(usize, i32, bool, String, String)>;

fn snapshot(l: &JobList) -> Snap {
    l.iter()
        .map(|(i, j)| (i, j.pid.0, j.state.is_alive(), show_state(&j.state), j.name.clone()))
        .collect()
}

/// The job the documentation (docs/src/interactive/job_control.md, "Job IDs") says an operand
/// designates: `%`, `%%`, `%+` the current job; `%-` the previous job; `%n` (decimal digits, n ≥ 1) job
/// number n; `%?foo` the job whose command string contains `foo`; `%foo` … starts with `foo`.
/// Outer `None`: not a job ID.  Inner `None`: no such job, or not exactly one.
fn doc_simple(op: &str, cur: Option<usize>, prev: Option<usize>, snap: &Snap) -> Option<Option<usize>> {
    let t = op.strip_prefix('%')?;
    let unique = |pred: &dyn Fn(&str) -> bool| -> Option<usize> {
        let v: Vec<usize> = snap.iter().filter(|e| pred(&e.4)).map(|e| e.0).collect();
        if v.len() == 1 { Some(v[0]) } else { None }
    };
    Some(match t {
        "" | "%" | "+" => cur,
        "-" => prev,
        _ => {
            if let Some(sub) = t.strip_prefix('?') {
                unique(&|n| n.contains(sub))
            } else if t.chars().all(|c| c.is_ascii_digit()) && t.chars().any(|c| c != '0') {
                // a number too large for any table designates no job
                match t.parse::<u128>() {
                    Ok(n) => snap.iter().find(|e| (e.0 as u128) + 1 == n).map(|e| e.0),
                    Err(_) => None,
                }
            } else {
                unique(&|n| n.starts_with(t))
            }
        }
    })
}

/// message of the KNOWN FINDING (KNOWN_FINDINGS.txt): the clause "a job that is suspended becomes the
/// current job" fails on the `insert` path when the current job is suspended
const KNOWN_INSERT: &str = "doc-suspended-becomes-current@insert";
/// check.py matches known findings on the case text only: a case whose only failure is the known
/// finding is emitted with this suffix (ignored by the harness and by the model driver)
const KNOWN_MARK: &str = "; !kf-insert-suspended";

/// `emit`, with the known-finding mark on the case text iff the oracle's verdict is the known finding
fn emit_case(case: &str, obs: &str, oracle: &str) {
    let is_known = oracle.starts_with("FAIL:doc-suspended-becomes-current@insert@");
    let bare = case.strip_suffix(KNOWN_MARK).unwrap_or(case);
    if is_known {
        emit(&format!("{bare}{KNOWN_MARK}"), obs, oracle);
    } else {
        emit(bare, obs, oracle);
    }
}

/// FNV-1a (64 bit)
fn fnv(s: &str) -> u64 {
    s.bytes().fold(14695981039346656037u64, |h, b| (h ^ b as u64).wrapping_mul(1099511628211))
}

/// hash of the earlier steps, how many of them had a previous job, the last step in full
fn compact_obs(obs: &[String]) -> String {
    let Some((last, init)) = obs.split_last() else {
        return String::new();
    };
    let with_prev = init.iter().filter(|o| !o.contains(" prev=- ")).count();
    format!("h={}:{} | {}", fnv(&init.join(" | ")), with_prev, last)
}

/// Runs one history; returns (observation, oracle, visible state key after the last op).
fn run_case(case: &str) -> (String, String, String) {
    // `@ ` marks a case of the breadth-first families, whose every prefix is a case of its own:
    // the observation is the hash of the earlier steps + the last step
    let (compact, case) = match case.strip_prefix("@ ") {
        Some(rest) => (true, rest),
        None => (false, case),
    };
    let case = case.strip_suffix(KNOWN_MARK).unwrap_or(case);
    let ops: Vec<&str> = case
        .split(';')
        .map(|s| s.trim())
        .filter(|s| !s.is_empty())
        .collect();
    let pids = pids_mentioned(&ops);
    let mut l = JobList::new();
    let mut world: Option<World> = None;
    let mut obs = vec![];
    // `verdict`: the first failure other than the known finding; `known`: the first occurrence of the
    // known finding (reported only if nothing else fails, so that it never hides another failure)
    let mut verdict: Option<String> = None;
    let mut known: Option<String> = None;
    let mut pre = true;
    for (k, op) in ops.iter().enumerate() {
        let w: Vec<&str> = op.split_whitespace().collect();
        let before: Vec<(usize, i32)> = l.iter().map(|(i, j)| (i, j.pid.0)).collect();
        // "When a job is suspended, it becomes the current job, and the previous current job becomes the
        // previous job": the pid of the job that becomes suspended in this step, and whether it is entered
        // into the list already suspended (`insert`, `handle_job_status`) or goes from not suspended to
        // suspended in the list (`update_status`)
        let became: Option<(i32, bool)> = match w.as_slice() {
            ["ins", p, st] | ["add", p, st] | ["job", p, st, _, _] | ["hjs", p, st, _, _] | ["ajs", p, st, _, _]
                if st.starts_with('S') =>
            {
                p.parse().ok().map(|p| (p, true))
            }
            ["upd", p, st] if st.starts_with('S') => p.parse().ok().and_then(|p: i32| {
                let j = l.find_by_pid(Pid(p)).and_then(|i| l.get(i))?;
                if j.state.is_stopped() { None } else { Some((p, false)) }
            }),
            _ => None,
        };
        let cur_before = l.current_job();
        // what the documentation promises about this step, evaluated on the real table
        let mut doc: Option<String> = None;
        let r: String = match w.as_slice() {
            ["job", p, st, jc, name] => {
                let pid = Pid(p.parse().unwrap());
                if let Some(i) = l.find_by_pid(pid) {
                    if l.get(i).map(|j| j.state.is_alive()).unwrap_or(false) {
                        pre = false;
                    }
                }
                let (Some(state), Some(jc)) = (parse_state(st), parse_bool(jc)) else {
                    return ("bad-case".into(), "-".into(), String::new());
                };
                let mut j = Job::new(pid);
                j.state = state;
                j.job_controlled = jc;
                j.name = if *name == "-" { String::new() } else { name.to_string() };
                l.insert(j).to_string()
            }
            ["jobs" | "jobsx", args @ ..] => {
                let Some(fields) = parse_args(args) else {
                    return ("bad-case".into(), "-".into(), String::new());
                };
                let wd = world.get_or_insert_with(World::new);
                let (cur, prev, snap) = (l.current_job(), l.previous_job(), snapshot(&l));
                // the report of all jobs, built with the public `Accumulator` of job/fmt.rs
                let expected_all = if args.is_empty() || *args == ["-l"] {
                    let mut acc = yash_env::job::fmt::Accumulator::new();
                    acc.current_job_index = cur;
                    acc.previous_job_index = prev;
                    acc.show_pid = !args.is_empty();
                    for (i, j) in l.iter() {
                        acc.add(i, j, &wd.env.system);
                    }
                    Some(acc.print)
                } else {
                    None
                };
                wd.env.jobs = std::mem::take(&mut l);
                let closed = w[0] == "jobsx";
                let saved = if closed {
                    let shell = wd.shell_pid;
                    wd.state.borrow_mut().processes.get_mut(&shell).and_then(|p| p.close_fd(yash_env::io::Fd::STDOUT))
                } else {
                    None
                };
                let ran = wd.run_builtin(&mut |_| (), |env| Box::pin(yash_builtin::jobs::main(env, fields)));
                if let Some(body) = saved {
                    let shell = wd.shell_pid;
                    if let Some(p) = wd.state.borrow_mut().processes.get_mut(&shell) {
                        let _ = p.set_fd(yash_env::io::Fd::STDOUT, body);
                    }
                }
                if let Some(e) = expected_all {
                    if ran.status == 0 && !closed && e != ran.stdout {
                        doc = Some("accumulator-differs".into());
                    }
                }
                l = std::mem::take(&mut wd.env.jobs);
                if ran.status == 0 && !ran.stuck {
                    let pgid_only = !ran.stdout.is_empty() && !ran.stdout.starts_with('[');
                    let reported: Vec<usize> = if pgid_only {
                        ran.stdout
                            .lines()
                            .filter_map(|t| t.trim().parse::<i32>().ok())
                            .filter_map(|p| snap.iter().find(|e| e.1 == p).map(|e| e.0))
                            .collect()
                    } else {
                        for (n, m) in report_heads(&ran.stdout) {
                            let i = n.wrapping_sub(1);
                            if (m == '+') != (cur == Some(i)) || (m == '-') != (prev == Some(i)) || !"+- ".contains(m) {
                                doc = Some(format!("marker:[{n}]{m}"));
                            }
                        }
                        report_heads(&ran.stdout).iter().map(|(n, _)| n.wrapping_sub(1)).collect()
                    };
                    for (i, pid, alive, st, _) in &snap {
                        let now = l.get(*i);
                        if reported.contains(i) && !alive {
                            if now.is_some() {
                                doc = Some(format!("jobs-removal:{i}-kept"));
                            }
                        } else if !now.map(|j| j.pid.0 == *pid && show_state(&j.state) == *st).unwrap_or(false) {
                            doc = Some(format!("jobs-removal:{i}-lost"));
                        }
                    }
                }
                show_ran(&ran)
            }
            ["bg", m, args @ ..] => {
                let (Some(fields), Some(m)) = (parse_args(args), parse_bool(m)) else {
                    return ("bad-case".into(), "-".into(), String::new());
                };
                let wd = world.get_or_insert_with(World::new);
                let (cur, prev, snap) = (l.current_job(), l.previous_job(), snapshot(&l));
                // the process group of every job that is alive exists
                for (_, pid, alive, _, _) in &snap {
                    if *alive {
                        let st = l.get(l.find_by_pid(Pid(*pid)).unwrap()).unwrap().state;
                        wd.add_process(Pid(*pid), Pid(1), st);
                    }
                }
                wd.env.options.set(Monitor, if m { On } else { Off });
                wd.env.jobs = std::mem::take(&mut l);
                let ran = wd.run_builtin(&mut |_| (), |env| Box::pin(yash_builtin::bg::main(env, fields)));
                l = std::mem::take(&mut wd.env.jobs);
                // `bg` removes nothing and records no state change (only `expected_state`, `$!`, current job)
                for (i, pid, _, st, _) in &snap {
                    if !l.get(*i).map(|j| j.pid.0 == *pid && show_state(&j.state) == *st).unwrap_or(false) {
                        doc = Some(format!("bg-removal:{i}"));
                    }
                }
                if l.len() != snap.len() {
                    doc = Some("bg-new-job".into());
                }
                if ran.status == 0 && !ran.stuck {
                    // "The (last) resumed job's process ID is set to the `!` special parameter."
                    let operands: Vec<&str> = args.iter().copied().filter(|a| *a != "--").collect();
                    // (with several operands an earlier one changes what `%+`/`%-` mean for a later one)
                    let target = match operands.as_slice() {
                        [] => Some(cur),
                        [op] => doc_simple(op, cur, prev, &snap),
                        _ => None,
                    };
                    if let Some(t) = target {
                        let pid = t.and_then(|i| snap.iter().find(|e| e.0 == i)).map(|e| e.1);
                        if pid != Some(l.last_async_pid().0) {
                            doc = Some("bg-async".into());
                        }
                    }
                }
                show_ran(&ran)
            }
            ["fg", m, out, args @ ..] => {
                // `m` = monitor + 2*(a terminal /dev/tty exists) + 4*(the shell is interactive)
                let (Some(fields), Ok(flags), Some(outcome)) = (parse_args(args), m.parse::<u8>(), parse_state(out)) else {
                    return ("bad-case".into(), "-".into(), String::new());
                };
                if outcome == ProcessState::Running || flags > 7 {
                    return ("bad-case".into(), "-".into(), String::new());
                }
                let (m, tty, inter) = (flags & 1 != 0, flags & 2 != 0, flags & 4 != 0);
                let wd = world.get_or_insert_with(World::new);
                let (cur0, prev0, snap0) = (l.current_job(), l.previous_job(), snapshot(&l));
                let before_list = l.clone();
                // the job the built-in is going to resume, found with the real job-ID code; only
                // that job gets a process, a child of the shell in the state the table records
                let target: Option<usize> = match args.iter().copied().filter(|a| *a != "--").collect::<Vec<_>>().as_slice() {
                    [] => l.current_job(),
                    [op] => yash_env::job::id::parse(op).ok().and_then(|id| id.find(&l).ok()),
                    _ => None,
                };
                let mut target_pid = None;
                if let Some(j) = target.and_then(|i| l.get(i)) {
                    if j.state.is_alive() {
                        wd.add_process(j.pid, wd.shell_pid, j.state);
                        target_pid = Some(j.pid);
                    }
                }
                let final_state = target.and_then(|i| l.get(i)).map(|j| if j.state.is_alive() { outcome } else { j.state });
                wd.env.options.set(Monitor, if m { On } else { Off });
                wd.env.options.set(Interactive, if inter { On } else { Off });
                if tty {
                    yash_env::test_helper::stub_tty(&wd.state);
                }
                wd.env.jobs = std::mem::take(&mut l);
                let shell = wd.shell_pid;
                let mut fired = false;
                let mut hook = |state: &Rc<RefCell<SystemState>>| {
                    // the resumed process halts in state `outcome` once the shell has seen it running
                    let Some(pid) = target_pid else { return };
                    if fired {
                        return;
                    }
                    let mut st = state.borrow_mut();
                    let Some(p) = st.processes.get_mut(&pid) else { return };
                    if p.state() == ProcessState::Running && !p.state_has_changed() {
                        let _ = p.set_state(outcome);
                        fired = true;
                        if let Some(sh) = st.processes.get_mut(&shell) {
                            let _ = sh.raise_signal(yash_env::system::r#virtual::SIGCHLD);
                        }
                    }
                };
                let ran = wd.run_builtin(&mut hook, |env| Box::pin(yash_builtin::fg::main(env, fields)));
                wd.env.options.set(Interactive, Off);
                l = std::mem::take(&mut wd.env.jobs);
                if !ran.stuck && ran.stderr.is_empty() {
                    // "If the resumed job finishes, it is removed from the job list.  If the job gets
                    // suspended again, it is set as the current job."
                    // the job resumed is the one the documentation designates
                    let operands: Vec<&str> = args.iter().copied().filter(|a| *a != "--").collect();
                    let doc_target = match operands.as_slice() {
                        [] => Some(cur0),
                        [op] => doc_simple(op, cur0, prev0, &snap0),
                        _ => None,
                    };
                    match (target, final_state) {
                        (Some(i), _) if doc_target.is_some() && doc_target != Some(Some(i)) => {
                            doc = Some("fg-designation".into());
                        }
                        (Some(i), Some(f)) => {
                            if f.is_stopped() {
                                if l.current_job() != Some(i) {
                                    doc = Some("fg-current".into());
                                }
                            } else if l.get(i).is_some() {
                                doc = Some("fg-removal".into());
                            }
                        }
                        _ => doc = Some("fg-designation".into()),
                    }
                }
                // `fg` may touch only the job it resumes, and may remove it only if it is no longer alive
                // ("If the resumed job finishes, it is removed from the job list"; a job that finished in
                // the background stays in the list until `jobs` or `wait` retrieves its status)
                if !ran.stuck && doc.is_none() {
                    let touched = if ran.stderr.is_empty() { target } else { None };
                    for (i, j) in before_list.iter() {
                        if Some(i) == touched {
                            if l.get(i).is_none() && final_state.map(|f| f.is_alive()).unwrap_or(true) {
                                doc = Some("fg-removed-live-job".into());
                            }
                        } else if l.get(i) != Some(j) {
                            doc = Some(format!("fg-others:{i}"));
                        }
                    }
                    if l.iter().any(|(i, _)| before_list.get(i).is_none()) {
                        doc = Some("fg-new-job".into());
                    }
                }
                show_ran(&ran)
            }
            ["hjs", p, res, i, name] => {
                let (Ok(pid), Some(state), Some(inter)) = (p.parse::<i32>(), parse_state(res), parse_bool(i)) else {
                    return ("bad-case".into(), "-".into(), String::new());
                };
                let ProcessState::Halted(result) = state else {
                    return ("bad-case".into(), "-".into(), String::new());
                };
                if result.is_stopped() {
                    if let Some(i) = l.find_by_pid(Pid(pid)) {
                        if l.get(i).map(|j| j.state.is_alive()).unwrap_or(false) {
                            pre = false;
                        }
                    }
                }
                let name = if *name == "-" { String::new() } else { name.to_string() };
                let wd = world.get_or_insert_with(World::new);
                wd.env.options.set(Interactive, if inter { On } else { Off });
                wd.env.jobs = std::mem::take(&mut l);
                let name2 = name.clone();
                let r = yash_env::job::handle_job_status(&mut wd.env, Pid(pid), result, || name2);
                wd.env.options.set(Interactive, Off);
                l = std::mem::take(&mut wd.env.jobs);
                // a foreground job that was suspended is in the list, job-controlled, under its name
                if result.is_stopped() {
                    let ok = l
                        .find_by_pid(Pid(pid))
                        .and_then(|i| l.get(i))
                        .map(|j| j.name == name && j.job_controlled && j.state == state)
                        .unwrap_or(false);
                    if !ok {
                        doc = Some("hjs-job".into());
                    }
                }
                match r {
                    std::ops::ControlFlow::Continue(es) => format!("cont:{}", es.0),
                    std::ops::ControlFlow::Break(yash_env::semantics::Divert::Interrupt(Some(es))) => {
                        format!("intr:{}", es.0)
                    }
                    std::ops::ControlFlow::Break(_) => "break".into(),
                }
            }
            ["replast"] => {
                if let Some((_, mut j)) = l.iter_mut().next_back() {
                    j.state_reported();
                }
                "-".into()
            }
            ["ampfail"] => {
                let wd = world.get_or_insert_with(World::new);
                // without an executor `run_in_child_process` fails (ENOSYS): the subshell cannot start
                let saved = wd.state.borrow_mut().executor.take();
                wd.env.jobs = std::mem::take(&mut l);
                let (before_len, before_async) = (wd.env.jobs.len(), wd.env.jobs.last_async_pid());
                let item = yash_syntax::syntax::Item {
                    and_or: Rc::new("a".parse().unwrap()),
                    async_flag: Some(Location::dummy("")),
                };
                let ran = wd.run_builtin(&mut |_| (), |env| {
                    Box::pin(async move {
                        let r = item.execute(env).await;
                        yash_env::builtin::Result::with_exit_status_and_divert(env.exit_status, r)
                    })
                });
                wd.state.borrow_mut().executor = saved;
                l = std::mem::take(&mut wd.env.jobs);
                if l.len() != before_len || l.last_async_pid() != before_async {
                    doc = Some("ampfail-table".into());
                }
                show_ran(&ran)
            }
            ["wait", args @ ..] => {
                let Some(fields) = parse_args(args) else {
                    return ("bad-case".into(), "-".into(), String::new());
                };
                let wd = world.get_or_insert_with(World::new);
                let before_list = l.clone();
                wd.env.jobs = std::mem::take(&mut l);
                let ran = wd.run_builtin(&mut |_| (), |env| Box::pin(yash_builtin::wait::main(env, fields)));
                l = std::mem::take(&mut wd.env.jobs);
                // `wait` removes only jobs that have finished or are not owned; everything else is untouched
                for (i, j) in before_list.iter() {
                    let gone_ok = l.get(i).is_none() && (!j.state.is_alive() || !j.is_owned);
                    if l.get(i) != Some(j) && !gone_ok {
                        doc = Some(format!("wait-removal:{i}"));
                    }
                }
                if l.iter().any(|(i, _)| before_list.get(i).is_none()) {
                    doc = Some("wait-new-job".into());
                }
                show_ran(&ran)
            }
            ["wres", a] => {
                let Some(mut fields) = parse_args(&[a]) else {
                    return ("bad-case".into(), "-".into(), String::new());
                };
                use yash_builtin::wait::JobSpec;
                match JobSpec::try_from(fields.remove(0)) {
                    Err(_) => "bad".into(),
                    Ok(spec) => {
                        // `Display for JobId` prints a job ID that reads back as the same job ID
                        if let JobSpec::JobId(f) = &spec {
                            if let Ok(id) = yash_env::job::id::parse(&f.value) {
                                let text = id.to_string();
                                if yash_env::job::id::parse(&text) != Ok(id) {
                                    doc = Some("id-display".into());
                                }
                            }
                        }
                        let simple = match &spec {
                            JobSpec::JobId(f) => doc_simple(&f.value, l.current_job(), l.previous_job(), &snapshot(&l)),
                            _ => None,
                        };
                        match yash_builtin::wait::search::resolve(&l, spec) {
                            Ok(Some(i)) => {
                                if simple.is_some() && simple != Some(Some(i)) {
                                    doc = Some("wres-designation".into());
                                }
                                format!("some:{i}")
                            }
                            Ok(None) => {
                                if simple.is_some() && simple != Some(None) {
                                    doc = Some("wres-designation".into());
                                }
                                "none".into()
                            }
                            Err(_) => "amb".into(),
                        }
                    }
                }
            }
            ["amp", p, m, i, name] => {
                let (Ok(pid), Some(m), Some(inter)) = (p.parse::<i32>(), parse_bool(m), parse_bool(i)) else {
                    return ("bad-case".into(), "-".into(), String::new());
                };
                if !NAMES.contains(name) || pid < 10 {
                    return ("bad-case".into(), "-".into(), String::new());
                }
                if let Some(i) = l.find_by_pid(Pid(pid)) {
                    if l.get(i).map(|j| j.state.is_alive()).unwrap_or(false) {
                        pre = false;
                    }
                }
                let wd = world.get_or_insert_with(World::new);
                // `run_in_child_process` hands out "maximum of existing process IDs plus 1"
                wd.add_process(Pid(pid - 1), Pid(1), ProcessState::Running);
                wd.env.options.set(Monitor, if m { On } else { Off });
                wd.env.options.set(Interactive, if inter { On } else { Off });
                wd.env.jobs = std::mem::take(&mut l);
                let item = yash_syntax::syntax::Item {
                    and_or: Rc::new(name.parse().unwrap()),
                    async_flag: Some(Location::dummy("")),
                };
                let ran = wd.run_builtin(&mut |_| (), |env| {
                    Box::pin(async move {
                        let r = item.execute(env).await;
                        yash_env::builtin::Result::with_exit_status_and_divert(env.exit_status, r)
                    })
                });
                wd.env.options.set(Interactive, Off);
                l = std::mem::take(&mut wd.env.jobs);
                // `$!` is the process ID of the asynchronous command, which is a running job of that name
                let ok = l.last_async_pid() == Pid(pid)
                    && l.find_by_pid(Pid(pid))
                        .and_then(|i| l.get(i))
                        .map(|j| j.pid == Pid(pid) && j.name == *name && j.state == ProcessState::Running)
                        .unwrap_or(false);
                if !ok && !ran.stuck {
                    doc = Some("amp-job".into());
                }
                show_ran(&ran)
            }
            ["sync", evs] => {
                // `Env::update_all_subshell_statuses`: every job that is alive has a child process in the
                // recorded state; the events change the states of those processes; `wait(-1)` then hands
                // the changes out in the order of the process IDs
                let Some(evs) = parse_evs(evs) else {
                    return ("bad-case".into(), "-".into(), String::new());
                };
                if !evs.windows(2).all(|p| p[0].0 < p[1].0) {
                    return ("bad-case".into(), "-".into(), String::new());
                }
                let wd = world.get_or_insert_with(World::new);
                let before_list = l.clone();
                for (_, j) in l.iter() {
                    if j.state.is_alive() {
                        wd.add_process(j.pid, wd.shell_pid, j.state);
                    }
                }
                for (p, st) in &evs {
                    let mut sys = wd.state.borrow_mut();
                    if let Some(pr) = sys.processes.get_mut(&Pid(*p)) {
                        if pr.state().is_alive() && pr.state() != *st {
                            let _ = pr.set_state(*st);
                        }
                    }
                }
                wd.env.jobs = std::mem::take(&mut l);
                wd.env.update_all_subshell_statuses();
                l = std::mem::take(&mut wd.env.jobs);
                wd.clear_processes();
                // nothing is removed or added; a job is in the recorded state or in a state an event reports for it
                for (i, j) in before_list.iter() {
                    let ok = l
                        .get(i)
                        .map(|n| n.pid == j.pid && (n.state == j.state || evs.contains(&(j.pid.0, n.state))))
                        .unwrap_or(false);
                    if !ok {
                        doc = Some(format!("sync-table:{i}"));
                    }
                }
                if l.len() != before_list.len() {
                    doc = Some("sync-table:len".into());
                }
                "-".into()
            }
            ["promptx", m, i] => {
                // the prompt report with standard error closed: the write fails, so no job is marked as reported
                // (it is reported at the next prompt) and nothing is removed
                let (Some(m), Some(inter)) = (parse_bool(m), parse_bool(i)) else {
                    return ("bad-case".into(), "-".into(), String::new());
                };
                let wd = world.get_or_insert_with(World::new);
                let before_list = l.clone();
                wd.env.options.set(Monitor, if m { On } else { Off });
                wd.env.options.set(Interactive, if inter { On } else { Off });
                wd.env.jobs = std::mem::take(&mut l);
                let shell = wd.shell_pid;
                let saved = wd.state.borrow_mut().processes.get_mut(&shell).and_then(|p| p.close_fd(yash_env::io::Fd::STDERR));
                let line = wd.drive(&mut |_| (), |env| {
                    Box::pin(async move {
                        use yash_env::input::Input as _;
                        let cell = RefCell::new(env);
                        let mut reporter =
                            yash_env::input::Reporter::new(yash_env::input::Memory::new("echo\n"), &cell);
                        reporter.next_line(&yash_env::input::Context::default()).await
                    })
                });
                if let Some(body) = saved {
                    if let Some(p) = wd.state.borrow_mut().processes.get_mut(&shell) {
                        let _ = p.set_fd(yash_env::io::Fd::STDERR, body);
                    }
                }
                let (_, stderr) = wd.take_output();
                wd.env.options.set(Interactive, Off);
                l = std::mem::take(&mut wd.env.jobs);
                if !matches!(line, Some(Ok(ref t)) if t == "echo\n") {
                    doc = Some("prompt-input".into());
                }
                for (i, j) in before_list.iter() {
                    if l.get(i) != Some(j) {
                        doc = Some(format!("promptx-table:{i}"));
                    }
                }
                if l.len() != before_list.len() || l.current_job() != before_list.current_job() || l.previous_job() != before_list.previous_job() {
                    doc = Some("promptx-table:len".into());
                }
                enc_str(&stderr)
            }
            ["subjobs" | "subwait", args @ ..] => {
                // `( jobs ARG… )` / `( wait ARG… )` through the shell's parser and a REAL subshell (a child process of the
                // virtual system working on a copy of the environment in which `disown_all` has run)
                if !args.iter().all(|a| safe_arg(a)) {
                    return ("bad-case".into(), "-".into(), String::new());
                }
                let wd = world.get_or_insert_with(World::new);
                let before_list = l.clone();
                let src = format!("({} {})", if w[0] == "subjobs" { "jobs" } else { "wait" }, args.join(" "));
                let list: yash_syntax::syntax::List = src.parse().unwrap();
                wd.env.options.set(Monitor, Off);
                wd.env.jobs = std::mem::take(&mut l);
                let ran = wd.run_builtin(&mut |_| (), |env| {
                    Box::pin(async move {
                        let r = list.execute(env).await;
                        yash_env::builtin::Result::with_exit_status_and_divert(env.exit_status, r)
                    })
                });
                l = std::mem::take(&mut wd.env.jobs);
                // the parent's table is not touched by anything the subshell does
                if observe(&l, "", &pids) != observe(&before_list, "", &pids) {
                    doc = Some("subshell-parent-table".into());
                }
                // docs/src/builtins/wait.md: "Subshells cannot wait for jobs in the parent shell environment": an
                // operand that names a job of the parent gives 127 at best, never that job's exit status … checked
                // through the model; here: a lone `%n` operand naming an existing job yields 127
                if w[0] == "subwait" && args.len() == 1 && !ran.stuck {
                    if let Some(Some(_)) = doc_simple(args[0], before_list.current_job(), before_list.previous_job(), &snapshot(&before_list)) {
                        if ran.status != 127 {
                            doc = Some("subshell-waits-for-parent-job".into());
                        }
                    }
                }
                show_ran(&ran)
            }
            ["prompt", m, i] => {
                // `Reporter::next_line` (input/reporter.rs): the report an interactive shell prints before it
                // reads a line
                let (Some(m), Some(inter)) = (parse_bool(m), parse_bool(i)) else {
                    return ("bad-case".into(), "-".into(), String::new());
                };
                let wd = world.get_or_insert_with(World::new);
                let before_list = l.clone();
                let (cur, prev) = (l.current_job(), l.previous_job());
                wd.env.options.set(Monitor, if m { On } else { Off });
                wd.env.options.set(Interactive, if inter { On } else { Off });
                wd.env.jobs = std::mem::take(&mut l);
                let line = wd.drive(&mut |_| (), |env| {
                    Box::pin(async move {
                        use yash_env::input::Input as _;
                        let cell = RefCell::new(env);
                        let mut reporter =
                            yash_env::input::Reporter::new(yash_env::input::Memory::new("echo\n"), &cell);
                        reporter.next_line(&yash_env::input::Context::default()).await
                    })
                });
                let (_, stderr) = wd.take_output();
                wd.env.options.set(Interactive, Off);
                l = std::mem::take(&mut wd.env.jobs);
                if !matches!(line, Some(Ok(ref t)) if t == "echo\n") {
                    doc = Some("prompt-input".into());
                }
                let on = m && inter;
                // nothing is removed; with the report on, only `state_changed` is cleared
                for (i, j) in before_list.iter() {
                    let mut want = j.clone();
                    if on {
                        want.state_changed = false;
                    }
                    if l.get(i) != Some(&want) {
                        doc = Some(format!("prompt-table:{i}"));
                    }
                }
                if l.len() != before_list.len() {
                    doc = Some("prompt-table:len".into());
                }
                // exactly the jobs whose state had changed are reported, with the right markers
                let heads = report_heads(&stderr);
                let want: Vec<usize> = if on {
                    before_list.iter().filter(|(_, j)| j.state_changed).map(|(i, _)| i).collect()
                } else {
                    vec![]
                };
                if heads.iter().map(|(n, _)| n.wrapping_sub(1)).collect::<Vec<_>>() != want {
                    doc = Some("prompt-jobs".into());
                }
                for (n, mk) in heads {
                    let i = n.wrapping_sub(1);
                    if (mk == '+') != (cur == Some(i)) || (mk == '-') != (prev == Some(i)) || !"+- ".contains(mk) {
                        doc = Some(format!("marker:[{n}]{mk}"));
                    }
                }
                enc_str(&stderr)
            }
            ["waitb", evs, args @ ..] => {
                // `wait` while the system reports state changes: every job that is alive has a child process
                // in the recorded state; whenever the shell blocks, the next event that can happen (its
                // process is alive and in another state) happens and SIGCHLD is raised; when no event is
                // left, no child is left either
                let (Some(evs), Some(fields)) = (parse_evs(evs), parse_args(args)) else {
                    return ("bad-case".into(), "-".into(), String::new());
                };
                let wd = world.get_or_insert_with(World::new);
                let before_list = l.clone();
                for (_, j) in l.iter() {
                    if j.state.is_alive() {
                        wd.add_process(j.pid, wd.shell_pid, j.state);
                    }
                }
                wd.env.jobs = std::mem::take(&mut l);
                let shell = wd.shell_pid;
                let mut queue: VecDeque<(i32, ProcessState)> = evs.iter().copied().collect();
                let mut hook = |state: &Rc<RefCell<SystemState>>| {
                    let mut sys = state.borrow_mut();
                    // the previous change has not been collected yet
                    if sys.processes.iter().any(|(pid, p)| *pid != shell && p.state_has_changed()) {
                        return;
                    }
                    loop {
                        match queue.pop_front() {
                            None => {
                                sys.processes.retain(|pid, _| *pid == shell);
                                break;
                            }
                            Some((p, st)) => {
                                if let Some(pr) = sys.processes.get_mut(&Pid(p)) {
                                    if pr.state().is_alive() && pr.state() != st {
                                        let _ = pr.set_state(st);
                                        break;
                                    }
                                }
                            }
                        }
                    }
                    if let Some(sh) = sys.processes.get_mut(&shell) {
                        let _ = sh.raise_signal(yash_env::system::r#virtual::SIGCHLD);
                    }
                };
                let ran = wd.run_builtin(&mut hook, |env| Box::pin(yash_builtin::wait::main(env, fields)));
                l = std::mem::take(&mut wd.env.jobs);
                for (i, j) in before_list.iter() {
                    let ok = match l.get(i) {
                        Some(n) => n.pid == j.pid && (n.state == j.state || evs.contains(&(j.pid.0, n.state))),
                        None => {
                            !j.is_owned
                                || !j.state.is_alive()
                                || evs.iter().any(|(p, st)| *p == j.pid.0 && !st.is_alive())
                        }
                    };
                    if !ok {
                        doc = Some(format!("wait-removal:{i}"));
                    }
                }
                if l.iter().any(|(i, _)| before_list.get(i).is_none()) {
                    doc = Some("wait-new-job".into());
                }
                show_ran(&ran)
            }
            ["kres", a] => {
                // `kill::send::resolve_target`: the argument of kill(2) for one operand of the `kill` built-in
                let Some(fields) = parse_args(&[a]) else {
                    return ("bad-case".into(), "-".into(), String::new());
                };
                use yash_builtin::kill::send::{Error as KillError, resolve_target};
                let target = fields[0].value.clone();
                let r = resolve_target(&l, &target);
                if target.starts_with('%') {
                    // "Signaling jobs": the process group of the job the job ID designates; a job that is not
                    // owned, not job-controlled or finished is refused
                    let designated = doc_simple(&target, l.current_job(), l.previous_job(), &snapshot(&l))
                        .flatten()
                        .and_then(|i| l.get(i));
                    let bad = match (&r, designated) {
                        (Ok(pid), Some(j)) => {
                            !(pid.0 == -j.pid.0 && j.state.is_alive() && j.is_owned && j.job_controlled)
                        }
                        (Ok(_), None) => true,
                        (Err(KillError::JobId(_)), d) => d.is_some(),
                        (Err(_), Some(j)) => j.state.is_alive() && j.is_owned && j.job_controlled,
                        (Err(_), None) => true,
                    };
                    if bad {
                        doc = Some("kill-designation".into());
                    }
                }
                match r {
                    Ok(pid) => format!("pid:{}", pid.0),
                    Err(KillError::JobId(FindError::NotFound)) => "err:nf".into(),
                    Err(KillError::JobId(FindError::Ambiguous)) => "err:amb".into(),
                    Err(KillError::Unowned) => "err:unowned".into(),
                    Err(KillError::Unmonitored) => "err:unmon".into(),
                    Err(KillError::Finished) => "err:finished".into(),
                    Err(KillError::ProcessId(_)) => "err:badpid".into(),
                    Err(_) => "err:other".into(),
                }
            }
            ["bang"] => {
                // the expansion of `$!` (`${!-unset}`: the value, or `unset`)
                let wd = world.get_or_insert_with(World::new);
                wd.env.jobs = std::mem::take(&mut l);
                let word: yash_syntax::syntax::Word = "${!-unset}".parse().unwrap();
                let r = wd.drive(&mut |_| (), |env| {
                    Box::pin(async move { yash_semantics::expansion::expand_word(env, &word).await.map(|f| f.0.value).ok() })
                });
                l = std::mem::take(&mut wd.env.jobs);
                let v = r.flatten().unwrap_or_else(|| "ERROR".into());
                // `$!` is the process ID `set_last_async_pid` recorded, unset while there is none
                let want = if l.last_async_pid().0 == 0 { "unset".to_string() } else { l.last_async_pid().0.to_string() };
                if v != want {
                    doc = Some("bang-value".into());
                }
                v
            }
            ["ins", p, st] => {
                let pid = Pid(p.parse().unwrap());
                if let Some(i) = l.find_by_pid(pid) {
                    if l.get(i).map(|j| j.state.is_alive()).unwrap_or(false) {
                        pre = false;
                    }
                }
                let mut j = Job::new(pid);
                j.state = parse_state(st).unwrap();
                l.insert(j).to_string()
            }
            ["upd", p, st] => opt(l.update_status(Pid(p.parse().unwrap()), parse_state(st).unwrap())),
            ["cur", i] => match l.set_current_job(i.parse().unwrap()) {
                Ok(()) => "ok".into(),
                Err(SetCurrentJobError::NoSuchJob) => "nosuch".into(),
                Err(SetCurrentJobError::NotSuspended) => "notsusp".into(),
            },
            ["rm", i] => l
                .remove(i.parse().unwrap())
                .map(|j| j.pid.0.to_string())
                .unwrap_or_else(|| "-".into()),
            ["rmdone", r] => {
                let report = *r != "0";
                let v: Vec<String> = l
                    .extract_if(|_, mut j| {
                        if report {
                            j.state_reported();
                        }
                        !j.state.is_alive()
                    })
                    .map(|(i, _)| i.to_string())
                    .collect();
                v.join(".")
            }
            ["rmchg"] => {
                let v: Vec<String> = l
                    .extract_if(|_, j| j.state_changed && !j.state.is_alive())
                    .map(|(i, _)| i.to_string())
                    .collect();
                v.join(".")
            }
            ["rmif", pr, r] => {
                // the REAL `JobList::remove_if`
                let (Some(pred), Some(report)) = (parse_pred(pr), parse_bool(r)) else {
                    return ("bad-case".into(), "-".into(), String::new());
                };
                let before_list = l.clone();
                l.remove_if(|i, mut j| {
                    let d = pred.eval(i, &j);
                    if report {
                        j.state_reported();
                    }
                    d
                });
                doc = removal_check(&before_list, &l, pred, report, None, None, None);
                "-".into()
            }
            ["rmfirst", k, pr, r] => {
                // `remove_if` with an `FnMut` closure that has its own state: "remove the first k jobs that …"
                let (Ok(k), Some(pred), Some(report)) = (k.parse::<usize>(), parse_pred(pr), parse_bool(r)) else {
                    return ("bad-case".into(), "-".into(), String::new());
                };
                let before_list = l.clone();
                let mut left = k;
                l.remove_if(|i, mut j| {
                    let d = left > 0 && pred.eval(i, &j);
                    if d {
                        left -= 1;
                    }
                    if report {
                        j.state_reported();
                    }
                    d
                });
                doc = removal_check(&before_list, &l, pred, report, None, None, Some(k));
                "-".into()
            }
            ["xif", pr, r] => {
                let (Some(pred), Some(report)) = (parse_pred(pr), parse_bool(r)) else {
                    return ("bad-case".into(), "-".into(), String::new());
                };
                let before_list = l.clone();
                let v: Vec<usize> = l
                    .extract_if(|i, mut j| {
                        let d = pred.eval(i, &j);
                        if report {
                            j.state_reported();
                        }
                        d
                    })
                    .map(|(i, _)| i)
                    .collect();
                doc = removal_check(&before_list, &l, pred, report, None, Some(&v), None);
                v.iter().map(|i| i.to_string()).collect::<Vec<_>>().join(".")
            }
            ["xtake", n, pr, r] => {
                // `extract_if` dropped after `n` items: "If the returned iterator is dropped before iterating all
                // jobs, the remaining jobs are retained in the list."
                let (Ok(n), Some(pred), Some(report)) = (n.parse::<usize>(), parse_pred(pr), parse_bool(r)) else {
                    return ("bad-case".into(), "-".into(), String::new());
                };
                let before_list = l.clone();
                let v: Vec<usize> = l
                    .extract_if(|i, mut j| {
                        let d = pred.eval(i, &j);
                        if report {
                            j.state_reported();
                        }
                        d
                    })
                    .take(n)
                    .map(|(i, _)| i)
                    .collect();
                doc = removal_check(&before_list, &l, pred, report, Some(n), Some(&v), None);
                v.iter().map(|i| i.to_string()).collect::<Vec<_>>().join(".")
            }
            ["add", p, st] => {
                // the deprecated `JobList::add`: "This function is an alias for `insert`"
                let (Ok(pid), Some(state)) = (p.parse::<i32>(), parse_state(st)) else {
                    return ("bad-case".into(), "-".into(), String::new());
                };
                if let Some(i) = l.find_by_pid(Pid(pid)) {
                    if l.get(i).map(|j| j.state.is_alive()).unwrap_or(false) {
                        pre = false;
                    }
                }
                let mut j = Job::new(Pid(pid));
                j.state = state;
                let mut twin = l.clone();
                let want = twin.insert(j.clone());
                #[allow(deprecated)]
                let got = l.add(j);
                if got != want || observe(&l, "", &pids) != observe(&twin, "", &pids) {
                    doc = Some("add-differs-from-insert".into());
                }
                got.to_string()
            }
            ["rep1", i] => {
                let Ok(i) = i.parse::<usize>() else {
                    return ("bad-case".into(), "-".into(), String::new());
                };
                if let Some(mut j) = l.get_mut(i) {
                    j.state_reported();
                }
                "-".into()
            }
            ["ajs", p, res, i, name] => {
                // the deprecated `add_job_if_suspended` (still exported, re-exported by yash-semantics)
                let (Ok(pid), Some(state), Some(inter)) = (p.parse::<i32>(), parse_state(res), parse_bool(i)) else {
                    return ("bad-case".into(), "-".into(), String::new());
                };
                let ProcessState::Halted(result) = state else {
                    return ("bad-case".into(), "-".into(), String::new());
                };
                if result.is_stopped() {
                    if let Some(i) = l.find_by_pid(Pid(pid)) {
                        if l.get(i).map(|j| j.state.is_alive()).unwrap_or(false) {
                            pre = false;
                        }
                    }
                }
                let name = if *name == "-" { String::new() } else { name.to_string() };
                let wd = world.get_or_insert_with(World::new);
                let before_list = l.clone();
                wd.env.options.set(Interactive, if inter { On } else { Off });
                wd.env.jobs = std::mem::take(&mut l);
                let name2 = name.clone();
                #[allow(deprecated)]
                let r = yash_env::job::add_job_if_suspended(&mut wd.env, Pid(pid), result, || name2);
                wd.env.options.set(Interactive, Off);
                l = std::mem::take(&mut wd.env.jobs);
                if result.is_stopped() {
                    let ok = l
                        .find_by_pid(Pid(pid))
                        .and_then(|i| l.get(i))
                        .map(|j| j.name == name && j.job_controlled && j.state == state)
                        .unwrap_or(false);
                    if !ok {
                        doc = Some("ajs-job".into());
                    }
                } else if observe(&l, "", &pids) != observe(&before_list, "", &pids) {
                    // "If the process is not stopped, this function does not add a job."
                    doc = Some("ajs-table".into());
                }
                match r {
                    std::ops::ControlFlow::Continue(es) => format!("cont:{}", es.0),
                    std::ops::ControlFlow::Break(yash_env::semantics::Divert::Interrupt(Some(es))) => {
                        format!("intr:{}", es.0)
                    }
                    std::ops::ControlFlow::Break(_) => "break".into(),
                }
            }
            ["rep"] => {
                for (_, mut j) in l.iter_mut() {
                    j.state_reported();
                }
                "-".into()
            }
            ["exp", i, st] => {
                if let Some(mut j) = l.get_mut(i.parse().unwrap()) {
                    j.expect(if *st == "-" { None } else { parse_state(st) });
                }
                "-".into()
            }
            ["disown"] => {
                l.disown_all();
                "-".into()
            }
            ["async", p] => {
                l.set_last_async_pid(Pid(p.parse().unwrap()));
                "-".into()
            }
            _ => return ("bad-case".into(), "-".into(), String::new()),
        };
        if doc.is_none() {
            if let Some((pid, via_insert)) = became {
                let j = l.find_by_pid(Pid(pid));
                let ok = j.is_some()
                    && l.current_job() == j
                    && match cur_before {
                        None => true,
                        Some(c) => Some(c) == j || l.get(c).is_none() || l.previous_job() == Some(c),
                    };
                if !ok {
                    doc = Some(if via_insert { KNOWN_INSERT.to_string() } else { "doc-suspended-becomes-current@update".to_string() });
                }
            }
        }
        if verdict.is_none() && pre {
            if let Err(e) = invariant(&l) {
                verdict = Some(format!("FAIL:inv@{k}:{e}"));
            } else if !stable(&before, &l) {
                verdict = Some(format!("FAIL:index@{k}"));
            } else if let Some(d) = doc {
                if d == KNOWN_INSERT {
                    known.get_or_insert(format!("FAIL:{d}@{k}"));
                } else {
                    verdict = Some(format!("FAIL:{d}@{k}"));
                }
            }
        }
        obs.push(observe(&l, &r, &pids));
    }
    let key = obs.last().cloned().unwrap_or_default();
    let key = key.split_once(' ').map(|x| x.1.to_string()).unwrap_or(key);
    let oracle = verdict
        .or(known)
        .unwrap_or_else(|| if pre { "ok".into() } else { "ok-until-pre".into() });
    if compact {
        return (compact_obs(&obs), oracle, key);
    }
    (obs.join(" | "), oracle, key)
}

fn run_guarded(case: &str) -> (String, String, String) {
    let mut out = (String::new(), String::new(), String::new());
    let o = guarded(|| {
        out = run_case(case);
        out.0.clone()
    });
    if o.starts_with("PANIC") {
        (o.clone(), format!("FAIL:{o}"), String::new())
    } else {
        out
    }
}

const PIDS: [i32; 4] = [101, 102, 103, 104];
const STATES: [&str; 4] = ["R", "S19", "E0", "K9"];

fn alphabet() -> Vec<String> {
    let mut ops = vec![];
    for p in PIDS {
        ops.push(format!("ins {p} R"));
        ops.push(format!("ins {p} S20"));
        for s in STATES {
            ops.push(format!("upd {p} {s}"));
        }
    }
    for i in 0..5 {
        ops.push(format!("cur {i}"));
        ops.push(format!("rm {i}"));
    }
    ops.push("rmdone 0".into());
    ops.push("rmdone 1".into());
    ops.push("rmchg".into());
    ops.push("rep".into());
    // wave 3: the REAL `remove_if` (not only `extract_if`), with predicates that do not depend on the state
    // (a bit mask over the indices), `extract_if` dropped early, the deprecated `add`, `get_mut().state_reported()`
    for o in [
        "rmif done 0", "rmif done 1", "rmif chg 0", "rmif susp 0", "rmif run 1", "rmif m3 0", "rmif m5 0", "rmif m6 0",
        "rmif m7 1", "rmif m12 0", "xif m3 0", "xif m6 1", "xif alive 0", "xtake 1 done 0", "xtake 1 all 1", "xtake 2 m7 0",
        "add 101 R", "add 102 S20", "rep1 0", "rep1 2", "rmfirst 1 all 0", "rmfirst 2 run 1", "rmfirst 1 done 0",
    ] {
        ops.push(o.into());
    }
    ops
}

/// second alphabet: named, job-controlled jobs and the built-ins
fn alphabet2() -> Vec<String> {
    let mut ops: Vec<String> = [
        "job 101 R 1 ab",
        "job 101 S120 1 ab",
        "job 102 R 1 abc",
        "job 102 S116 1 abc",
        "job 103 R 1 b",
        "job 103 S120 0 b",
        "amp 104 1 0 a",
        "amp 104 0 1 ba",
        "jobs",
        "jobs -l",
        "jobs -p",
        "jobs %1",
        "jobs %- %+",
        "jobs %a",
        "jobs ?b 2",
        "bg 1",
        "bg 1 %1",
        "bg 1 %-",
        "bg 1 %2 %3",
        "bg 0",
        "fg 1 E0",
        "fg 1 S120",
        "fg 1 E3 %-",
        "fg 1 K9 %2",
        "fg 1 S116 %3",
        "fg 5 S120",
        "fg 7 K2 %1",
        "fg 3 E0",
        "fg 1 E0 %1 %2",
        "hjs 103 S120 0 b",
        "hjs 101 S116 1 ab",
        "hjs 102 K2 1 abc",
        "jobsx",
        "jobsx %1",
        "ampfail",
        "replast",
        "wait",
        "wait %1",
        "wait %% %-",
        "wait 102",
        "disown",
        // extension round: status changes reported by the system, the prompt report, `kill %job`, `$!`
        "sync 101:E0",
        "sync 101:S120,102:R",
        "sync 102:K9,103:S121",
        "prompt 1 1",
        "prompt 0 1",
        "waitb 101:E3 %1",
        "waitb 102:S120,102:R,102:E0 %2",
        "waitb 101:E1,102:E2,103:K9",
        "waitb 103:E5,101:S120 %1 %3",
        "kres %1",
        "kres %-",
        "kres %ab",
        "bang",
        // wave 3
        "rmif done 0",
        "rmif m3 0",
        "rmif m6 1",
        "rmif unowned 0",
        "xtake 1 all 0",
        "ajs 103 S120 0 b",
        "ajs 101 S116 1 ab",
        "ajs 102 K2 1 abc",
        "rep1 1",
        // final pass
        "promptx 1 1",
        "subjobs",
        "subjobs -l",
        "subwait %1",
        "subwait",
    ]
    .iter()
    .map(|s| s.to_string())
    .collect();
    for p in [101, 102, 103, 104] {
        for s in ["R", "S120", "E0", "K9"] {
            ops.push(format!("upd {p} {s}"));
        }
    }
    ops
}

const OPERANDS: [&str; 56] = [
    "%", "%%", "%+", "%-", "%1", "%2", "%3", "%4", "%5", "%9", "%0", "%01", "%a", "%ab", "%abc", "%b",
    "%ba", "%?b", "%?", "%?c", "%?a", "%x", "%-1", "%%%", "1", "2", "3", "a", "?b", "-", "''", "x", "+", "%+",
    "%18446744073709551615", "%18446744073709551616", "%1x", "%?ab", "%", "%-",
    // signs, blanks, leading zeros, overflow: the edges of the number parse
    "%+1", "%+2", "%+01", "+1", "%1\\s", "%\\s1", "%+1x", "%00", "%002", "%99999999999999999999", "%1a", "%+",
    "%-2", "%+0", "%?+1", "01",
];

const LIKELY: [&str; 14] = ["%", "%%", "%+", "%-", "%1", "%2", "%3", "%1", "%2", "%a", "%?b", "%ab", "1", "2"];

/// a random argument list for a built-in: an option with probability 1/`opt_den`, then 0-3
/// operands, mostly of the forms that are likely to designate a job
fn random_args(r: &mut Rng, options: &[&str], opt_den: u32, max_operands: usize) -> String {
    let mut v: Vec<String> = vec![];
    if r.chance(1, opt_den) {
        v.push(r.pick(options).to_string());
    }
    if r.chance(1, 12) {
        v.push("--".into());
    }
    let n = match r.below(20) {
        0..=7 => 0,
        8..=14 => 1,
        15..=17 => 2,
        _ => 3,
    };
    for _ in 0..n.min(max_operands) {
        if r.chance(2, 3) {
            v.push(r.pick(&LIKELY).to_string());
        } else {
            v.push(r.pick(&OPERANDS).to_string());
        }
    }
    v.join(" ")
}

/// a random predicate for `rmif` / `xif` / `xtake`
fn random_pred(r: &mut Rng, npids: usize) -> String {
    match r.below(10) {
        0 | 1 | 2 | 3 => format!("m{}", r.below(1usize << (npids + 1).min(9))),
        4 => format!("p{}", 101 + r.below(npids)),
        5 | 6 => "done".into(),
        _ => r.pick(&["chg", "all", "none", "susp", "run", "alive", "unowned", "susp", "run"]).to_string(),
    }
}

/// one of the wave-3 API operations
fn random_api3_op(r: &mut Rng, npids: usize) -> String {
    let p = 101 + r.below(npids);
    match r.below(10) {
        0 | 1 | 2 => format!("rmif {} {}", random_pred(r, npids), r.below(2)),
        3 => format!("rmfirst {} {} {}", r.below(4), random_pred(r, npids), r.below(2)),
        4 | 5 => format!("xif {} {}", random_pred(r, npids), r.below(2)),
        6 | 7 => format!("xtake {} {} {}", r.below(4), random_pred(r, npids), r.below(2)),
        8 => format!("add {p} {}", r.pick(&["R", "S20", "S19", "R"])),
        _ => format!("rep1 {}", r.below(npids + 1)),
    }
}

/// one operation of the mixed family (API operations, named jobs, built-ins, `cmd &`)
fn random_mixed_op(r: &mut Rng, npids: usize) -> String {
    let p = 101 + r.below(npids);
    let names = ["a", "ab", "abc", "b", "ba", "-", "ab", "+1x", "1a", "0", "-1"];
    match r.below(20) {
        0 | 1 | 2 => format!(
            "job {p} {} {} {}",
            r.pick(&["R", "S120", "S116", "R", "E0", "S19"]),
            r.pick(&["1", "1", "1", "0"]),
            r.pick(&names)
        ),
        3 => format!("amp {p} {} {} {}", r.below(2), r.below(2), r.pick(&NAMES)),
        4 | 5 | 6 => format!("upd {p} {}", r.pick(&["R", "S120", "S121", "E0", "E3", "K9", "C3", "K15", "S203"])),
        7 | 8 | 9 => format!("jobs {}", random_args(r, &["-l", "-p", "-l", "-p", "-lp", "-ll", "-x", "-pl"], 3, 3)).trim().to_string(),
        10 | 11 | 12 => format!("bg {} {}", if r.chance(1, 8) { 0 } else { 1 }, random_args(r, &["-x"], 15, 3)).trim().to_string(),
        13 | 14 => format!(
            "fg {} {} {}",
            r.pick(&["0", "1", "1", "1", "1", "3", "5", "7", "4"]),
            r.pick(&["E0", "E7", "K9", "C3", "S120", "S116", "S121", "K2"]),
            random_args(r, &["-x"], 15, 2)
        )
        .trim()
        .to_string(),
        15 | 16 => {
            let mut a = random_args(r, &["-x"], 15, 3);
            if r.chance(1, 5) {
                a = format!("{a} {}", r.pick(&["101", "102", "103", "0", "+101", "-1", "1x", "99999999999"]));
            }
            format!("wait {a}").trim().to_string()
        }
        17 => match r.below(3) {
            0 => format!("wres {}", r.pick(&OPERANDS)),
            1 => format!("kres {}", if r.chance(4, 5) { r.pick(&OPERANDS) } else { r.pick(&["101", "-102", "0", "-0", "+5", "x", "''", "2147483648", "-2147483648", "-2147483649"]) }),
            _ => "bang".to_string(),
        },
        18 if r.chance(1, 2) => match r.below(4) {
            0 => {
                // pending status changes, in the order of the process IDs
                let mut evs = vec![];
                for q in 0..npids {
                    if r.chance(1, 2) {
                        evs.push(format!("{}:{}", 101 + q, r.pick(&["R", "S120", "S121", "E0", "E3", "K9", "C3", "K2"])));
                    }
                }
                format!("sync {}", if evs.is_empty() { "-".to_string() } else { evs.join(",") })
            }
            1 if r.chance(1, 2) => match r.below(3) {
                0 => format!("promptx {} {}", if r.chance(1, 6) { 0 } else { 1 }, if r.chance(1, 6) { 0 } else { 1 }),
                1 => format!("subjobs {}", r.pick(&["", "-l", "-p", "%1", "%2", "%-", "%a", "%+ %-", "-l %3", "2"])).trim().to_string(),
                _ => format!("subwait {}", r.pick(&["", "%1", "%2", "%-", "%%", "%ab", "%1 %2", "101", "%9"])).trim().to_string(),
            },
            1 => format!("prompt {} {}", if r.chance(1, 6) { 0 } else { 1 }, if r.chance(1, 6) { 0 } else { 1 }),
            _ => {
                let n = r.below(6);
                let evs: Vec<String> = (0..n)
                    .map(|_| format!("{}:{}", 101 + r.below(npids), r.pick(&["R", "S120", "E0", "E3", "E7", "K9", "C3", "S121"])))
                    .collect();
                let mut a = random_args(r, &["-x"], 20, 3);
                if r.chance(1, 5) {
                    a = format!("{a} {}", r.pick(&["101", "102", "103", "0"]));
                }
                format!("waitb {} {a}", if evs.is_empty() { "-".to_string() } else { evs.join(",") }).trim().to_string()
            }
        },
        18 => match r.below(6) {
            0 | 1 => format!(
                "hjs {p} {} {} {}",
                r.pick(&["S120", "S116", "S121", "E0", "E2", "K2", "K9", "C2"]),
                r.below(2),
                r.pick(&names)
            ),
            2 => format!("jobsx {}", random_args(r, &["-l", "-p", "-x"], 4, 2)).trim().to_string(),
            3 => r.pick(&["ampfail", "replast", "replast"]).to_string(),
            _ => r.pick(&["disown", "rep", "rmdone 1", "rmchg"]).to_string(),
        },
        19 if r.chance(2, 3) => {
            if r.chance(1, 5) {
                format!(
                    "ajs {p} {} {} {}",
                    r.pick(&["S120", "S116", "S121", "E0", "E2", "K2", "K9", "C2"]),
                    r.below(2),
                    r.pick(&names)
                )
            } else {
                random_api3_op(r, npids)
            }
        }
        _ => format!("cur {}", r.below(npids + 1)),
    }
}

/// `ins`/`job`/`amp` of a pid whose job is alive violates the stated precondition: keep only some of those.
fn respects_pre(key: &str, op: &str) -> bool {
    let w: Vec<&str> = op.split_whitespace().collect();
    if w[0] != "ins" && w[0] != "add" && w[0] != "job" && w[0] != "amp" && !((w[0] == "hjs" || w[0] == "ajs") && w[2].starts_with('S')) {
        return true;
    }
    // key contains "jobs=i:pid:state:..." entries
    let jobs = key.split(' ').find_map(|f| f.strip_prefix("jobs=")).unwrap_or("");
    for e in jobs.split(',').filter(|e| !e.is_empty()) {
        let f: Vec<&str> = e.split(':').collect();
        if f[1] == w[1] && (f[2] == "R" || f[2].starts_with('S')) {
            return false;
        }
    }
    true
}

fn main() {
    quiet_panics();
    let o = Opts::from_args();
    let (fixed, only) = o.fixed_cases();
    for c in &fixed {
        let (obs, oracle, _) = run_guarded(c);
        emit_case(c, &obs, &oracle);
    }
    if only {
        return;
    }
    let depth = if o.thorough() { 6 } else { 4 };
    let alpha = alphabet();
    // breadth-first over histories with deduplication of the visible state
    let mut seen: HashSet<String> = HashSet::new();
    let mut queue: VecDeque<(String, String, usize)> = VecDeque::new();
    queue.push_back((String::new(), String::new(), 0));
    seen.insert(String::new());
    let mut edges = 0usize;
    while let Some((hist, key, d)) = queue.pop_front() {
        if d >= depth {
            continue;
        }
        for op in &alpha {
            if !respects_pre(&key, op) {
                continue;
            }
            let case = if hist.is_empty() { op.clone() } else { format!("{hist}; {op}") };
            let marked = format!("@ {case}");
            edges += 1;
            let mine = edges % o.shard.1 == o.shard.0;
            // the histories of the last level are not extended: a shard runs only the ones it emits
            if !mine && d + 1 >= depth {
                continue;
            }
            let (obs, oracle, nkey) = run_guarded(&marked);
            if mine {
                emit_case(&marked, &obs, &oracle);
            }
            if seen.insert(nkey.clone()) {
                queue.push_back((case, nkey, d + 1));
            }
        }
    }
    // the same over named job-controlled jobs and the built-ins
    let depth2 = if o.thorough() { 4 } else { 3 };
    let alpha2 = alphabet2();
    let mut seen: HashSet<String> = HashSet::new();
    let mut queue: VecDeque<(String, String, usize)> = VecDeque::new();
    queue.push_back((String::new(), String::new(), 0));
    seen.insert(String::new());
    while let Some((hist, key, d)) = queue.pop_front() {
        if d >= depth2 {
            continue;
        }
        for op in &alpha2 {
            if !respects_pre(&key, op) {
                continue;
            }
            let case = if hist.is_empty() { op.clone() } else { format!("{hist}; {op}") };
            let marked = format!("@ {case}");
            edges += 1;
            let mine = edges % o.shard.1 == o.shard.0;
            // the histories of the last level are not extended: a shard runs only the ones it emits
            if !mine && d + 1 >= depth2 {
                continue;
            }
            let (obs, oracle, nkey) = run_guarded(&marked);
            if mine {
                emit_case(&marked, &obs, &oracle);
            }
            if seen.insert(nkey.clone()) {
                queue.push_back((case, nkey, d + 1));
            }
        }
    }
    // every signal number of the virtual system (and its neighbours) through the report format:
    // `Stopped(SIG…)`, `Killed(SIG…)`, `Killed(SIG…: core dumped)` in `jobs`, `jobs -l` and the prompt report
    let sweep: Vec<i32> = (1..=131).chain(198..=212).collect();
    for (k, n) in sweep.iter().enumerate() {
        if k % o.shard.1 != o.shard.0 {
            continue;
        }
        let case = format!(
            "job 101 S{n} 1 a; job 102 K{n} 1 b; job 103 C{n} 0 abc; prompt 1 1; jobs -l; job 102 R 1 b; upd 102 K{n}; jobs"
        );
        let (obs, oracle, _) = run_guarded(&case);
        emit_case(&case, &obs, &oracle);
    }
    // random histories mixing the API with the built-ins
    let mut rng = Rng::new(o.seed ^ 0xC12B);
    let n = if o.thorough() { 60_000 } else { 4_000 };
    for k in 0..n {
        if k % o.shard.1 != o.shard.0 {
            rng.next();
            continue;
        }
        let mut r = rng.fork();
        let len = 4 + r.below(if o.thorough() { 30 } else { 16 });
        let npids = 2 + r.below(5);
        let honour = !r.chance(1, 8);
        let mut ops: Vec<String> = vec![];
        let mut hist = String::new();
        let mut key = String::new();
        for _ in 0..len {
            let op = loop {
                let cand = random_mixed_op(&mut r, npids);
                if !honour || respects_pre(&key, &cand) {
                    break cand;
                }
            };
            ops.push(op);
            hist = ops.join("; ");
            if honour {
                key = run_guarded(&hist).2;
            }
        }
        let (obs, oracle, _) = run_guarded(&hist);
        emit_case(&hist, &obs, &oracle);
    }
    // random long histories, including ones that break the insert precondition, more pids
    let mut rng = Rng::new(o.seed ^ 0xC12);
    let n = if o.thorough() { 50_000 } else { 3_000 };
    for k in 0..n {
        if k % o.shard.1 != o.shard.0 {
            rng.next();
            continue;
        }
        let mut r = rng.fork();
        let len = 5 + r.below(if o.thorough() { 60 } else { 30 });
        let npids = 2 + r.below(7);
        let honour = !r.chance(1, 5);
        let mut ops: Vec<String> = vec![];
        let mut hist = String::new();
        let mut key = String::new();
        for _ in 0..len {
            let op = loop {
                let p = 101 + r.below(npids);
                let cand = match r.below(14) {
                    12 | 13 => random_api3_op(&mut r, npids),
                    0 | 1 | 2 => format!("ins {p} {}", r.pick(&["R", "S20", "S19", "R"])),
                    3 | 4 | 5 | 6 => format!("upd {p} {}", r.pick(&["R", "S19", "S20", "E0", "E3", "K9"])),
                    7 => format!("cur {}", r.below(npids + 1)),
                    8 => format!("rm {}", r.below(npids + 1)),
                    9 => r.pick(&["rmdone 0", "rmdone 1", "rmchg", "rep", "replast"]).to_string(),
                    10 => format!("exp {} {}", r.below(npids), r.pick(&["-", "R", "S19", "E0"])),
                    _ => r.pick(&["disown".to_string(), format!("async {p}")]).clone(),
                };
                if !honour || respects_pre(&key, &cand) {
                    break cand;
                }
            };
            ops.push(op.clone());
            hist = ops.join("; ");
            if honour {
                key = run_guarded(&hist).2;
            }
        }
        let (obs, oracle, _) = run_guarded(&hist);
        emit_case(&hist, &obs, &oracle);
    }
}
