//! C02 — control flow and exit status: generated programs of the core command language, run by the
//! real parser and executor on the virtual shell, compared with the Lean `Exec` model.
//!
//! Case line: `<seed> <script as S-expression>` (grammar in lean/YashModel/Exec/Sexp.lean). The seed
//! drives only the surface rendering (newline vs `;`, blanks, comments, line continuations).
//! Observation: `trace=<marker:$?,…> status=<exit status>` where the trace comes from the `probe`
//! built-in (prints `$?`, preserves it). Program generation and running: `yverif::prog`.
//!
//! Second family, `search …` case lines: the command search (yash-env/src/semantics/command/search.rs)
//! in random environments; see `yverif::prog::search_family`.

use yverif::prog::{Gen, parse_case, render, run_case_full, search_family, sx_script};
use yverif::proto::{Opts, emit, quiet_panics};
use yverif::rng::Rng;

/// one case of either family
fn run_one(case: &str) {
    if case.starts_with("search ") {
        let obs = yverif::proto::guarded(|| search_family::run(case));
        let oracle = if obs.starts_with("cl=") { search_family::oracle(&obs) } else { "-".into() };
        emit(case, &obs, &oracle);
    } else {
        emit(case, &run_case_full(case), "-");
    }
}

fn main() {
    quiet_panics();
    let o = Opts::from_args();
    if o.extra.first().map(|s| s.as_str()) == Some("--show") {
        // debugging aid: print the shell source of the replay cases
        let (fixed, _) = o.fixed_cases();
        for c in fixed {
            if let Some((seed, lines)) = parse_case(&c) {
                println!("{}", render(seed, &lines));
            }
        }
        return;
    }
    let (fixed, only) = o.fixed_cases();
    for c in &fixed {
        run_one(c);
    }
    if only {
        return;
    }
    // the command-search family: the search functions called directly and through a whole shell run
    let ns = if o.thorough() { 60_000 } else { 3_000 };
    let mut srng = Rng::new(o.seed ^ 0x5EA2C4);
    for k in 0..ns {
        let case = search_family::generate(&mut srng);
        if k % o.shard.1 != o.shard.0 {
            continue;
        }
        run_one(&case);
    }
    let n = if o.thorough() { 200_000 } else { 10_000 };
    let mut rng = Rng::new(o.seed ^ 0xC02);
    for k in 0..n {
        let s = rng.next();
        if k % o.shard.1 != o.shard.0 {
            continue;
        }
        let mut g = Gen {
            call_limit: yverif::prog::CALLABLE,
            loop_depth: 0,
            rng: Rng::new(s),
            marker: 0,
            counter: 0,
            budget: if o.thorough() { 30 } else { 22 },
            max_depth: if o.thorough() { 3 + (k % 4) as u32 } else { 2 + (k % 3) as u32 },
            errors: false,
            sig: false,
            defined: vec![],
        };
        let lines = g.script();
        let surface = g.rng.next() % 1000;
        let case = format!("{} {}", surface, sx_script(&lines));
        emit(&case, &run_case_full(&case), "-");
    }
}
