//! C02 — control flow and exit status: generated programs of the core command language, run by the
//! real parser and executor on the virtual shell, compared with the Lean `Exec` model.
//!
//! Case line: `<seed> <script as S-expression>` (grammar in lean/YashModel/Exec/Sexp.lean). The seed
//! drives only the surface rendering (newline vs `;`, blanks, comments, line continuations).
//! Observation: `trace=<marker:$?,…> status=<exit status>` where the trace comes from the `probe`
//! built-in (prints `$?`, preserves it). Program generation and running: `yverif::prog`.
//!
//! Second family, `search …` case lines: the command search (yash-env/src/semantics/command/search.rs)
//! in random environments; see `yverif::prog::search_family`.
//!
//! Wave 3, two more families (module `builtin_family` below):
//! `bi <break|continue|return|exit> <portable 0|1> <$?> <frames, top first: L S C B b D T I, or .> <args: hex,… or .>`
//! — the real `main` of the built-in on an `Env` with exactly that frame stack (B = special built-in frame,
//! b = non-special), `$?` and `portable` setting; observation `p=<break::syntax::parse result>
//! lc=<loop_count(1)>.<loop_count(2)>.<loop_count(usize::MAX)> cb=<current_builtin().is_special> st=<exit status>
//! dv=<divert>`; oracle: POSIX's reading evaluated on the result (levels never exceed the visible loops nor the
//! operand; an error interrupts iff the innermost built-in frame is special).
//! An optional sixth token of `bi exit` lines, four 0/1 digits `<interactive option><posixlycorrect><SuspendedJobsGuardConfig
//! stored><a stopped job in env.jobs>`, sets up the suspended-jobs guard of `exit` (absent = 0000).
//! `id <v|V|t> <aliases name=replacement (hex) or .> <the six tokens of a search case>` — `command -v`, `command -V`
//! and `type` (module `identify_family`): `Identify::execute` / `type::main` on an Env built from the case.
//! `rel <initial $?> <line codes>` — the read-eval loop entered with a preset `$?` on scripts of comment-only, blank and
//! command lines, with `eval` / `.` bodies of the same kind (module `rel_family`; /repo 4afb140).
//! `dv <a> <b>` — `Ord for Divert`: `cmp=<lt|eq|gt> max=<a.max(b)>`; oracle: `max` is one of the two and not
//! smaller than either.

use yverif::prog::{Gen, parse_case, render, run_case_full, search_family, sx_script};
use yverif::proto::{Opts, emit, quiet_panics};
use yverif::rng::Rng;

/// one case of either family
fn run_one(case: &str) {
    if case.starts_with("rel ") {
        let obs = yverif::proto::guarded(|| rel_family::run(case));
        let oracle = rel_family::oracle(case, &obs);
        emit(case, &obs, &oracle);
    } else if case.starts_with("id ") {
        let obs = yverif::proto::guarded(|| identify_family::run(case));
        let oracle = identify_family::oracle(case, &obs);
        emit(case, &obs, &oracle);
    } else if case.starts_with("bi ") || case.starts_with("dv ") {
        let obs = yverif::proto::guarded(|| builtin_family::run(case));
        let oracle = builtin_family::oracle(case, &obs);
        emit(case, &obs, &oracle);
    } else if case.starts_with("search ") {
        let obs = yverif::proto::guarded(|| search_family::run(case));
        let oracle = if obs.starts_with("cl=") { search_family::oracle(&obs) } else { "-".into() };
        emit(case, &obs, &oracle);
    } else {
        emit(case, &run_case_full(case), "-");
    }
}

fn main() {
    quiet_panics();
    let o = Opts::from_args();
    if o.extra.first().map(|s| s.as_str()) == Some("--show") {
        // debugging aid: print the shell source of the replay cases
        let (fixed, _) = o.fixed_cases();
        for c in fixed {
            if let Some((seed, lines)) = parse_case(&c) {
                println!("{}", render(seed, &lines));
            }
        }
        return;
    }
    let (fixed, only) = o.fixed_cases();
    for c in &fixed {
        run_one(c);
    }
    if only {
        return;
    }
    // the control-flow built-ins called directly, and the order of `Divert`
    let nb = if o.thorough() { 60_000 } else { 3_000 };
    let mut brng = Rng::new(o.seed ^ 0xB1_B1);
    for k in 0..nb {
        let case = if k % 6 == 5 { builtin_family::generate_dv(&mut brng) } else { builtin_family::generate(&mut brng) };
        if k % o.shard.1 != o.shard.0 {
            continue;
        }
        run_one(&case);
    }
    // the read-eval loop's `executed` flag: scripts with comment-only / blank lines, eval and dot bodies
    let nr = if o.thorough() { 20_000 } else { 1_000 };
    let mut rrng = Rng::new(o.seed ^ 0x4EAD);
    for k in 0..nr {
        let case = rel_family::generate(&mut rrng);
        if k % o.shard.1 != o.shard.0 {
            continue;
        }
        run_one(&case);
    }
    // `command -v` / `command -V` / `type` over the environments of the search family
    let ni = if o.thorough() { 40_000 } else { 2_000 };
    let mut irng = Rng::new(o.seed ^ 0x1DE7);
    for k in 0..ni {
        let case = identify_family::generate(&mut irng);
        if k % o.shard.1 != o.shard.0 {
            continue;
        }
        run_one(&case);
    }
    // the command-search family: the search functions called directly and through a whole shell run
    let ns = if o.thorough() { 60_000 } else { 3_000 };
    let mut srng = Rng::new(o.seed ^ 0x5EA2C4);
    for k in 0..ns {
        let case = search_family::generate(&mut srng);
        if k % o.shard.1 != o.shard.0 {
            continue;
        }
        run_one(&case);
    }
    let n = if o.thorough() { 200_000 } else { 10_000 };
    let mut rng = Rng::new(o.seed ^ 0xC02);
    for k in 0..n {
        let s = rng.next();
        if k % o.shard.1 != o.shard.0 {
            continue;
        }
        let mut g = Gen {
            call_limit: yverif::prog::CALLABLE,
            loop_depth: 0,
            rng: Rng::new(s),
            marker: 0,
            counter: 0,
            budget: if o.thorough() { 30 } else { 22 },
            max_depth: if o.thorough() { 3 + (k % 4) as u32 } else { 2 + (k % 3) as u32 },
            // one program in five also draws from the shell-error commands (expansion, assignment, redirection
            // and syntax errors, special built-in errors, read-only loop variable): the anchors' `error.handle`
            // paths are then run — and compared — by c02's own quick tier, not only by c10
            errors: k % 5 == 4,
            sig: false,
            defined: vec![],
        };
        let lines = g.script();
        let surface = g.rng.next() % 1000;
        let case = format!("{} {}", surface, sx_script(&lines));
        emit(&case, &run_case_full(&case), "-");
    }
}

/// The four control-flow built-ins called directly (yash-builtin/src/{break,continue,return,exit}.rs with
/// `Stack::loop_count`, `Stack::current_builtin` and common/report.rs behind them), and `Ord for Divert`.
mod builtin_family {
    use futures_util::FutureExt;
    use std::ops::ControlFlow::{Break, Continue};
    use yash_env::Env;
    use yash_env::option::{Option::Portable, State::On};
    use yash_env::semantics::{Divert, ExitStatus, Field};
    use yash_env::stack::{Builtin, Frame, Stack};
    use yverif::proto::{dec_str, enc_str};
    use yverif::rng::Rng;

    const FRAMES: &[u8] = b"LSCBbDTI";
    /// operands and options: plain numbers, signs, limits of usize / i32, blanks, non-ASCII digits, `--`,
    /// the options of `return` / `exit` in short, long, abbreviated and grouped form, unknown options
    const WORDS: &[&str] = &[
        "1", "2", "3", "1", "2", "0", "00", "01", "007", "+1", "+2", "+0", "-1", "-0", "-2", "+", "-", "", " 1", "1 ",
        "1x", "x", "0x1", "1.0", "١", "２", "10", "255", "256", "1000", "2147483647", "2147483648", "-2147483648",
        "-2147483649", "4294967296", "18446744073709551615", "18446744073709551616", "+18446744073709551615",
        "99999999999999999999999", "99999999999999999999999x", "--", "--", "-n", "-f", "-nn", "-nf", "-x",
        "--no-return", "--no", "--force", "--f", "--n", "--no-return=1", "--bogus", "-n1",
    ];

    fn pick<'a, T>(rng: &mut Rng, xs: &'a [T]) -> &'a T {
        &xs[(rng.next() % xs.len() as u64) as usize]
    }

    pub fn generate(rng: &mut Rng) -> String {
        let which = *pick(rng, &["break", "break", "continue", "return", "exit"]);
        let portable = rng.next() % 5 == 0;
        let status = *pick(rng, &[0u64, 0, 1, 2, 7, 126, 127, 255, 300]);
        let mut stack = String::new();
        // the caller's own frame on top in most cases (as `execute_builtin` leaves it), anything in the rest
        match rng.next() % 8 {
            0 => {}
            1 => stack.push('b'),
            _ => stack.push('B'),
        }
        let depth = rng.next() % 7;
        for _ in 0..depth {
            // loops and conditions are the common frames
            let c = if rng.next() % 10 < 7 { *pick(rng, b"LLLCb") } else { *pick(rng, FRAMES) };
            stack.push(c as char);
        }
        if stack.is_empty() {
            stack.push('.');
        }
        let nargs = *pick(rng, &[0u64, 0, 1, 1, 1, 1, 1, 1, 1, 2, 2, 3]);
        let mut args = vec![];
        for _ in 0..nargs {
            let w = if rng.next() % 3 == 0 { (rng.next() % 5).to_string() } else { pick(rng, WORDS).to_string() };
            args.push(enc_str(&w));
        }
        let args = if args.is_empty() { ".".to_string() } else { args.join(",") };
        if which == "exit" && rng.next() % 2 == 0 {
            // the suspended-jobs guard: mostly the refusing combination with one condition knocked out
            let mut g = [true, false, true, true];
            match rng.next() % 8 {
                0 => g[0] = false,
                1 => g[1] = true,
                2 => g[2] = false,
                3 => g[3] = false,
                4 => {
                    for b in g.iter_mut() {
                        *b = rng.next() % 2 == 0;
                    }
                }
                _ => {}
            }
            let gs: String = g.iter().map(|b| if *b { '1' } else { '0' }).collect();
            return format!("bi {which} {} {status} {stack} {args} {gs}", portable as u8);
        }
        format!("bi {which} {} {status} {stack} {args}", portable as u8)
    }

    fn gen_divert(rng: &mut Rng) -> String {
        let opt = |rng: &mut Rng| match rng.next() % 4 {
            0 => "-".to_string(),
            _ => pick(rng, &[0u64, 1, 2, 3, 127, 255]).to_string(),
        };
        match rng.next() % 6 {
            0 => format!("Ct{}", rng.next() % 4),
            1 => format!("Bk{}", rng.next() % 4),
            2 => format!("R{}", opt(rng)),
            3 => format!("I{}", opt(rng)),
            4 => format!("X{}", opt(rng)),
            _ => format!("A{}", opt(rng)),
        }
    }

    pub fn generate_dv(rng: &mut Rng) -> String {
        let a = gen_divert(rng);
        let b = if rng.next() % 8 == 0 { a.clone() } else { gen_divert(rng) };
        format!("dv {a} {b}")
    }

    fn show_opt(e: Option<ExitStatus>) -> String {
        match e {
            None => "-".into(),
            Some(e) => e.0.to_string(),
        }
    }

    fn show_divert(d: Divert) -> String {
        match d {
            Divert::Continue { count } => format!("Ct{count}"),
            Divert::Break { count } => format!("Bk{count}"),
            Divert::Return(e) => format!("R{}", show_opt(e)),
            Divert::Interrupt(e) => format!("I{}", show_opt(e)),
            Divert::Exit(e) => format!("X{}", show_opt(e)),
            Divert::Abort(e) => format!("A{}", show_opt(e)),
        }
    }

    fn parse_opt(t: &str) -> Option<Option<ExitStatus>> {
        if t == "-" { Some(None) } else { t.parse().ok().map(|n| Some(ExitStatus(n))) }
    }

    fn parse_divert(t: &str) -> Option<Divert> {
        if let Some(n) = t.strip_prefix("Ct") {
            return Some(Divert::Continue { count: n.parse().ok()? });
        }
        if let Some(n) = t.strip_prefix("Bk") {
            return Some(Divert::Break { count: n.parse().ok()? });
        }
        let (h, r) = t.split_at(1);
        let e = parse_opt(r)?;
        Some(match h {
            "R" => Divert::Return(e),
            "I" => Divert::Interrupt(e),
            "X" => Divert::Exit(e),
            "A" => Divert::Abort(e),
            _ => return None,
        })
    }

    fn frame_of(c: char) -> Option<Frame> {
        Some(match c {
            'L' => Frame::Loop,
            'S' => Frame::Subshell,
            'C' => Frame::Condition,
            'B' => Frame::Builtin(Builtin { name: Field::dummy("special"), is_special: true }),
            'b' => Frame::Builtin(Builtin { name: Field::dummy("regular"), is_special: false }),
            'D' => Frame::DotScript,
            'T' => Frame::Trap(yash_env::trap::Condition::Exit),
            'I' => Frame::InitFile,
            _ => return None,
        })
    }

    struct Case {
        which: String,
        stack: Vec<char>, // top first
        args: Vec<String>,
        guard: [bool; 4], // interactive, posixlycorrect, guard configured, a stopped job
    }

    fn parse_bi(toks: &[&str]) -> Option<(Case, bool, i32)> {
        let (toks, guard) = match toks {
            [five @ .., g] if toks.len() == 6 => {
                let b: Vec<bool> = g.chars().map(|c| c == '1').collect();
                if b.len() != 4 {
                    return None;
                }
                (five, [b[0], b[1], b[2], b[3]])
            }
            _ => (toks, [false; 4]),
        };
        let [which, portable, status, stack, args] = toks else { return None };
        let stack: Vec<char> = if *stack == "." { vec![] } else { stack.chars().collect() };
        let args = if *args == "." {
            vec![]
        } else {
            args.split(',').map(dec_str).collect::<Option<Vec<_>>>()?
        };
        Some((Case { which: which.to_string(), stack, args, guard }, *portable == "1", status.parse().ok()?))
    }

    pub fn run(case: &str) -> String {
        let toks: Vec<&str> = case.split(' ').collect();
        if toks[0] == "dv" {
            let (Some(a), Some(b)) = (toks.get(1).and_then(|t| parse_divert(t)), toks.get(2).and_then(|t| parse_divert(t)))
            else {
                return "bad-case".into();
            };
            let c = match a.cmp(&b) {
                std::cmp::Ordering::Less => "lt",
                std::cmp::Ordering::Equal => "eq",
                std::cmp::Ordering::Greater => "gt",
            };
            // `Divert::exit_status`, and `builtin::Result::max` (exit status 1 + a, against exit status 2 without a
            // divert, in both orders, and against exit status 0 + b)
            use yash_env::builtin::Result as BResult;
            let show_r = |r: BResult| {
                let dv = match r.divert() {
                    Continue(()) => "C".to_string(),
                    Break(d) => show_divert(d),
                };
                format!("{}:{dv}", r.exit_status().0)
            };
            let ra = BResult::with_exit_status_and_divert(ExitStatus(1), Break(a));
            let rb = BResult::with_exit_status_and_divert(ExitStatus(0), Break(b));
            let plain = BResult::new(ExitStatus(2));
            return format!(
                "cmp={c} max={} es={}/{} rm={}/{}/{}",
                show_divert(a.max(b)),
                show_opt(a.exit_status()),
                show_opt(b.exit_status()),
                show_r(ra.max(plain)),
                show_r(plain.max(ra)),
                show_r(ra.max(rb))
            );
        }
        let Some((c, portable, status)) = parse_bi(&toks[1..]) else { return "bad-case".into() };
        let mut env = Env::new_virtual();
        if portable {
            env.options.set(Portable, On);
        }
        env.exit_status = ExitStatus(status);
        if c.guard[0] {
            env.options.set(yash_env::option::Option::Interactive, On);
        }
        if c.guard[1] {
            env.options.set(yash_env::option::Option::PosixlyCorrect, On);
        }
        if c.guard[2] {
            env.any.insert(Box::new(yash_env::input::SuspendedJobsGuardConfig::with_message("stopped jobs\n")));
        }
        // a running job is always there; the stopped one only when asked for
        env.jobs.insert(yash_env::job::Job::new(yash_env::job::Pid(41)));
        if c.guard[3] {
            let mut job = yash_env::job::Job::new(yash_env::job::Pid(42));
            job.state = yash_env::job::ProcessState::stopped(yash_env::system::r#virtual::SIGTSTP);
            env.jobs.insert(job);
        }
        let Some(frames) = c.stack.iter().rev().map(|&ch| frame_of(ch)).collect::<Option<Vec<Frame>>>() else {
            return "bad-case".into();
        };
        env.stack = Stack::from(frames);
        let fields = Field::dummies(c.args.iter().map(|s| s.as_str()));
        let p = match c.which.as_str() {
            "break" | "continue" => match yash_builtin::r#break::syntax::parse(&env, fields.clone()) {
                Ok(n) => format!("ok{n}"),
                Err(yash_builtin::r#break::syntax::Error::CommonError(_)) => "opt".into(),
                Err(yash_builtin::r#break::syntax::Error::TooManyOperands(_)) => "many".into(),
                Err(yash_builtin::r#break::syntax::Error::InvalidNumber(_, e)) => format!("num:{:?}", e.kind()),
                Err(_) => "other".into(),
            },
            _ => "-".into(),
        };
        let lc = format!(
            "{}.{}.{}",
            env.stack.loop_count(1),
            env.stack.loop_count(2),
            env.stack.loop_count(usize::MAX)
        );
        let cb = match env.stack.current_builtin() {
            None => "-",
            Some(b) if b.is_special => "1",
            Some(_) => "0",
        };
        // the frame API the executor uses (`Env::push_frame`/`pop_frame`, guard drop) and `Stack::push`/`pop`: a pushed
        // `Loop` is one more visible loop exactly when the old top retained the context, and popping restores the stack
        {
            let depth = env.stack.len();
            let all = env.stack.loop_count(usize::MAX);
            let visible_top = c.stack.iter().take_while(|ch| matches!(ch, 'L' | 'C' | 'B' | 'b')).count() == c.stack.len()
                || c.stack.iter().take_while(|ch| matches!(ch, 'L' | 'C' | 'B' | 'b')).count() > 0
                || c.stack.is_empty();
            let _ = visible_top;
            let guard = env.push_frame(Frame::Loop);
            let inside = guard.stack.loop_count(usize::MAX);
            let popped = Env::pop_frame(guard);
            let g2 = env.stack.push(Frame::Condition);
            let inside2 = g2.loop_count(usize::MAX);
            let popped2 = Stack::pop(g2);
            {
                let _g3 = env.push_frame(Frame::Subshell);
            }
            {
                let _g4 = env.stack.push(Frame::Subshell);
            }
            if inside != all + 1 || inside2 != all || popped != Frame::Loop || popped2 != Frame::Condition
                || env.stack.len() != depth || env.stack.loop_count(usize::MAX) != all
            {
                return format!("FRAME-API-BROKEN({inside},{inside2},{all},{})", env.stack.len());
            }
        }
        let before = env.stack.len();
        let result = match c.which.as_str() {
            "break" => yash_builtin::r#break::main(&mut env, fields).now_or_never(),
            "continue" => yash_builtin::r#continue::main(&mut env, fields).now_or_never(),
            "return" => yash_builtin::r#return::main(&mut env, fields).now_or_never(),
            "exit" => yash_builtin::exit::main(&mut env, fields).now_or_never(),
            _ => return "bad-case".into(),
        };
        let Some(result) = result else { return "PENDING".into() };
        if env.stack.len() != before || env.exit_status != ExitStatus(status) {
            return "ENV-CHANGED".into();
        }
        let dv = match result.divert() {
            Continue(()) => "C".to_string(),
            Break(d) => show_divert(d),
        };
        format!("p={p} lc={lc} cb={cb} st={} dv={dv}", result.exit_status().0)
    }

    /// the property's own reading, evaluated on the real result
    pub fn oracle(case: &str, obs: &str) -> String {
        let toks: Vec<&str> = case.split(' ').collect();
        let field = |k: &str| obs.split(' ').find_map(|f| f.strip_prefix(k)).map(|s| s.to_string());
        if toks[0] == "dv" {
            let (Some(a), Some(b), Some(m)) = (toks.get(1), toks.get(2), field("max=")) else { return "-".into() };
            let (Some(da), Some(db), Some(dm)) = (parse_divert(a), parse_divert(b), parse_divert(&m)) else {
                return "-".into();
            };
            // severity: the later variant wins whatever the payloads
            let sev = |d: &Divert| match d {
                Divert::Continue { .. } => 0,
                Divert::Break { .. } => 1,
                Divert::Return(_) => 2,
                Divert::Interrupt(_) => 3,
                Divert::Exit(_) => 4,
                Divert::Abort(_) => 5,
            };
            if dm != da && dm != db {
                return "FAIL:max is neither argument".into();
            }
            if sev(&dm) < sev(&da) || sev(&dm) < sev(&db) {
                return "FAIL:the less severe divert won".into();
            }
            return "ok".into();
        }
        let Some((c, _, status)) = parse_bi(&toks[1..]) else { return "-".into() };
        let (Some(st), Some(dv)) = (field("st="), field("dv=")) else { return "-".into() };
        // loops visible from the top: through loops, conditions and built-ins, up to anything else
        let visible = c.stack.iter().take_while(|ch| matches!(ch, 'L' | 'C' | 'B' | 'b')).filter(|ch| **ch == 'L').count();
        let special = c.stack.iter().find(|ch| matches!(ch, 'B' | 'b')) == Some(&'B');
        let plain = |w: &String| !w.is_empty() && w.len() < 10 && w.bytes().all(|b| b.is_ascii_digit());
        let well_formed = c.args.is_empty() || (c.args.len() == 1 && plain(&c.args[0]));
        let operand: Option<usize> = c.args.first().and_then(|w| w.parse().ok());
        let error = |what: &str| {
            let want = if special { "I-" } else { "C" };
            if dv != want { format!("FAIL:{what}: divert {dv}, expected {want}") } else { "ok".to_string() }
        };
        match c.which.as_str() {
            "break" | "continue" => {
                let tag = if c.which == "break" { "Bk" } else { "Ct" };
                if let Some(k) = dv.strip_prefix(tag).and_then(|k| k.parse::<usize>().ok()) {
                    if st != "0" {
                        return "FAIL:a successful break/continue has a non-zero status".into();
                    }
                    if k + 1 > visible {
                        return "FAIL:more levels than visible loops".into();
                    }
                    if well_formed {
                        let n = operand.unwrap_or(1);
                        if n == 0 || k + 1 != n.min(visible) {
                            return "FAIL:levels are not min(operand, visible loops)".into();
                        }
                    }
                    "ok".into()
                } else if well_formed && operand != Some(0) && visible > 0 {
                    "FAIL:a well-formed break/continue inside a loop failed".into()
                } else if st == "0" {
                    "FAIL:an error with status 0".into()
                } else {
                    error("error of break/continue")
                }
            }
            "exit" if c.guard != [false; 4] => {
                // docs/src/builtins/exit.md: in an interactive shell with suspended jobs and without `-f`, `exit`
                // returns exit status 1 without exiting; `-f` exits
                let refused = st == "1" && dv == "I-";
                let interactive = c.guard[0] && !c.stack.contains(&'S');
                if refused && !(interactive && c.guard[3]) {
                    return "FAIL:exit refused although the shell is not interactive or no job is stopped".into();
                }
                let forced = c.args.first().is_some_and(|a| a == "-f" || a == "--force");
                if refused && forced {
                    return "FAIL:exit -f refused".into();
                }
                if well_formed && interactive && c.guard[3] && c.guard[2] && !c.guard[1] && !refused {
                    return "FAIL:exit went through in an interactive shell with a stopped job".into();
                }
                "ok".into()
            }
            _ => {
                let tag = if c.which == "return" { "R" } else { "X" };
                if well_formed {
                    let want = format!("{tag}{}", c.args.first().map(|w| w.parse::<u64>().unwrap().to_string()).unwrap_or("-".into()));
                    if dv != want || st != status.to_string() {
                        return format!("FAIL:expected {want} with $? kept");
                    }
                    "ok".into()
                } else if dv.starts_with(tag)
                    || (dv == "C" && c.which == "return" && c.args.iter().any(|a| a.starts_with('-') && a.contains('n')))
                {
                    // options (`-n`/`--no-return` in any spelling: no divert, any status; `-f`; `--`) or a sign:
                    // decided by the model
                    "ok".into()
                } else if st != "2" {
                    "FAIL:a syntax error must have status 2".into()
                } else {
                    error("syntax error")
                }
            }
        }
    }
}

/// `command -v`, `command -V`, `type` (yash-builtin/src/command/identify.rs, command/search.rs, type.rs) on an
/// environment described like a `search` case: built-ins of the five types, functions, `$PATH`, executable files,
/// `posixlycorrect`/`portable`, plus aliases; the `IsKeyword` hook is the one yash-cli installs.
mod identify_family {
    use futures_util::FutureExt;
    use std::cell::RefCell;
    use std::rc::Rc;
    use yash_env::Env;
    use yash_env::builtin::{Builtin, Type};
    use yash_env::function::{Function, FunctionBody};
    use yash_env::option::{Option as Opt, State::On};
    use yash_env::semantics::{ExitStatus, Field};
    use yash_env::source::Location;
    use yash_env::system::r#virtual::{FileBody, Inode, VirtualSystem};
    use yash_env::system::{Concurrent, Mode};
    use yash_env::variable::{Scope, Value};
    use yverif::proto::{dec_str, enc_str};
    use yverif::rng::Rng;

    type S = Rc<Concurrent<VirtualSystem>>;
    const NAMES: [&str; 8] = ["na", "nb", ":", "eval", "source", "x/y", "/bin/na", "/opt/nb"];
    const KEYWORDS: [&str; 6] = ["if", "{", "!", "esac", "function", "[["];

    pub fn generate(rng: &mut Rng) -> String {
        let base = yverif::prog::search_family::generate(rng);
        let mut toks: Vec<String> = base.split(' ').skip(1).map(|s| s.to_string()).collect();
        if rng.next() % 8 == 0 {
            // a keyword as the name (also one that is a function or an alias at the same time)
            let k = KEYWORDS[(rng.next() % KEYWORDS.len() as u64) as usize];
            toks[5] = enc_str(k);
        }
        let mut aliases = vec![];
        for n in ["na", "nb", "if"] {
            if rng.next() % 5 == 0 {
                let r = ["nb", "echo", "na"][(rng.next() % 3) as usize];
                aliases.push(format!("{}={}", enc_str(n), enc_str(r)));
            }
        }
        let aliases = if aliases.is_empty() { ".".to_string() } else { aliases.join(",") };
        let mode = ["v", "v", "V", "t"][(rng.next() % 4) as usize];
        format!("id {mode} {aliases} {}", toks.join(" "))
    }

    #[derive(Debug)]
    struct Body;
    impl std::fmt::Display for Body {
        fn fmt(&self, f: &mut std::fmt::Formatter<'_>) -> std::fmt::Result {
            write!(f, "{{ :; }}")
        }
    }
    impl FunctionBody<S> for Body {
        async fn execute(&self, _env: &mut Env<S>) -> yash_env::semantics::Result {
            std::ops::ControlFlow::Continue(())
        }
    }

    fn dummy(_env: &mut Env<S>, _a: Vec<Field>) -> std::pin::Pin<Box<dyn Future<Output = yash_env::builtin::Result> + '_>> {
        Box::pin(async { ExitStatus(0).into() })
    }

    fn dec_list(t: &str) -> Option<Vec<String>> {
        if t == "." {
            return Some(vec![]);
        }
        t.split(',').map(dec_str).collect()
    }

    struct Case {
        mode: String,
        name: String,
    }

    fn build(case: &str) -> Option<(Env<S>, Rc<RefCell<yash_env::system::r#virtual::SystemState>>, Case)> {
        let t: Vec<&str> = case.split(' ').collect();
        if t.len() != 9 || t[0] != "id" {
            return None;
        }
        let system = VirtualSystem::new();
        let state = Rc::clone(&system.state);
        let mut env: Env<S> = Env::with_system(Rc::new(Concurrent::new(system)));
        env.any.insert(Box::new(yash_env::parser::IsKeyword::<S>(|_env, word| {
            use std::str::FromStr;
            yash_syntax::parser::lex::Keyword::from_str(word).is_ok()
        })));
        if t[2] != "." {
            for a in t[2].split(',') {
                let (n, r) = a.split_once('=')?;
                env.aliases.insert(yash_env::alias::HashEntry::new(dec_str(n)?, dec_str(r)?, false, Location::dummy("alias")));
            }
        }
        let opts: Vec<char> = t[3].chars().collect();
        if opts.first() == Some(&'1') {
            env.options.set(Opt::PosixlyCorrect, On);
        }
        if opts.get(1) == Some(&'1') {
            env.options.set(Opt::Portable, On);
        }
        let (kind, dl) = t[4].split_once(':')?;
        let dirs = dec_list(dl)?;
        match kind {
            "u" => {}
            "a" => {
                let mut path = env.variables.get_or_new("PATH", Scope::Global);
                let _ = path.assign(Value::array(dirs), None);
            }
            _ => {
                let mut path = env.variables.get_or_new("PATH", Scope::Global);
                let _ = path.assign(dirs.join(":"), None);
            }
        }
        for p in dec_list(t[5])? {
            let mut inode = Inode::new(Vec::new());
            inode.body = FileBody::Regular { content: vec![], is_native_executable: true };
            inode.permissions.set(Mode::USER_EXEC, true);
            state.borrow_mut().file_system.save(p.as_str(), Rc::new(RefCell::new(inode))).ok()?;
        }
        if t[6] != "." {
            for b in t[6].split(',') {
                let (n, ty) = b.split_once(':')?;
                let n = dec_str(n)?;
                let ty = match ty {
                    "s" => Type::Special,
                    "m" => Type::Mandatory,
                    "e" => Type::Elective,
                    "x" => Type::Extension,
                    "u" => Type::Substitutive,
                    _ => return None,
                };
                let key: &'static str = NAMES.iter().find(|k| **k == n.as_str()).copied()?;
                env.builtins.insert(key, Builtin::new(ty, dummy));
            }
        }
        for f in dec_list(t[7])? {
            let _ = env.functions.define(Function::new(f, Rc::new(Body) as Rc<dyn yash_env::function::FunctionBodyObject<S>>, Location::dummy("f")));
        }
        {
            use yash_env::system::Chdir;
            let _ = env.system.chdir(c"/");
        }
        Some((env, state, Case { mode: t[1].to_string(), name: dec_str(t[8])? }))
    }

    pub fn run(case: &str) -> String {
        let Some((mut env, state, c)) = build(case) else { return "bad-case".into() };
        let result = if c.mode == "t" {
            yash_builtin::r#type::main(&mut env, Field::dummies([c.name.as_str()])).now_or_never()
        } else {
            let mut id = yash_builtin::command::Identify::default();
            id.names = Field::dummies([c.name.as_str()]);
            id.verbose = c.mode == "V";
            id.execute(&mut env).now_or_never()
        };
        let Some(result) = result else { return "PENDING".into() };
        let st = state.borrow();
        let read = |fd: &str| -> String {
            let f = st.file_system.get(fd).ok();
            match f {
                Some(i) => match &i.borrow().body {
                    FileBody::Regular { content, .. } => String::from_utf8_lossy(content).to_string(),
                    _ => String::new(),
                },
                None => String::new(),
            }
        };
        let out = read("/dev/stdout");
        let err = read("/dev/stderr");
        let body = if c.mode == "v" {
            if !err.is_empty() {
                return format!("STDERR({})", enc_str(&err));
            }
            match out.strip_suffix('\n') {
                Some(line) if !line.contains('\n') => format!("out={}", enc_str(line)),
                None if out.is_empty() => "out=-".to_string(),
                _ => format!("GARBLED({})", enc_str(&out)),
            }
        } else {
            // `<name>: <description>[ at <path>]`: the class words only
            let kind = match out.strip_suffix('\n') {
                None if out.is_empty() => "-".to_string(),
                Some(line) => {
                    let d = line.rsplit_once(": ").map_or(line, |x| x.1);
                    let d = d.split(" at ").next().unwrap_or(d);
                    match d {
                        "keyword" => "keyword".into(),
                        "function" => "function".into(),
                        "external utility" => "external".into(),
                        "special built-in" => "builtin-s".into(),
                        "mandatory built-in" => "builtin-m".into(),
                        "elective built-in" => "builtin-e".into(),
                        "extension built-in" => "builtin-x".into(),
                        "substitutive built-in" => "builtin-u".into(),
                        d if d.starts_with("alias for ") => "alias".into(),
                        d => format!("?({})", enc_str(d)),
                    }
                }
                _ => format!("GARBLED({})", enc_str(&out)),
            };
            if (kind == "-") == err.is_empty() {
                return format!("STDERR-MISMATCH({} {})", kind, enc_str(&err));
            }
            format!("kind={kind}")
        };
        format!("{body} st={}", result.exit_status().0)
    }

    /// POSIX `command -v`: exit status 0 and something printed iff the name was found; for a name that the shell
    /// would run from `$PATH` the answer is an absolute path
    pub fn oracle(_case: &str, obs: &str) -> String {
        let field = |k: &str| obs.split(' ').find_map(|f| f.strip_prefix(k)).map(|s| s.to_string());
        let Some(st) = field("st=") else { return "-".into() };
        let printed = field("out=").or(field("kind=")).is_some_and(|v| v != "-");
        if printed != (st == "0") {
            return "FAIL:exit status and output disagree".into();
        }
        if st != "0" && st != "1" {
            return "FAIL:exit status is neither 0 nor 1".into();
        }
        "ok".into()
    }
}

/// `read_eval_loop_impl` (yash-semantics/src/runner.rs) and its `executed` flag: a line without commands does not count,
/// a loop that executed nothing ends with `$?` = 0 — for the main script (entered with a preset `$?`), `eval` and `.`.
mod rel_family {
    use yash_env::semantics::ExitStatus;
    use yverif::rng::Rng;
    use yverif::shell::{Config, run_with, write_file};

    pub fn generate(rng: &mut Rng) -> String {
        let init = [0u64, 0, 1, 3, 7, 127][(rng.next() % 6) as usize];
        let n = rng.next() % 7;
        let mut codes = String::new();
        for _ in 0..n {
            let c = match rng.next() % 14 {
                0..=2 => 'c',
                3..=4 => 'b',
                5 => 'p',
                6 => 'e',
                7 => 'E',
                8 => 'g',
                9 => 'd',
                10 => 'D',
                11 => '0',
                12 => '4',
                _ => '9',
            };
            codes.push(c);
        }
        if codes.is_empty() {
            codes.push('.');
        }
        format!("rel {init} {codes}")
    }

    fn parse(case: &str) -> Option<(i32, Vec<char>)> {
        let t: Vec<&str> = case.split(' ').collect();
        let [_, init, codes] = t[..] else { return None };
        let codes = if codes == "." { vec![] } else { codes.chars().collect() };
        Some((init.parse().ok()?, codes))
    }

    pub fn run(case: &str) -> String {
        let Some((init, codes)) = parse(case) else { return "bad-case".into() };
        // comment texts (XCU 2.3 rule 10: a comment runs to the newline — a backslash in it, even the last character
        // before the newline, is not a line continuation): empty, ending in one or two backslashes, ordinary
        const COMMENTS: [&str; 9] = ["#", "#\\", "# x\\", "#\\\\", "# a comment", "##", "#\\ ", "# \\x", "#!\\"];
        let mut src = String::new();
        for (i, c) in codes.iter().enumerate() {
            // the surface of a line is a function of the case text alone
            let h = i * 31 + (init as usize) * 7 + codes.len() * 13 + (*c as usize);
            let comment = COMMENTS[h % COMMENTS.len()];
            let mut line = match c {
                'c' => format!("{}{comment}", ["", "   \t ", " "][(h / 9) % 3]),
                'b' => if i % 2 == 0 { String::new() } else { "  \t ".to_string() },
                'p' => "probe 1".to_string(),
                'e' => "eval '# only a comment'".to_string(),
                'E' => "eval ''".to_string(),
                'g' => "eval 'st 6'".to_string(),
                'd' => ". /dot_c".to_string(),
                'D' => ". /dot_s".to_string(),
                d if d.is_ascii_digit() => format!("st {d}"),
                _ => return "bad-case".into(),
            };
            if !matches!(c, 'c' | 'b') {
                // a comment after the command: after a blank, or directly after the `;` operator
                match (h / 9) % 4 {
                    0 => line = format!("{line} {comment}"),
                    1 => line = format!("{line};{comment}"),
                    2 => line = format!("{line} ; {comment}"),
                    _ => {}
                }
            }
            src.push_str(&line);
            src.push('\n');
        }
        let mut cfg = Config::new(&src);
        cfg.max_rounds = 20_000;
        let (o, _) = run_with(
            cfg,
            move |env, state| {
                write_file(state, "/dot_c", b"# nothing here\n\n   # still nothing\n");
                write_file(state, "/dot_s", b"# first\nst 7\n# trailing comment\n\n");
                env.exit_status = ExitStatus(init);
            },
            |_env, _| (),
        );
        if o.stuck {
            return "TIMEOUT".into();
        }
        // probe prints `<$?>:<hex field>` per line
        let trace: Vec<String> =
            o.stdout_str().lines().filter_map(|l| l.split_once(':').map(|x| format!("1:{}", x.0))).collect();
        format!("trace={} st={}", trace.join(","), o.exit_status)
    }

    /// POSIX (dot, eval): "if no command is executed, the exit status shall be zero"; comment-only and blank lines
    /// after the last command keep its status
    pub fn oracle(case: &str, obs: &str) -> String {
        let Some((_, codes)) = parse(case) else { return "-".into() };
        let Some(st) = obs.rsplit_once("st=").map(|x| x.1.to_string()) else { return "-".into() };
        let last = codes.iter().rev().find(|c| !matches!(c, 'c' | 'b'));
        let want = match last {
            None => 0,
            Some('p') => return "ok".into(), // probe keeps whatever `$?` was: decided by the model
            Some('e') | Some('E') | Some('d') => 0,
            Some('g') => 6,
            Some('D') => 7,
            Some(d) => d.to_digit(10).unwrap_or(0) as i32,
        };
        if st != want.to_string() { format!("FAIL:final status {st}, POSIX says {want}") } else { "ok".into() }
    }
}
